module verif/lab

go 1.20

require (
	github.com/ethereum/go-ethereum v1.10.22
	github.com/inconshreveable/log15 v0.0.0-20201112154412-8562bdadbbac
	github.com/syndtr/goleveldb v1.0.1-0.20210819022825-2ae1ddf74ef7
	github.com/zenon-network/go-zenon v0.0.0
)

require (
	github.com/btcsuite/btcd/btcutil v1.1.3 // indirect
	github.com/deckarep/golang-set v1.8.0 // indirect
	github.com/go-stack/stack v1.8.1 // indirect
	github.com/golang-collections/collections v0.0.0-20130729185459-604e922904d3 // indirect
	github.com/golang/snappy v0.0.4 // indirect
	github.com/gorilla/websocket v1.5.0 // indirect
	github.com/hashicorp/golang-lru v0.5.5-0.20210104140557-80c98217689d // indirect
	github.com/huin/goupnp v1.0.3 // indirect
	github.com/jackpal/go-nat-pmp v1.0.2 // indirect
	github.com/mattn/go-colorable v0.1.12 // indirect
	github.com/mattn/go-isatty v0.0.14 // indirect
	github.com/pkg/errors v0.9.1 // indirect
	github.com/shirou/gopsutil v3.21.11+incompatible // indirect
	github.com/tklauser/go-sysconf v0.3.10 // indirect
	github.com/tklauser/numcpus v0.4.0 // indirect
	github.com/tyler-smith/go-bip39 v1.1.0 // indirect
	golang.org/x/crypto v0.1.0 // indirect
	golang.org/x/sync v0.0.0-20210220032951-036812b2e83c // indirect
	golang.org/x/sys v0.1.0 // indirect
	google.golang.org/protobuf v1.27.1 // indirect
	gopkg.in/karalabe/cookiejar.v2 v2.0.0-20150724131613-8dcd6a7f4951 // indirect
	gopkg.in/natefinch/lumberjack.v2 v2.0.0 // indirect
)

replace github.com/zenon-network/go-zenon => /repo
