// racecheck: readers against a writer on a real node, to be built with -race.
// A data race is reported by the race detector (exit status 66); a panic in a reader or the writer is reported as such.
package main

import (
	"fmt"
	"math/big"
	"os"
	"strconv"
	"sync"
	"sync/atomic"
	"time"

	g "github.com/zenon-network/go-zenon/chain/genesis/mock"
	"github.com/zenon-network/go-zenon/chain/nom"
	"github.com/zenon-network/go-zenon/common/db"
	"github.com/zenon-network/go-zenon/common/types"
	"github.com/zenon-network/go-zenon/rpc/api"

	"verif/lab/node"
	"verif/lab/walk"
)

func main() {
	seconds := 8
	seed := int64(1)
	if len(os.Args) > 1 {
		seconds, _ = strconv.Atoi(os.Args[1])
	}
	if len(os.Args) > 2 {
		seed, _ = strconv.ParseInt(os.Args[2], 10, 64)
	}
	walk.LabConstants()
	// a chain produced elsewhere, to be synced in; and a competing branch for a reorganisation
	src, err := node.New("source", node.Options{Producer: true})
	if err != nil {
		panic(err)
	}
	ws := walk.New(src, seed)
	if err := ws.Run(60); err != nil {
		panic(err)
	}
	main60, _ := src.Detailed(2, src.Height())
	alt, _ := node.New("alt", node.Options{Producer: true})
	alt.InsertChain(wire(main60[:40]))
	node.Clock.Set(alt.Frontier().Timestamp.Add(0))
	alt.Produce(1)
	alt.ProduceN(8)
	branch, _ := alt.Detailed(42, alt.Height())
	alt.Stop()
	src.Stop()

	n, err := node.New("victim", node.Options{})
	if err != nil {
		panic(err)
	}
	node.Clock.Set(time.Unix(1000000000, 0).Add(100 * time.Hour))
	la := api.NewLedgerApi(node.Z{N: n})
	var stop int32
	var rounds int64
	var wg sync.WaitGroup
	reader := func(id int) {
		defer wg.Done()
		defer func() {
			if r := recover(); r != nil {
				fmt.Printf("READER-PANIC %d: %v\n", id, r)
				os.Exit(5)
			}
		}()
		for atomic.LoadInt32(&stop) == 0 {
			atomic.AddInt64(&rounds, 1)
			switch id % 4 {
			case 0:
				st := n.Chain.GetFrontierMomentumStore()
				if st != nil {
					m, _ := st.GetFrontierMomentum()
					if m != nil && m.Height > 3 {
						if old := n.Chain.GetMomentumStore(n.MomentumAt(m.Height - 2).Identifier()); old != nil {
							old.GetFrontierMomentum()
						}
					}
					db.DebugDB(n.Mgr.Frontier())
				}
			case 1:
				as := n.Chain.GetFrontierAccountStore(g.User1.Address)
				as.GetBalance(types.ZnnTokenStandard)
				as.Frontier()
			case 2:
				n.Chain.GetAllUncommittedAccountBlocks()
				n.Chain.GetUncommittedAccountBlocksByAddress(g.User1.Address)
				n.Chain.GetNewMomentumContent()
			case 3:
				la.GetFrontierMomentum()
				la.GetAccountInfoByAddress(g.User2.Address)
				la.GetAccountBlocksByPage(g.User1.Address, 0, 10)
				la.GetUnconfirmedBlocksByAddress(g.User1.Address, 0, 10)
				la.GetMomentumsByPage(0, 5)
			}
		}
	}
	for i := 0; i < 4; i++ {
		wg.Add(1)
		go reader(i)
	}
	deadline := time.Now().Add(time.Duration(seconds) * time.Second)
	cycles := 0
	for time.Now().Before(deadline) {
		cycles++
		// momentum by momentum, account blocks gossiped first
		for i := 0; i < 40; i++ {
			for _, b := range main60[i].AccountBlocks {
				c, _ := node.WireBlock(b)
				n.Offer(c)
			}
			if _, err := n.InsertChain(wire(main60[i : i+1])); err != nil {
				fmt.Println("WRITER-ERROR sync:", err)
				os.Exit(4)
			}
		}
		// a local block that will be dropped by the reorganisation
		n.Submit(&nom.AccountBlock{BlockType: nom.BlockTypeUserSend, Address: g.Pillar5.Address, ToAddress: g.User6.Address, TokenStandard: types.ZnnTokenStandard, Amount: big.NewInt(int64(cycles))}, g.Pillar5)
		if _, err := n.InsertChain(wire(main60[40:45])); err != nil {
			fmt.Println("WRITER-ERROR main:", err)
			os.Exit(4)
		}
		if _, err := n.InsertChain(wire(branch)); err != nil {
			fmt.Println("WRITER-ERROR reorg:", err)
			os.Exit(4)
		}
		// explicit rollback to genesis+1 for the next cycle
		insert := n.Chain.AcquireInsert("racecheck rollback")
		err := n.Chain.RollbackTo(insert, n.MomentumAt(1).Identifier())
		insert.Unlock()
		if err != nil {
			fmt.Println("WRITER-ERROR rollback:", err)
			os.Exit(4)
		}
	}
	atomic.StoreInt32(&stop, 1)
	wg.Wait()
	n.Stop()
	fmt.Printf("RACE-STRESS-OK cycles=%d reader-rounds=%d\n", cycles, rounds)
}

func wire(dms []*nom.DetailedMomentum) []*nom.DetailedMomentum {
	out := make([]*nom.DetailedMomentum, 0, len(dms))
	for _, d := range dms {
		c, err := node.Wire(d)
		if err != nil {
			panic(err)
		}
		out = append(out, c)
	}
	return out
}
