package main

import (
	"fmt"
	"os"
	"strconv"

	"verif/lab/checks"
)

func main() {
	if os.Args[1] == "sync" {
		seed, _ := strconv.ParseInt(os.Args[3], 10, 64)
		fmt.Println(checks.DebugSyncSession(os.Args[2], seed))
		return
	}
	if os.Args[1] == "gossip" {
		seed, _ := strconv.ParseInt(os.Args[2], 10, 64)
		only := ""
		if len(os.Args) > 3 {
			only = os.Args[3]
		}
		fmt.Println(checks.DebugGossip(seed, only))
		return
	}
	fmt.Println(checks.DebugDatagram(os.Args[1]))
}
