package main

import (
	"fmt"
	"os"
	"strconv"

	"verif/lab/checks"
)

func main() {
	if os.Args[1] == "sync" {
		seed, _ := strconv.ParseInt(os.Args[3], 10, 64)
		fmt.Println(checks.DebugSyncSession(os.Args[2], seed))
		return
	}
	fmt.Println(checks.DebugDatagram(os.Args[1]))
}
