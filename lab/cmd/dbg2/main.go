package main

import (
	"fmt"
	"os"

	"verif/lab/checks"
)

func main() { fmt.Println(checks.DebugDatagram(os.Args[1])) }
