package main

import (
	"fmt"
	"time"

	g "github.com/zenon-network/go-zenon/chain/genesis/mock"
	"github.com/zenon-network/go-zenon/chain/nom"
	"verif/lab/node"
)

func main() {
	p, _ := node.New("P", node.Options{Producer: true})
	defer p.Stop()
	p.ProduceN(5)
	all, _ := p.Detailed(2, 6)
	f, _ := node.New("F", node.Options{})
	defer f.Stop()
	node.Clock.Set(p.Frontier().Timestamp.Add(time.Hour))
	fmt.Println(f.InsertChain(all[:4]))
	v, _ := node.Wire(all[4])
	t := time.Unix(time.Now().Add(time.Hour).Unix()/10*10, 0)
	v.Momentum.Timestamp, v.Momentum.TimestampUnix = &t, uint64(t.Unix())
	var key = g.PillarKeys[0]
	for _, k := range g.PillarKeys {
		if k.Address == all[4].Momentum.Producer() {
			key = k
		}
	}
	v.Momentum.Hash = v.Momentum.ComputeHash()
	v.Momentum.PublicKey = key.Public
	v.Momentum.Signature = key.Sign(v.Momentum.Hash.Bytes())
	data, _ := v.Momentum.Serialize()
	v.Momentum, _ = nom.DeserializeMomentum(data)
	fmt.Println(v.Momentum.Timestamp, time.Now())
	err := f.Ver.Momentum(v)
	fmt.Println("verifier.Momentum:", err)
}
