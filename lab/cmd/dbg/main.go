package main

import (
	"encoding/json"
	"fmt"

	"github.com/zenon-network/go-zenon/chain/genesis"
	g "github.com/zenon-network/go-zenon/chain/genesis/mock"
	"github.com/zenon-network/go-zenon/common/db"
	"verif/lab/node"
)

func clone(c *genesis.GenesisConfig) *genesis.GenesisConfig {
	d, _ := json.Marshal(c)
	o := new(genesis.GenesisConfig)
	json.Unmarshal(d, o)
	return o
}
func fp(c *genesis.GenesisConfig) string {
	gen := genesis.NewGenesis(c)
	return gen.GetGenesisMomentum().Hash.String()[:8] + "/" + db.PatchHash(gen.GetGenesisTransaction().Changes).String()[:8]
}
func main() {
	node.Quiet()
	base := clone(g.EmbeddedGenesis)
	fmt.Println("base", fp(clone(base)), fp(clone(base)))
	c := clone(base)
	for i, j := 0, len(c.GenesisBlocks.Blocks)-1; i < j; i, j = i+1, j-1 {
		c.GenesisBlocks.Blocks[i], c.GenesisBlocks.Blocks[j] = c.GenesisBlocks.Blocks[j], c.GenesisBlocks.Blocks[i]
	}
	fmt.Println("blocks reversed", fp(c))
	c = clone(base)
	p := c.PillarConfig.Pillars
	p[0], p[len(p)-1] = p[len(p)-1], p[0]
	fmt.Println("pillars swapped", fp(c))
	c = clone(base)
	d := c.PillarConfig.Delegations
	d[0], d[len(d)-1] = d[len(d)-1], d[0]
	fmt.Println("delegations swapped", fp(c))
	c = clone(base)
	f := c.PlasmaConfig.Fusions
	f[0], f[len(f)-1] = f[len(f)-1], f[0]
	fmt.Println("fusions swapped", fp(c))
	c = clone(base)
	t := c.TokenConfig.Tokens
	t[0], t[len(t)-1] = t[len(t)-1], t[0]
	fmt.Println("tokens swapped", fp(c))
	if base.SporkConfig != nil {
		fmt.Println("sporks", len(base.SporkConfig.Sporks))
	}
	fmt.Println("legacy", len(base.PillarConfig.LegacyEntries), "swap", len(base.SwapConfig.Entries))
}
