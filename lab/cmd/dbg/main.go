package main

import (
	"bufio"
	"encoding/binary"
	"fmt"
	"os"

	"github.com/zenon-network/go-zenon/common/types"
	"github.com/zenon-network/go-zenon/vm/embedded/definition"
	"verif/lab/ledger"
)

func main() {
	fh, _ := os.Open(os.Args[1])
	rd := bufio.NewReaderSize(fh, 1<<22)
	p := ledger.NewProjector()
	for {
		line, err := rd.ReadBytes('\n')
		if len(line) > 1 {
			e, _ := ledger.ParseRaw(line)
			if e.Chain == 1 {
				p.Feed(e)
				if e.Ev == "momentum" && e.Momentum.Height == 362 {
					st := p.Mirror().GetAccountStore(types.PillarContract).Storage()
					it := st.NewIterator([]byte{132})
					for it.Next() {
						k := it.Key()
						a, _ := types.BytesToAddress(k[1:21])
						ep := binary.LittleEndian.Uint64(k[21:29])
						h, err := definition.GetRewardDepositHistory(st, ep, &a)
						fmt.Println(len(k), a, ep, h.Znn, h.Qsr, err)
					}
				}
			}
		}
		if err != nil {
			break
		}
	}
}
