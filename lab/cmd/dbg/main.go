package main

import (
	"fmt"

	"verif/lab/ledger"
	"verif/lab/node"
	"verif/lab/walk"
)

func main() {
	walk.LabConstants()
	cap := ledger.StartCapture()
	p, err := node.New("P", node.Options{Producer: true})
	if err != nil {
		panic(err)
	}
	defer p.Stop()
	w := walk.New(p, 7)
	err = w.Run(150)
	fmt.Println("run", err, p.Height(), w.Submitted, w.RejectedAtSend, w.Methods)
	d, err := w.Drain(30)
	fmt.Println("drained", d, err, p.Problems)
	for _, l := range w.Log[:40] {
		fmt.Println(l)
	}
	for _, id := range cap.ChainIDs() {
		pr := ledger.NewProjector()
		pr.Observer = ledger.StandardObserver(walk.EpochMomentums)
		fmt.Println(cap.Project(id, pr), len(pr.Events), pr.Blocks, pr.Momentums, pr.Note)
	}
}
