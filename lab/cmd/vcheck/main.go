// vcheck <Cxx> [--tier quick|thorough] [--replay file]: the one CLI behind every MANIFEST command.
package main

import (
	"encoding/json"
	"fmt"
	"os"

	"verif/lab/checks"
	"verif/lab/core"
)

var registry = map[string]func(*core.Run){
	"C01": checks.C01,
	"C02": checks.C02,
	"C03": checks.C03,
	"C04": checks.C04,
	"C09": checks.C09,
	"C10": checks.C10,
	"C11": checks.C11,
	"C12": checks.C12,
	"C13": checks.C13,
	"C14": checks.C14,
	"C15": checks.C15,
	"C16": checks.C16,
	"C17": checks.C17,
	"C18": checks.C18,
	"C19": checks.C19,
	"C20": checks.C20,
	"C05": checks.C05,
	"C06": checks.C06,
	"C07": checks.C07,
	"C08": checks.C08,
}

func main() {
	core.MaybeRunChild()
	if len(os.Args) < 2 {
		fmt.Fprintln(os.Stderr, "usage: vcheck <property> [--tier quick|thorough]")
		os.Exit(2)
	}
	prop := os.Args[1]
	tier := ""
	for i := 2; i < len(os.Args); i++ {
		switch os.Args[i] {
		case "--tier":
			if i+1 < len(os.Args) {
				tier = os.Args[i+1]
				i++
			}
		case "--replay":
			if i+1 < len(os.Args) {
				data, err := os.ReadFile(os.Args[i+1])
				if err != nil {
					core.Fatal("replay file: %v", err)
				}
				var rf struct {
					Key  string `json:"key"`
					Seed int64  `json:"seed"`
					Tier string `json:"tier"`
				}
				if json.Unmarshal(data, &rf) != nil || rf.Key == "" {
					core.Fatal("replay file %s has no violation key", os.Args[i+1])
				}
				core.ReplayKey = rf.Key
				os.Setenv("VERIF_SEED", fmt.Sprint(rf.Seed))
				os.Setenv("VERIF_REPLAY_FILE", os.Args[i+1])
				if rf.Tier != "" {
					tier = rf.Tier
				}
				i++
			}
		}
	}
	fn, ok := registry[prop]
	if !ok {
		core.Fatal("no check registered for %s", prop)
	}
	fn(core.NewRun(prop, tier))
}
