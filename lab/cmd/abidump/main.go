// abidump prints the embedded contracts' method tables (contract, method, parameter names and types).
package main

import (
	"fmt"
	"sort"

	"github.com/zenon-network/go-zenon/vm/abi"
	"github.com/zenon-network/go-zenon/vm/embedded/definition"
)

func main() {
	abis := map[string]abi.ABIContract{"accelerator": definition.ABIAccelerator, "bridge": definition.ABIBridge, "common": definition.ABICommon, "htlc": definition.ABIHtlc,
		"liquidity": definition.ABILiquidity, "pillar": definition.ABIPillars, "plasma": definition.ABIPlasma, "sentinel": definition.ABISentinel, "spork": definition.ABISpork,
		"stake": definition.ABIStake, "swap": definition.ABISwap, "token": definition.ABIToken}
	var names []string
	for n := range abis {
		names = append(names, n)
	}
	sort.Strings(names)
	for _, n := range names {
		var ms []string
		for m := range abis[n].Methods {
			ms = append(ms, m)
		}
		sort.Strings(ms)
		for _, m := range ms {
			fmt.Printf("%s.%s(", n, m)
			for i, in := range abis[n].Methods[m].Inputs {
				if i > 0 {
					fmt.Print(", ")
				}
				fmt.Printf("%s %s", in.Name, in.Type.String())
			}
			fmt.Println(")")
		}
	}
}
