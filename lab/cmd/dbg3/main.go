package main

import (
	"fmt"

	"verif/lab/checks"
)

func main() {
	fmt.Println(checks.DebugBridgeTraced())
}
