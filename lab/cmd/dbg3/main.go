package main

import (
	"fmt"
	"math/big"

	g "github.com/zenon-network/go-zenon/chain/genesis/mock"
	"github.com/zenon-network/go-zenon/chain/nom"
	"github.com/zenon-network/go-zenon/common/types"
	"github.com/zenon-network/go-zenon/vm/constants"
	"github.com/zenon-network/go-zenon/vm/embedded/definition"
	"github.com/zenon-network/go-zenon/wallet"

	"verif/lab/node"
	"verif/lab/walk"
)

func main() {
	walk.LabConstants()
	constants.InitialBridgeAdministrator.SetBytes(g.User5.Address.Bytes())
	constants.MinAdministratorDelay, constants.MinSoftDelay, constants.MinGuardians = 4, 2, 4
	constants.MinUnhaltDurationInMomentums = 3
	p, err := node.New("wedge", node.Options{Producer: true})
	if err != nil {
		panic(err)
	}
	defer p.Stop()
	w := walk.New(p, 1)
	id, err := w.ActivateSpork("spork-htlc")
	if err != nil {
		panic(err)
	}
	types.HtlcSpork.SporkId = id
	types.ImplementedSporksMap[id] = true
	u, admin := g.User1, g.User5
	znn := types.ZnnTokenStandard
	send := func(key *wallet.KeyPair, to types.Address, tok types.ZenonTokenStandard, amt *big.Int, data []byte) *nom.AccountBlock {
		b, err := p.Submit(&nom.AccountBlock{BlockType: nom.BlockTypeUserSend, Address: key.Address, ToAddress: to, TokenStandard: tok, Amount: amt, Data: data}, key)
		if err != nil {
			panic(err)
		}
		return b
	}
	twice := func(delay int, data []byte) {
		send(admin, types.BridgeContract, znn, big.NewInt(0), data)
		p.ProduceN(delay + 4)
		send(admin, types.BridgeContract, znn, big.NewInt(0), data)
		p.ProduceN(2)
	}
	blk := send(u, types.TokenContract, znn, constants.TokenIssueAmount,
		definition.ABIToken.PackMethodPanic(definition.IssueMethodName, "tok", "TOK", "", big.NewInt(1000), big.NewInt(5000), uint8(0), true, false, false))
	zts := types.NewZenonTokenStandard(blk.Hash.Bytes())
	send(admin, types.BridgeContract, znn, big.NewInt(0), definition.ABIBridge.PackMethodPanic(definition.SetOrchestratorInfoMethodName, uint64(6), uint32(3), uint32(15), uint32(10)))
	p.ProduceN(2)
	w.ReceivePending(u)
	guardians := []types.Address{g.User1.Address, g.User2.Address, g.User3.Address, g.User4.Address, g.User5.Address}
	twice(int(constants.MinAdministratorDelay), definition.ABIBridge.PackMethodPanic(definition.NominateGuardiansMethodName, guardians))
	twice(int(constants.MinSoftDelay), definition.ABIBridge.PackMethodPanic(definition.ChangeTssECDSAPubKeyMethodName, "AsAQx1M3LVXCuozDOqO5b9adj/PItYgwZFG/xTDBiZzT", "", ""))
	send(admin, types.BridgeContract, znn, big.NewInt(0), definition.ABIBridge.PackMethodPanic(definition.SetNetworkMethodName, uint32(2), uint32(123), "Ethereum", "0x323b5d4c32345ced77393b3530b1eed0f346429d", "{}"))
	p.ProduceN(2)
	twice(int(constants.MinSoftDelay), definition.ABIBridge.PackMethodPanic(definition.SetTokenPairMethod, uint32(2), uint32(123), zts, "0x5fbdb2315678afecb367f032d93f642f64180aa3", true, true, true, big.NewInt(10), uint32(15), uint32(20), "{}"))
	st := p.Chain.GetFrontierMomentumStore().GetAccountStore(types.BridgeContract).Storage()
	ni, err := definition.GetNetworkInfoVariable(st, 2, 123)
	fmt.Printf("network: %+v %v\n", ni, err)
	bi, err := definition.GetBridgeInfoVariable(st)
	fmt.Printf("bridge info: %+v %v\n", bi, err)
	si, err := definition.GetSecurityInfoVariable(st)
	fmt.Printf("security info: %+v %v\n", si, err)
	oi, err := definition.GetOrchestratorInfoVariable(st)
	fmt.Printf("orchestrator info: %+v %v\n", oi, err)
	p.ProduceN(1)
	w.ReceivePending(u)
	p.ProduceN(1)
	show := func(what string) {
		fmt.Println("--", what)
		for _, a := range []types.Address{types.TokenContract, types.BridgeContract, u.Address} {
			s := p.Chain.GetFrontierAccountStore(a)
			f, _ := s.Frontier()
			bal, _ := s.GetBalance(zts)
			fmt.Println("  ", a, "height", f.Height, "balance", bal)
		}
		ms := p.Chain.GetFrontierMomentumStore()
		for _, a := range []types.Address{types.TokenContract, types.BridgeContract} {
			front := p.Chain.GetFrontierAccountStore(a).SequencerFront(ms.GetAccountMailbox(a))
			fmt.Println("   inbox head of", a, ":", front)
		}
	}
	show("before wrap")
	send(u, types.BridgeContract, zts, big.NewInt(100), definition.ABIBridge.PackMethodPanic(definition.WrapTokenMethodName, uint32(2), uint32(123), "0xb794f5ea0ba39494ce839613fffba74279579268"))
	p.ProduceN(4)
	show("after wrap + 4 momentums")
	{
		s := p.Chain.GetFrontierAccountStore(types.BridgeContract)
		f, _ := s.Frontier()
		for h := f.Height; h > f.Height-3; h-- {
			b, _ := s.ByHeight(h)
			fmt.Printf("   bridge #%d type %d to %v amount %v %v data %x desc %d\n", h, b.BlockType, b.ToAddress, b.Amount, b.TokenStandard, b.Data, len(b.DescendantBlocks))
		}
	}
	// another call to the token contract: is it ever received?
	other := send(g.User2, types.TokenContract, znn, constants.TokenIssueAmount,
		definition.ABIToken.PackMethodPanic(definition.IssueMethodName, "tok2", "TOKK", "", big.NewInt(1000), big.NewInt(5000), uint8(0), true, false, false))
	p.ProduceN(6)
	show("after another issue + 6 momentums")
	rb, err := p.Chain.GetFrontierMomentumStore().GetBlockWhichReceives(other.Hash)
	fmt.Println("the second issue was received by:", rb, err)
	fmt.Println("problems:", p.Problems)
}
