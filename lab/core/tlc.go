package core

import (
	"bufio"
	"context"
	"fmt"
	"io"
	"os"
	"os/exec"
	"path/filepath"
	"regexp"
	"strconv"
	"strings"
	"time"
)

type TLCOpts struct {
	Module   string            // e.g. "VStore" (spec/VStore.tla)
	Cfg      string            // cfg file name inside spec/, or "" when CfgText is given
	CfgText  string            // literal cfg
	Workers  int               // 0 = 16
	Timeout  time.Duration     // 0 = 10 min
	Args     []string          // extra args, e.g. -simulate num=..
	Files    map[string]string // extra files to drop into the run directory (name -> content)
	OnLine   func(line string) // every stdout line
	DFS      bool              // depth-first queue (trace validation with unlogged variables)
	Coverage bool
}

type TLCResult struct {
	Generated, Distinct int64
	Violated            string // name of the violated invariant/property, "" if none
	PostconditionFailed bool
	Deadlock            bool
	Err                 string // other TLC errors
	Tail                []string
	Wall                time.Duration
	Depth               int64
	CoverageZero        []string
}

var (
	reStates  = regexp.MustCompile(`^(\d+) states generated, (\d+) distinct states found`)
	reInv     = regexp.MustCompile(`Invariant (\S+) is violated`)
	reProp    = regexp.MustCompile(`(?:Action property|Temporal property|property) (\S+) (?:is|was) violated`)
	reDepth   = regexp.MustCompile(`depth of the complete state graph search is (\d+)`)
	reSimStat = regexp.MustCompile(`^The number of states generated: (\d+)`)
)

// RunTLC runs TLC in a scratch directory holding a copy of /verif/spec and removes it afterwards.
func RunTLC(o TLCOpts) (*TLCResult, error) {
	dir, err := os.MkdirTemp("", "vtlc-")
	if err != nil {
		return nil, err
	}
	defer os.RemoveAll(dir)
	specs, _ := filepath.Glob(filepath.Join(VerifDir, "spec", "*.tla"))
	for _, s := range specs {
		data, err := os.ReadFile(s)
		if err != nil {
			return nil, err
		}
		os.WriteFile(filepath.Join(dir, filepath.Base(s)), data, 0o644)
	}
	cfgName := "run.cfg"
	if o.CfgText != "" {
		os.WriteFile(filepath.Join(dir, cfgName), []byte(o.CfgText), 0o644)
	} else {
		data, err := os.ReadFile(filepath.Join(VerifDir, "spec", o.Cfg))
		if err != nil {
			return nil, err
		}
		os.WriteFile(filepath.Join(dir, cfgName), data, 0o644)
	}
	for n, c := range o.Files {
		os.WriteFile(filepath.Join(dir, n), []byte(c), 0o644)
	}
	if o.Workers == 0 {
		o.Workers = 16
	}
	if o.Timeout == 0 {
		o.Timeout = 10 * time.Minute
	}
	// TLC unpacks its standard modules into a directory under java.io.tmpdir and leaves it there: keep it inside the scratch directory
	args := []string{"-XX:+UseParallelGC", "-Xss64m", "-Djava.io.tmpdir=" + dir}
	if o.DFS {
		args = append(args, "-Dtlc2.tool.queue.IStateQueue=StateDeque")
	}
	args = append(args, "-cp", "/opt/veriftools/tla/tla2tools.jar:/opt/veriftools/tla/CommunityModules-deps.jar", "tlc2.TLC",
		"-workers", strconv.Itoa(o.Workers), "-metadir", filepath.Join(dir, "md"), "-config", cfgName)
	if o.Coverage {
		args = append(args, "-coverage", "1")
	}
	args = append(args, o.Args...)
	args = append(args, o.Module+".tla")
	ctx, cancel := context.WithTimeout(context.Background(), o.Timeout)
	defer cancel()
	cmd := exec.CommandContext(ctx, "java", args...)
	cmd.Dir = dir
	stdout, err := cmd.StdoutPipe()
	if err != nil {
		return nil, err
	}
	cmd.Stderr = cmd.Stdout
	start := time.Now()
	if err := cmd.Start(); err != nil {
		return nil, err
	}
	res := &TLCResult{}
	rd := bufio.NewReaderSize(stdout, 1<<20)
	for {
		line, err := readLine(rd)
		if line != "" || err == nil {
			res.scan(line)
			if o.OnLine != nil {
				o.OnLine(line)
			}
		}
		if err != nil {
			break
		}
	}
	werr := cmd.Wait()
	res.Wall = time.Since(start)
	if ctx.Err() != nil {
		return res, fmt.Errorf("TLC timed out after %v (%s)", o.Timeout, o.Module)
	}
	if werr != nil && res.Violated == "" && !res.PostconditionFailed && !res.Deadlock && res.Err == "" {
		res.Err = fmt.Sprintf("tlc exit: %v; tail: %s", werr, strings.Join(res.Tail, " | "))
	}
	return res, nil
}

func readLine(rd *bufio.Reader) (string, error) {
	var sb strings.Builder
	for {
		chunk, isPrefix, err := rd.ReadLine()
		sb.Write(chunk)
		if err != nil {
			if err == io.EOF {
				return sb.String(), err
			}
			return sb.String(), err
		}
		if !isPrefix {
			return sb.String(), nil
		}
	}
}

func (r *TLCResult) scan(line string) {
	if strings.HasPrefix(line, "<<\"") {
		return // behaviour output
	}
	if len(r.Tail) > 40 {
		r.Tail = r.Tail[1:]
	}
	if len(line) < 400 {
		r.Tail = append(r.Tail, line)
	}
	if m := reStates.FindStringSubmatch(line); m != nil {
		r.Generated, _ = strconv.ParseInt(m[1], 10, 64)
		r.Distinct, _ = strconv.ParseInt(m[2], 10, 64)
	}
	if m := reSimStat.FindStringSubmatch(line); m != nil {
		r.Generated, _ = strconv.ParseInt(m[1], 10, 64)
	}
	if m := reInv.FindStringSubmatch(line); m != nil {
		r.Violated = m[1]
	} else if m := reProp.FindStringSubmatch(line); m != nil {
		r.Violated = m[1]
	}
	if m := reDepth.FindStringSubmatch(line); m != nil {
		r.Depth, _ = strconv.ParseInt(m[1], 10, 64)
	}
	if strings.Contains(line, "Deadlock reached") {
		r.Deadlock = true
	}
	if strings.Contains(line, "postcondition") && strings.Contains(line, "violated") ||
		strings.Contains(line, "Postcondition") && strings.Contains(line, "violated") {
		r.PostconditionFailed = true
	}
	if strings.HasPrefix(line, "Error:") && r.Violated == "" && !r.Deadlock && !r.PostconditionFailed {
		if !strings.Contains(line, "Invariant") && !strings.Contains(line, "violated") && !strings.Contains(line, "behavior up to") {
			r.Err += line + "\n"
		}
	}
	if strings.HasSuffix(line, ": 0") && strings.HasPrefix(line, "<") {
		r.CoverageZero = append(r.CoverageZero, line)
	}
}

// ParseB extracts the JSON payload of a PrintT(<<"tag", ToJson(x)>>) line.
func ParseB(line, tag string) (string, bool) {
	pre := "<<\"" + tag + "\", "
	if !strings.HasPrefix(line, pre) || !strings.HasSuffix(line, ">>") {
		return "", false
	}
	lit := line[len(pre) : len(line)-2]
	s, err := strconv.Unquote(lit)
	if err != nil {
		return "", false
	}
	return s, true
}

// RunApalache runs `apalache-mc check` on a module of /verif/spec in a scratch directory. It returns "ok" (no error up to
// the given length), "violated" (an invariant is refuted) or an error (anything else: tool trouble, timeout).
func RunApalache(module string, timeout time.Duration, args ...string) (string, error) {
	dir, err := os.MkdirTemp("", "vapa-")
	if err != nil {
		return "", err
	}
	defer os.RemoveAll(dir)
	data, err := os.ReadFile(filepath.Join(VerifDir, "spec", module+".tla"))
	if err != nil {
		return "", err
	}
	os.WriteFile(filepath.Join(dir, module+".tla"), data, 0o644)
	ctx, cancel := context.WithTimeout(context.Background(), timeout)
	defer cancel()
	cmd := exec.CommandContext(ctx, "apalache-mc", append(append([]string{"check", "--out-dir=" + filepath.Join(dir, "out")}, args...), module+".tla")...)
	cmd.Dir = dir
	cmd.Env = append(os.Environ(), "JVM_ARGS=-Djava.io.tmpdir="+dir, "TMPDIR="+dir)
	out, _ := cmd.CombinedOutput()
	text := string(out)
	switch {
	case strings.Contains(text, "EXITCODE: OK") && strings.Contains(text, "The outcome is: NoError"):
		return "ok", nil
	case strings.Contains(text, "The outcome is: Error") && strings.Contains(text, "violated"):
		return "violated", nil
	}
	if len(text) > 600 {
		text = text[len(text)-600:]
	}
	return "", fmt.Errorf("apalache-mc %v on %s: %s", args, module, text)
}
