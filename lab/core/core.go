// Package core holds the plumbing shared by all checks: tiers and seeds, verdicts,
// evidence files, known findings.
package core

import (
	"crypto/sha256"
	"encoding/hex"
	"encoding/json"
	"fmt"
	"os"
	"path/filepath"
	"sort"
	"strconv"
	"sync"
	"time"
)

// VerifDir and RepoDir can be redirected (VERIF_DIR, VERIF_REPO) to run a check on scratch copies,
// e.g. against a seeded change; the registered commands use the defaults.
var VerifDir = envOr("VERIF_DIR", "/verif")
var RepoDir = envOr("VERIF_REPO", "/repo")

func envOr(k, d string) string {
	if v := os.Getenv(k); v != "" {
		return v
	}
	return d
}

type Run struct {
	Property string
	Tier     string // quick | thorough
	Seed     int64
	Start    time.Time

	mu         sync.Mutex
	violations []Violation
	known      map[string]bool // known-finding keys met in this run
	Cov        map[string]interface{}
	Samples    []interface{}
	Assume     []string
	Level      string

	States, Transitions int64
	Traces              int64
}

type Violation struct {
	Key    string      `json:"key"`
	What   string      `json:"what"`
	Replay interface{} `json:"replay"`
	Path   string      `json:"-"`
}

type Finding struct {
	Property string `json:"property"`
	Key      string `json:"key"`
	Status   string `json:"status"` // known | fixed
	Commit   string `json:"commit,omitempty"`
	What     string `json:"what"`
}

func NewRun(property, tier string) *Run {
	seed := int64(1)
	if s := os.Getenv("VERIF_SEED"); s != "" {
		if v, err := strconv.ParseInt(s, 10, 64); err == nil {
			seed = v
		}
	}
	if t := os.Getenv("VERIF_TIER"); t != "" && tier == "" {
		tier = t
	}
	if tier == "" {
		tier = "quick"
	}
	return &Run{Property: property, Tier: tier, Seed: seed, Start: time.Now(),
		known: map[string]bool{}, Cov: map[string]interface{}{}, Level: "model_checking"}
}

func (r *Run) Thorough() bool { return r.Tier == "thorough" }

func LoadFindings() []Finding {
	var fs []Finding
	data, err := os.ReadFile(filepath.Join(VerifDir, "known_findings.json"))
	if err != nil {
		return nil
	}
	if err := json.Unmarshal(data, &fs); err != nil {
		Fatal("known_findings.json unreadable: %v", err)
	}
	return fs
}

// Report records a contradiction between the real code and the specification.
// key identifies the failing input / call site / history class; if known_findings.json lists it
// (status known) for this property it is printed as KNOWN-FINDING and does not fail the check.
func (r *Run) Report(key, what string, replay interface{}) {
	r.ReportFor(r.Property, key, what, replay)
}

func (r *Run) ReportFor(property, key, what string, replay interface{}) {
	r.mu.Lock()
	defer r.mu.Unlock()
	for _, f := range LoadFindings() {
		if f.Property == property && f.Key == key && f.Status == "known" {
			if !r.known[property+"/"+key] {
				r.known[property+"/"+key] = true
				fmt.Printf("KNOWN-FINDING: property=%s %s (%s)\n", property, f.What, key)
			}
			return
		}
	}
	same := 0
	for _, v := range r.violations {
		if v.Key == key {
			same++
		}
	}
	if same >= 3 {
		return // enough instances of this class recorded
	}
	r.violations = append(r.violations, Violation{Key: key, What: what, Replay: replay})
}

func (r *Run) NumViolations() int {
	r.mu.Lock()
	defer r.mu.Unlock()
	return len(r.violations)
}

func (r *Run) KnownMet() []string {
	var ks []string
	for k := range r.known {
		ks = append(ks, k)
	}
	sort.Strings(ks)
	return ks
}

func (r *Run) AddSample(s interface{}) {
	r.mu.Lock()
	defer r.mu.Unlock()
	if len(r.Samples) < 6 {
		r.Samples = append(r.Samples, s)
	}
}

func (r *Run) Count(key string, n int64) {
	r.mu.Lock()
	defer r.mu.Unlock()
	cur, _ := r.Cov[key].(int64)
	r.Cov[key] = cur + n
}

func (r *Run) Set(key string, v interface{}) {
	r.mu.Lock()
	defer r.mu.Unlock()
	r.Cov[key] = v
}

// ReplayKey, when set (vcheck --replay <file>), makes Finish answer one question: does the violation recorded in the
// replay file occur again when the check is re-run with the file's seed and tier? (The checks are deterministic in seed
// and tier; the file names the behaviour, cell or scenario for a human reader.)
var ReplayKey string

// Finish writes the evidence file, prints the verdict lines and exits.
func (r *Run) Finish() {
	wall := time.Since(r.Start).Seconds()
	if ReplayKey != "" {
		for _, v := range r.violations {
			if v.Key == ReplayKey {
				fmt.Printf("violation detail: [%s] %s\n", v.Key, v.What)
				fmt.Printf("VIOLATION property=%s replay=%s\n", r.Property, os.Getenv("VERIF_REPLAY_FILE"))
				os.Exit(1)
			}
		}
		fmt.Printf("%s replay: violation [%s] does not occur on this tree (seed %d, tier %s, %.1fs)\n", r.Property, ReplayKey, r.Seed, r.Tier, wall)
		os.Exit(0)
	}
	cov := map[string]interface{}{}
	for k, v := range r.Cov {
		cov[k] = v
	}
	cov["states"] = r.States
	cov["transitions"] = r.Transitions
	cov["traces_validated_against_impl"] = r.Traces
	if len(r.Samples) == 0 {
		r.Samples = []interface{}{"(no sample recorded)"}
	}
	cov["samples"] = r.Samples
	cov["known_findings_met"] = r.KnownMet()
	ev := map[string]interface{}{
		"property_id": r.Property,
		"tier":        r.Tier,
		"seed":        r.Seed,
		"level":       r.Level,
		"coverage":    cov,
		"assumptions": r.Assume,
		"wall_s":      wall,
		"violations":  len(r.violations),
	}
	os.MkdirAll(filepath.Join(VerifDir, "evidence"), 0o755)
	data, _ := json.MarshalIndent(ev, "", " ")
	if err := os.WriteFile(filepath.Join(VerifDir, "evidence", r.Property+".json"), data, 0o644); err != nil {
		Fatal("cannot write evidence: %v", err)
	}
	if len(r.violations) > 0 {
		os.MkdirAll(filepath.Join(VerifDir, "replays"), 0o755)
		seen := map[string]bool{}
		for _, v := range r.violations {
			body, _ := json.MarshalIndent(map[string]interface{}{"property": r.Property, "key": v.Key, "what": v.What,
				"seed": r.Seed, "tier": r.Tier, "replay": v.Replay}, "", " ")
			h := sha256.Sum256(body)
			p := filepath.Join(VerifDir, "replays", r.Property+"-"+hex.EncodeToString(h[:6])+".json")
			os.WriteFile(p, body, 0o644)
			if !seen[v.Key] {
				fmt.Printf("violation detail: [%s] %s\n", v.Key, v.What)
			}
			seen[v.Key] = true
			fmt.Printf("VIOLATION property=%s replay=%s\n", r.Property, p)
		}
		fmt.Printf("%s %s: %d violation(s) in %.1fs\n", r.Property, r.Tier, len(r.violations), wall)
		os.Exit(1)
	}
	fmt.Printf("%s %s: held on everything explored (states=%d transitions=%d traces=%d) in %.1fs\n",
		r.Property, r.Tier, r.States, r.Transitions, r.Traces, wall)
	os.Exit(0)
}

// Scratch returns a directory for short-lived files (tmpfs when available).
func Scratch() string {
	if st, err := os.Stat("/dev/shm"); err == nil && st.IsDir() {
		return "/dev/shm"
	}
	return os.TempDir()
}

// Fatal is an infrastructure failure: exit 2, never a violation.
func Fatal(format string, args ...interface{}) {
	fmt.Fprintf(os.Stderr, "CHECK-BROKEN: "+format+"\n", args...)
	os.Exit(2)
}

func Must(err error) {
	if err != nil {
		Fatal("%v", err)
	}
}

func JSON(v interface{}) string {
	b, _ := json.Marshal(v)
	return string(b)
}
