package core

import (
	"bytes"
	"encoding/json"
	"fmt"
	"os"
	"os/exec"
	"regexp"
	"strings"
	"time"
)

// Child processes: a driver that may take the whole process down when the code under test panics in one of
// its own goroutines (the node's pillar worker re-panics after logging) runs in a child, so that the crash is
// a verdict about the code and not the end of the check.

var children = map[string]func(arg json.RawMessage) (interface{}, error){}

func RegisterChild(name string, fn func(arg json.RawMessage) (interface{}, error)) { children[name] = fn }

// MaybeRunChild is called first thing in main.
func MaybeRunChild() {
	name := os.Getenv("VERIF_GCHILD")
	if name == "" {
		return
	}
	fn, ok := children[name]
	if !ok {
		fmt.Fprintln(os.Stderr, "CHILD-BROKEN: unknown child", name)
		os.Exit(3)
	}
	arg, err := os.ReadFile(os.Getenv("VERIF_GCHILD_ARG"))
	if err != nil {
		fmt.Fprintln(os.Stderr, "CHILD-BROKEN:", err)
		os.Exit(3)
	}
	out, err := fn(arg)
	if err != nil {
		fmt.Fprintln(os.Stderr, "CHILD-BROKEN:", err)
		os.Exit(3)
	}
	js, _ := json.Marshal(out)
	if err := os.WriteFile(os.Getenv("VERIF_GCHILD_OUT"), js, 0o644); err != nil {
		fmt.Fprintln(os.Stderr, "CHILD-BROKEN:", err)
		os.Exit(3)
	}
	os.Exit(0)
}

type Crash struct {
	Message string   // the panic / fatal error line
	Frames  []string // function names of the crashing goroutine, innermost first
	InRepo  bool     // the innermost non-runtime frame belongs to the code under test
	Text    string   // tail of stderr
}

func (c *Crash) Key() string {
	f := "?"
	for _, fr := range c.Frames {
		if strings.Contains(fr, "go-zenon/") && !strings.Contains(fr, "common.RecoverStack") && !strings.Contains(fr, "common.DealWithErr") {
			f = fr[strings.LastIndex(fr, "/")+1:]
			break
		}
	}
	return "process-crash-in-" + regexp.MustCompile(`[^A-Za-z0-9_.]+`).ReplaceAllString(f, "_")
}

func (c *Crash) String() string {
	n := len(c.Frames)
	if n > 6 {
		n = 6
	}
	return fmt.Sprintf("%s [%s]", c.Message, strings.Join(c.Frames[:n], " <- "))
}

func parseCrash(stderr string) *Crash {
	i := strings.Index(stderr, "\npanic: ")
	if strings.HasPrefix(stderr, "panic: ") {
		i = 0
	}
	if i < 0 {
		i = strings.Index(stderr, "fatal error: ")
	}
	if i < 0 {
		return nil
	}
	rest := strings.TrimLeft(stderr[i:], "\n")
	lines := strings.Split(rest, "\n")
	c := &Crash{Message: lines[0], Text: tailStr(stderr, 3000)}
	// the first goroutine listed after the panic line is the crashing one
	in := false
	for _, l := range lines[1:] {
		if strings.HasPrefix(l, "goroutine ") {
			if in {
				break
			}
			in = true
			continue
		}
		if !in || strings.HasPrefix(l, "\t") || strings.HasPrefix(l, " ") {
			continue
		}
		if strings.HasPrefix(l, "created by ") || strings.HasPrefix(l, "[") || strings.TrimSpace(l) == "" {
			continue
		}
		if k := strings.LastIndex(l, "("); k > 0 {
			c.Frames = append(c.Frames, l[:k])
		}
	}
	for _, f := range c.Frames {
		if strings.HasPrefix(f, "runtime.") || strings.HasPrefix(f, "panic") || strings.HasPrefix(f, "runtime/") {
			continue
		}
		if strings.Contains(f, "go-zenon/common.RecoverStack") || strings.Contains(f, "go-zenon/common.DealWithErr") {
			continue
		}
		c.InRepo = strings.Contains(f, "github.com/zenon-network/go-zenon/") || strings.HasPrefix(f, "math/big.") || strings.HasPrefix(f, "github.com/syndtr/") || strings.HasPrefix(f, "github.com/ethereum/")
		if strings.HasPrefix(f, "math/big.") || strings.HasPrefix(f, "encoding/") || strings.HasPrefix(f, "reflect.") || strings.HasPrefix(f, "sort.") || strings.HasPrefix(f, "bytes.") {
			// a library frame: who called it decides
			continue
		}
		c.InRepo = strings.Contains(f, "github.com/zenon-network/go-zenon/")
		break
	}
	return c
}

func tailStr(s string, n int) string {
	if len(s) > n {
		return s[len(s)-n:]
	}
	return s
}

// Child runs the registered child `name` with arg in a fresh process. Exactly one of (out filled, crash) results
// unless err is set (driver trouble: the caller should Fatal).
func Child(name string, arg interface{}, out interface{}, timeout time.Duration) (*Crash, error) {
	dir, err := os.MkdirTemp(Scratch(), "child-")
	if err != nil {
		return nil, err
	}
	defer os.RemoveAll(dir)
	js, _ := json.Marshal(arg)
	if err := os.WriteFile(dir+"/arg.json", js, 0o644); err != nil {
		return nil, err
	}
	cmd := exec.Command(os.Args[0])
	// the child's nodes live under the child's scratch directory: a child that goes down (a verdict) leaves nothing behind
	cmd.Env = append(os.Environ(), "VERIF_GCHILD="+name, "VERIF_GCHILD_ARG="+dir+"/arg.json", "VERIF_GCHILD_OUT="+dir+"/out.json", "VERIF_NODE_BASE="+dir)
	var stderr, stdout bytes.Buffer
	cmd.Stderr = &stderr
	cmd.Stdout = &stdout
	if err := cmd.Start(); err != nil {
		return nil, err
	}
	done := make(chan error, 1)
	go func() { done <- cmd.Wait() }()
	select {
	case err = <-done:
	case <-time.After(timeout):
		cmd.Process.Kill()
		<-done
		return nil, fmt.Errorf("child %s timed out after %v", name, timeout)
	}
	if err == nil {
		b, rerr := os.ReadFile(dir + "/out.json")
		if rerr != nil {
			return nil, rerr
		}
		return nil, json.Unmarshal(b, out)
	}
	all := stderr.String() + "\n" + stdout.String()
	if strings.Contains(all, "CHILD-BROKEN:") {
		i := strings.Index(all, "CHILD-BROKEN:")
		return nil, fmt.Errorf("child %s: %s", name, tailStr(all[i:], 800))
	}
	if c := parseCrash(stderr.String()); c != nil {
		if c.InRepo {
			return c, nil
		}
		return nil, fmt.Errorf("child %s crashed outside the code under test: %s\n%s", name, c.String(), tailStr(c.Text, 1500))
	}
	return nil, fmt.Errorf("child %s: %v: %s", name, err, tailStr(all, 800))
}
