package checks

import (
	"encoding/json"
	"fmt"
	"math/rand"
	"strings"
	"sync"
	"time"

	"github.com/zenon-network/go-zenon/chain"
	"github.com/zenon-network/go-zenon/chain/nom"
	"github.com/zenon-network/go-zenon/common/db"
	"github.com/zenon-network/go-zenon/common/types"

	"verif/lab/core"
)

type poolStep struct {
	A      string   `json:"a"`
	Parent []string `json:"parent"`
	T      string   `json:"t"`
	Force  bool     `json:"force"`
	K      int      `json:"k"`
	R      string   `json:"r"`
	Conf   []string `json:"conf"`
	Pooled []string `json:"pooled"`
}
type poolBehaviour struct {
	Steps []poolStep `json:"steps"`
}

const poolCfg = `CONSTANTS
  Tags = {"a","b","c"}
  MaxH = %d
  WithHist = %s
  FixH1 = %s
INIT Init
NEXT Next
%s
CHECK_DEADLOCK FALSE
`

type labStable struct{ mgr db.Manager }

func (s *labStable) GetStableAccountDB(types.Address) db.DB { return s.mgr.Frontier() }

// how tags win: by plasma ratio, by hash at equal ratio, by hash at equal ratio with different base plasma
type poolConc struct {
	name     string
	plasma   func(tag string) (base, total uint64)
	hashRank func(tag string) byte
}

var poolConcs = []poolConc{
	{"plasma-ratio", func(t string) (uint64, uint64) {
		return 21000, map[string]uint64{"a": 63000, "b": 42000, "c": 21000}[t]
	}, func(t string) byte { return map[string]byte{"a": 0xf0, "b": 0x80, "c": 0x10}[t] }}, // hash order reversed: the ratio must decide
	{"hash-tie-break", func(t string) (uint64, uint64) { return 21000, 42000 }, func(t string) byte { return map[string]byte{"a": 0x10, "b": 0x80, "c": 0xf0}[t] }},
	{"equal-ratio-different-base", func(t string) (uint64, uint64) {
		b := map[string]uint64{"a": 21000, "b": 42000, "c": 31500}[t]
		return b, 2 * b
	}, func(t string) byte { return map[string]byte{"a": 0x10, "b": 0x80, "c": 0xf0}[t] }},
}

var poolAddr = types.ParseAddressPanic("z1qzal6c5s9rjnnxd2z7dvdhjxpmmj4fmw56a0mz")

func poolHash(conc poolConc, path []string) types.Hash {
	if len(path) == 0 {
		return types.ZeroHash
	}
	h := types.NewHash([]byte("pool:" + strings.Join(path, "/")))
	h[0] = conc.hashRank(path[len(path)-1])
	return h
}

func poolBlock(conc poolConc, path []string) *nom.AccountBlock {
	base, total := conc.plasma(path[len(path)-1])
	return &nom.AccountBlock{Version: 1, ChainIdentifier: 100, BlockType: nom.BlockTypeUserSend, Address: poolAddr,
		Height: uint64(len(path)), PreviousHash: poolHash(conc, path[:len(path)-1]), Hash: poolHash(conc, path), BasePlasma: base, TotalPlasma: total}
}

func poolReplay(run *core.Run, conc poolConc, b *poolBehaviour) {
	rep := map[string]interface{}{"kind": "pool-behaviour", "concretisation": conc.name, "behaviour": b}
	defer func() {
		if r := recover(); r != nil {
			run.Report("C14:pool-panics", fmt.Sprintf("pool operation panicked: %v", r), rep)
		}
	}()
	stable := &labStable{mgr: db.NewMemDBManager(db.NewMemDB())}
	pool := chain.NewAccountPool(stable)
	listener := pool.(chain.MomentumEventListener)
	locker := &sync.Mutex{}
	paths := map[types.Hash][]string{}
	var conf []string
	observe := func() ([]string, string) {
		blocks := pool.GetUncommittedAccountBlocksByAddress(poolAddr)
		var tags []string
		prev := poolHash(conc, conf)
		for i, blk := range blocks {
			p, ok := paths[blk.Hash]
			if !ok {
				return nil, fmt.Sprintf("pool holds an unknown block %v", blk.Hash)
			}
			if blk.PreviousHash != prev || blk.Height != uint64(len(conf)+i+1) {
				return nil, fmt.Sprintf("pooled blocks do not form one chain extending the confirmed block: position %d", i)
			}
			prev = blk.Hash
			tags = append(tags, p[len(p)-1])
		}
		return tags, ""
	}
	for si, s := range b.Steps {
		switch s.A {
		case "Add":
			path := append(append([]string{}, s.Parent...), s.T)
			blk := poolBlock(conc, path)
			paths[blk.Hash] = path
			tx := &nom.AccountBlockTransaction{Block: blk, Changes: db.NewPatch()}
			var err error
			if s.Force {
				err = pool.ForceAddAccountBlockTransaction(locker, tx)
			} else {
				err = pool.AddAccountBlockTransaction(locker, tx)
			}
			wantErr := s.R == "tooOld" || s.R == "missingPrevious" || s.R == "worse"
			if (err != nil) != wantErr {
				run.Report(fmt.Sprintf("C14:add-%s-got-err-%v", s.R, err != nil), fmt.Sprintf("[%s] step %d: offering %v (force=%v): pool answered %v, specification says %q", conc.name, si+1, path, s.Force, err, s.R), rep)
				return
			}
		case "InsertMomentum":
			blocks := pool.GetUncommittedAccountBlocksByAddress(poolAddr)
			if len(blocks) < s.K {
				run.Report("C14:pool-shorter-than-specified", fmt.Sprintf("step %d: pool holds %d blocks, specification confirms %d", si+1, len(blocks), s.K), rep)
				return
			}
			for _, blk := range blocks[:s.K] {
				patch := pool.GetPatch(poolAddr, blk.Identifier())
				if patch == nil {
					patch = db.NewPatch()
				}
				if err := stable.mgr.Add(&nom.AccountBlockTransaction{Block: blk, Changes: patch}); err != nil {
					core.Fatal("lab stable store: %v", err)
				}
				conf = append(conf, paths[blk.Hash][len(paths[blk.Hash])-1])
			}
			listener.InsertMomentum(&nom.DetailedMomentum{Momentum: &nom.Momentum{Height: uint64(si + 2)}, AccountBlocks: blocks[:s.K]})
		case "DeleteMomentum":
			var popped []*nom.AccountBlock
			for i := 0; i < s.K; i++ {
				if err := stable.mgr.Pop(); err != nil {
					core.Fatal("lab stable store pop: %v", err)
				}
				conf = conf[:len(conf)-1]
			}
			listener.DeleteMomentum(&nom.DetailedMomentum{Momentum: &nom.Momentum{Height: uint64(si + 2)}, AccountBlocks: popped})
		}
		got, problem := observe()
		if problem != "" {
			run.Report("C14:not-a-single-chain", fmt.Sprintf("[%s] step %d (%s): %s", conc.name, si+1, s.A, problem), rep)
			return
		}
		if strings.Join(got, "") != strings.Join(s.Pooled, "") {
			run.Report(fmt.Sprintf("C14:pool-content-after-%s-%s", s.A, s.R), fmt.Sprintf("[%s] step %d (%s %v%s): pool holds %v, specification says %v (confirmed %v)", conc.name, si+1, s.A, s.Parent, s.T, got, s.Pooled, s.Conf), rep)
			return
		}
	}
}

// content selection: never more than the limit, never a split contract batch, per-account prefix
func poolSelection(run *core.Run) {
	r := rand.New(rand.NewSource(run.Seed))
	trials := 300
	if run.Thorough() {
		trials = 3000
	}
	for tr := 0; tr < trials; tr++ {
		stable := &labStable{mgr: db.NewMemDBManager(db.NewMemDB())}
		pool := chain.NewAccountPool(stable)
		locker := &sync.Mutex{}
		naccounts := 1 + r.Intn(6)
		total := 0
		expectBatches := map[types.Hash]int{} // receive hash -> size of its batch
		for a := 0; a < naccounts; a++ {
			var addr types.Address
			addr[0] = 0
			addr[1] = byte(a + 1)
			contract := r.Intn(2) == 0
			if contract {
				addr[0] = 1 // embedded prefix
			}
			prev := types.ZeroHash
			h := uint64(0)
			nblocks := r.Intn(60)
			for i := 0; i < nblocks; i++ {
				if contract {
					// a batch: k contract sends followed by the receive; added as ONE transaction
					k := r.Intn(5)
					var desc []*nom.AccountBlock
					for j := 0; j < k; j++ {
						h++
						d := &nom.AccountBlock{BlockType: nom.BlockTypeContractSend, Address: addr, Height: h, PreviousHash: prev, Hash: types.NewHash([]byte(fmt.Sprintf("d%d-%d-%d-%d", tr, a, i, j)))}
						prev = d.Hash
						desc = append(desc, d)
					}
					h++
					rb := &nom.AccountBlock{BlockType: nom.BlockTypeContractReceive, Address: addr, Height: h, PreviousHash: prev, Hash: types.NewHash([]byte(fmt.Sprintf("r%d-%d-%d", tr, a, i))), DescendantBlocks: desc}
					prev = rb.Hash
					if err := pool.AddAccountBlockTransaction(locker, &nom.AccountBlockTransaction{Block: rb, Changes: db.NewPatch()}); err != nil {
						core.Fatal("selection scenario: %v", err)
					}
					expectBatches[rb.Hash] = k + 1
					total += k + 1
				} else {
					h++
					ub := &nom.AccountBlock{BlockType: nom.BlockTypeUserSend, Address: addr, Height: h, PreviousHash: prev, Hash: types.NewHash([]byte(fmt.Sprintf("u%d-%d-%d", tr, a, i)))}
					prev = ub.Hash
					if err := pool.AddAccountBlockTransaction(locker, &nom.AccountBlockTransaction{Block: ub, Changes: db.NewPatch()}); err != nil {
						core.Fatal("selection scenario: %v", err)
					}
					total++
				}
			}
		}
		content := pool.GetNewMomentumContent()
		rep := map[string]interface{}{"kind": "pool-selection", "seed": run.Seed, "trial": tr}
		if len(content) > chain.MaxAccountBlocksInMomentum {
			run.Report("C14:selection-exceeds-limit", fmt.Sprintf("content offered for production has %d blocks (limit %d)", len(content), chain.MaxAccountBlocksInMomentum), rep)
		}
		// no split batch: every contract send in the content is followed (within the content) by the rest of its batch up to the receive
		open := 0
		next := map[types.Address]uint64{}
		for _, blk := range content {
			if n, ok := next[blk.Address]; ok && blk.Height != n {
				run.Report("C14:selection-not-a-prefix", fmt.Sprintf("account %v: content jumps to height %d, expected %d", blk.Address, blk.Height, n), rep)
			}
			next[blk.Address] = blk.Height + 1
			if blk.BlockType == nom.BlockTypeContractSend {
				open++
			} else {
				open = 0
			}
		}
		if open != 0 {
			run.Report("C14:selection-splits-batch", fmt.Sprintf("content ends inside a contract batch (%d contract sends without their receive)", open), rep)
		}
		if total <= chain.MaxAccountBlocksInMomentum && len(content) != total {
			run.Report("C14:selection-drops-blocks", fmt.Sprintf("pool holds %d blocks (under the limit) but only %d are offered", total, len(content)), rep)
		}
		run.Count("selection_trials", 1)
	}
}

// C14 — unconfirmed pool: one consistent chain per account, safe under concurrency.
func C14(run *core.Run) {
	run.Assume = []string{
		"the pool does not verify blocks: behaviours are replayed directly on chain.NewAccountPool with synthetic blocks, three concretisations of how a tag wins (plasma ratio; hash at equal ratio; equal ratio with different base plasma)",
		"reader/writer concurrency and the producer/sync race are exercised by a -race stress run on a real node (schedules not enumerated by TLC; see DESIGN)",
	}
	maxH := 3
	res, err := core.RunTLC(core.TLCOpts{Module: "Pool", CfgText: fmt.Sprintf(poolCfg, maxH, "FALSE", "TRUE", "INVARIANTS WinnerRule\nPROPERTIES ConfirmedNeverDisplaced"), Timeout: 10 * time.Minute})
	if err != nil || res.Violated != "" || res.Err != "" {
		core.Fatal("Pool: %v %s %s", err, res.Violated, res.Err)
	}
	run.States += res.Distinct
	run.Transitions += res.Generated
	nc, err := core.RunTLC(core.TLCOpts{Module: "Pool", CfgText: fmt.Sprintf(poolCfg, maxH, "FALSE", "FALSE", "INVARIANTS WinnerRule"), Timeout: 5 * time.Minute})
	if err != nil || nc.Violated != "WinnerRule" {
		core.Fatal("negative control (height-1 competitors never compared, F15) not refuted")
	}
	run.Set("negative_controls", []string{"height-1 block: 'missing previous' (code as found, F15) -> TLC refutes WinnerRule"})
	var n int64
	results := map[string]int64{}
	_, err = core.RunTLC(core.TLCOpts{Module: "Pool", CfgText: fmt.Sprintf(poolCfg, maxH, "TRUE", "TRUE", "VIEW GenView\nACTION_CONSTRAINT EmitEdge"), Workers: 1, Timeout: 20 * time.Minute,
		OnLine: func(line string) {
			js, ok := core.ParseB(line, "B")
			if !ok {
				return
			}
			var b poolBehaviour
			if json.Unmarshal([]byte(js), &b) != nil {
				core.Fatal("bad pool behaviour")
			}
			n++
			last := b.Steps[len(b.Steps)-1]
			results[last.A+"/"+last.R]++
			for _, c := range poolConcs {
				poolReplay(run, c, &b)
			}
			if n == 500 {
				run.AddSample(map[string]interface{}{"pool_behaviour": b.Steps})
			}
		}})
	if err != nil {
		core.Fatal("Pool generation: %v", err)
	}
	run.Traces += n * int64(len(poolConcs))
	run.Set("pool_edge_cover", fmt.Sprintf("%d behaviours (one per transition of the abstract graph), each replayed under %d concretisations", n, len(poolConcs)))
	run.Set("pool_last_step_results", results)
	run.Set("exhaustive", true)
	for _, k := range []string{"Add/fastforward", "Add/already", "Add/tooOld", "Add/missingPrevious", "Add/worse", "Add/replaced", "InsertMomentum/confirmed", "DeleteMomentum/deleted"} {
		if results[k] == 0 {
			core.Fatal("vacuity: no behaviour ends with %s", k)
		}
	}
	poolSelection(run)
	c14Race(run)
	run.Finish()
}
