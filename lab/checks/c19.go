package checks

import (
	"bytes"
	"encoding/json"
	"fmt"
	"os"
	"path/filepath"
	"strings"
	"time"

	"github.com/zenon-network/go-zenon/common/types"
	"github.com/zenon-network/go-zenon/wallet"

	"verif/lab/core"
)

const walletCfg = `CONSTANTS
  Entropies = {"e1", "e2"}
  Passwords = {"p1", "p2", "p3"}
  WithHist = %s
INIT Init
NEXT Next
%s
CHECK_DEADLOCK FALSE
`

type walletStep struct {
	A  string `json:"a"`
	E  string `json:"e"`
	Pw string `json:"pw"`
	F  string `json:"f"`
	R  string `json:"r"`
}
type walletBehaviour struct {
	Steps []walletStep `json:"steps"`
}

// concretisations of the abstract passwords: each set has the right password p1 and two others; the others include near misses
var walletPwSets = [][3]string{
	{"correct horse", "correct horsf", ""},
	{"", " ", "x"},
	{"pässwörd-Ünicode-密码", "pässwörd-Ünicode-密码 ", "passwörd-Ünicode-密码"},
	{strings.Repeat("long-password-", 20) + "A", strings.Repeat("long-password-", 20) + "B", strings.Repeat("long-password-", 20)},
	{strings.Repeat("€uro", 70) + "1", strings.Repeat("€uro", 70) + "2", strings.Repeat("€uro", 70) + "12"},
}

func walletEntropy(name string, size int) []byte {
	b := make([]byte, size)
	for i := range b {
		b[i] = byte(i*7 + len(name) + int(name[1]))
	}
	return b
}

func flipFileBit(kf *wallet.KeyFile, field string, bit int) *wallet.KeyFile {
	data, _ := json.Marshal(kf)
	var c wallet.KeyFile
	json.Unmarshal(data, &c)
	c.Path = kf.Path
	var target *[]byte
	switch field {
	case "cipher":
		t := []byte(c.Crypto.CipherData)
		target = &t
		defer func() { c.Crypto.CipherData = *target }()
	case "nonce":
		t := []byte(c.Crypto.AesNonce)
		target = &t
		defer func() { c.Crypto.AesNonce = *target }()
	case "salt":
		t := []byte(c.Crypto.Argon2Params.Salt)
		target = &t
		defer func() { c.Crypto.Argon2Params.Salt = *target }()
	}
	b := append([]byte{}, (*target)...)
	b[(bit/8)%len(b)] ^= 1 << uint(bit%8)
	*target = b
	return &c
}

func fieldBits(kf *wallet.KeyFile, field string) int {
	switch field {
	case "cipher":
		return len(kf.Crypto.CipherData) * 8
	case "nonce":
		return len(kf.Crypto.AesNonce) * 8
	}
	return len(kf.Crypto.Argon2Params.Salt) * 8
}

// C19 — wallet key files: exact round-trip, tamper-evident, deterministic derivation.
func C19(run *core.Run) {
	run.Assume = []string{
		"AES-GCM, argon2id and ed25519 are assumed ideal in the specification; the replay observes the real primitives on the enumerated cases only",
		"every single-bit corruption of cipher text, nonce and salt of one key file is tried; other files get a seeded sample of bits",
	}
	res, err := core.RunTLC(core.TLCOpts{Module: "Wallet", CfgText: fmt.Sprintf(walletCfg, "FALSE", "INVARIANTS ExactRoundTrip"), Timeout: 5 * time.Minute})
	if err != nil || res.Violated != "" || res.Err != "" {
		core.Fatal("Wallet: %v %s %s", err, res.Violated, res.Err)
	}
	run.States += res.Distinct
	run.Transitions += res.Generated
	var behaviours []*walletBehaviour
	_, err = core.RunTLC(core.TLCOpts{Module: "Wallet", CfgText: fmt.Sprintf(walletCfg, "TRUE", "VIEW GenView\nACTION_CONSTRAINT EmitEdge"), Workers: 1, Timeout: 5 * time.Minute,
		OnLine: func(line string) {
			if js, ok := core.ParseB(line, "B"); ok {
				var b walletBehaviour
				if json.Unmarshal([]byte(js), &b) == nil {
					behaviours = append(behaviours, &b)
				}
			}
		}})
	if err != nil {
		core.Fatal("Wallet generation: %v", err)
	}
	dir, err := os.MkdirTemp(core.Scratch(), "wallet-")
	if err != nil {
		core.Fatal("%v", err)
	}
	defer os.RemoveAll(dir)
	sizes := []int{16, 32}
	decrypts := 0
	for bi, b := range behaviours {
		if b.Steps[len(b.Steps)-1].A != "Decrypt" {
			continue
		}
		set := walletPwSets[(bi+int(run.Seed))%len(walletPwSets)]
		pw := map[string]string{"p1": set[0], "p2": set[1], "p3": set[2]}
		size := sizes[bi%len(sizes)]
		var kf, pristine *wallet.KeyFile
		createdFrom, createdPw := "", ""
		rep := map[string]interface{}{"kind": "wallet-behaviour", "behaviour": b, "password_set": set[:]}
		for si, s := range b.Steps {
			switch s.A {
			case "Create":
				ks := &wallet.KeyStore{Entropy: walletEntropy(s.E, size)}
				tmp, err := ks.Encrypt(pw[s.Pw])
				if err != nil {
					core.Fatal("encrypt: %v", err)
				}
				// a proper key store (base address set) comes from decrypting once
				full, err := tmp.Decrypt(pw[s.Pw])
				if err != nil {
					run.Report("C19:fresh-file-does-not-decrypt", fmt.Sprintf("a key file does not decrypt with the password it was created with: %v", err), rep)
					goto next
				}
				kf, err = full.Encrypt(pw[s.Pw])
				if err != nil {
					core.Fatal("encrypt: %v", err)
				}
				kf.Path = filepath.Join(dir, fmt.Sprintf("kf-%d-%d", bi, si))
				if err := kf.Write(); err != nil {
					core.Fatal("write: %v", err)
				}
				if kf, err = wallet.ReadKeyFile(kf.Path); err != nil {
					run.Report("C19:written-file-unreadable", fmt.Sprintf("ReadKeyFile after Write: %v", err), rep)
					goto next
				}
				pristine = kf
				createdFrom, createdPw = s.E, pw[s.Pw]
				_, k0, err := full.DeriveForIndexPath(0)
				if err != nil || k0.Address != kf.BaseAddress {
					run.Report("C19:base-address-is-not-index-0", fmt.Sprintf("recorded base address %v, index-0 address %v (%v)", kf.BaseAddress, k0, err), rep)
				}
			case "Tamper":
				bit := (bi*131 + si*17 + int(run.Seed)*7) % fieldBits(kf, s.F)
				kf = flipFileBit(kf, s.F, bit)
			case "Restore":
				kf = pristine
			case "Decrypt":
				ks, err := kf.Decrypt(pw[s.Pw])
				decrypts++
				if s.R == "fail" {
					if err == nil {
						run.Report("C19:decrypts-although-it-must-fail", fmt.Sprintf("step %d: Decrypt succeeded with password %q on a file created with %q (tampering: see behaviour)", si+1, pw[s.Pw], set[0]), rep)
						goto next
					}
				} else {
					if err != nil {
						run.Report("C19:does-not-decrypt", fmt.Sprintf("step %d: Decrypt failed: %v", si+1, err), rep)
						goto next
					}
					if !bytes.Equal(ks.Entropy, walletEntropy(s.R, size)) {
						run.Report("C19:wrong-entropy", fmt.Sprintf("step %d: decrypted entropy differs from the entropy the file was created from", si+1), rep)
						goto next
					}
				}
			}
		}
		// epilogue: the loaded file has been through the behaviour's decryptions (right and wrong passwords); it must still
		// decrypt to the entropy it was created from, twice, and rewriting it must not change what is on disk
		if pristine != nil && createdFrom != "" {
			for k := 0; k < 2; k++ {
				ks, err := pristine.Decrypt(createdPw)
				decrypts++
				if err != nil || !bytes.Equal(ks.Entropy, walletEntropy(createdFrom, size)) {
					run.Report("C19:loaded-file-stops-decrypting", fmt.Sprintf("after the behaviour's decryptions the same loaded key file no longer decrypts to its entropy with the right password (attempt %d: %v)", k+1, err), rep)
					goto next
				}
			}
			before, _ := os.ReadFile(pristine.Path)
			if err := pristine.Write(); err != nil {
				core.Fatal("write: %v", err)
			}
			after, _ := os.ReadFile(pristine.Path)
			if !bytes.Equal(before, after) {
				run.Report("C19:rewritten-file-differs", "writing a loaded key file again after it was decrypted changes the bytes on disk", rep)
				goto next
			}
			if re, err := wallet.ReadKeyFile(pristine.Path); err != nil {
				run.Report("C19:written-file-unreadable", fmt.Sprintf("ReadKeyFile after the second Write: %v", err), rep)
			} else if ks, err := re.Decrypt(createdPw); err != nil || !bytes.Equal(ks.Entropy, walletEntropy(createdFrom, size)) {
				run.Report("C19:rewritten-file-does-not-decrypt", fmt.Sprintf("the key file written again after a decryption no longer decrypts to its entropy (%v)", err), rep)
			}
		}
	next:
		run.Traces++
	}
	run.Set("wallet_behaviours", fmt.Sprintf("%d generated, %d decryptions replayed over %d password sets and entropy sizes %v", len(behaviours), decrypts, len(walletPwSets), sizes))
	if len(behaviours) > 3 {
		run.AddSample(map[string]interface{}{"wallet_behaviour": behaviours[len(behaviours)/2].Steps})
	}
	c19Bits(run, dir)
	c19Derivation(run)
	run.Finish()
}

// every single-bit corruption of cipher text, nonce and salt
func c19Bits(run *core.Run, dir string) {
	ks := &wallet.KeyStore{Entropy: walletEntropy("e1", 32)}
	tmp, _ := ks.Encrypt("bits")
	full, err := tmp.Decrypt("bits")
	if err != nil {
		core.Fatal("%v", err)
	}
	kf, _ := full.Encrypt("bits")
	n, rejected := 0, 0
	step := 1
	if !run.Thorough() {
		step = 3
	}
	for _, f := range []string{"cipher", "nonce", "salt"} {
		for bit := int(run.Seed) % step; bit < fieldBits(kf, f); bit += step {
			n++
			if _, err := flipFileBit(kf, f, bit).Decrypt("bits"); err == nil {
				run.Report("C19:bit-flip-accepted-"+f, fmt.Sprintf("flipping bit %d of the %s leaves the key file decryptable", bit, f), map[string]interface{}{"kind": "bit-flip", "field": f, "bit": bit})
			} else {
				rejected++
			}
		}
	}
	run.Traces += int64(n)
	run.Set("single_bit_corruptions", fmt.Sprintf("%d tried (every %d-th bit of cipher text, nonce, salt), %d rejected", n, step, rejected))
}

func c19Derivation(run *core.Run) {
	ks := &wallet.KeyStore{Entropy: walletEntropy("e2", 32)}
	tmp, _ := ks.Encrypt("d")
	full, err := tmp.Decrypt("d")
	if err != nil {
		core.Fatal("%v", err)
	}
	again, err := tmp.Decrypt("d")
	if err != nil {
		run.Report("C19:loaded-file-stops-decrypting", fmt.Sprintf("the second decryption of the same loaded key file fails: %v", err), nil)
		return
	}
	for _, idx := range []uint32{0, 1, 2, 1<<31 - 1} {
		p1, k1, err1 := full.DeriveForIndexPath(idx)
		p2, k2, err2 := again.DeriveForIndexPath(idx)
		if err1 != nil || err2 != nil || p1 != p2 || k1.Address != k2.Address || !bytes.Equal(k1.Public, k2.Public) {
			run.Report("C19:derivation-not-deterministic", fmt.Sprintf("index %d: %v %v %v %v", idx, p1, p2, err1, err2), nil)
			continue
		}
		msg := []byte(fmt.Sprintf("message %d", idx))
		sig := k1.Sign(msg)
		ok, err := wallet.VerifySignature(k1.Public, msg, sig)
		if !ok || err != nil {
			run.Report("C19:signature-does-not-verify", fmt.Sprintf("index %d: %v", idx, err), nil)
		}
		if bad, _ := wallet.VerifySignature(k1.Public, append(msg, 1), sig); bad {
			run.Report("C19:signature-verifies-for-other-message", fmt.Sprintf("index %d", idx), nil)
		}
		if bad, _ := wallet.VerifySignature(k1.Public, msg, append(append([]byte{}, sig...), 0)); bad {
			run.Report("C19:signature-with-trailing-bytes-verifies", fmt.Sprintf("index %d", idx), nil)
		}
		if types.PubKeyToAddress(k1.Public) != k1.Address {
			run.Report("C19:address-is-not-derived-from-public-key", fmt.Sprintf("index %d", idx), nil)
		}
		full1 := fmt.Sprintf(wallet.ZenonAccountPathFormat, idx) // (DeriveForIndexPath returns an empty path string: its named result is never set)
		_, viaPath, err := full.DeriveForFullPath(full1)
		if err != nil || viaPath.Address != k1.Address {
			run.Report("C19:path-and-index-disagree", fmt.Sprintf("index %d path %s: %v", idx, full1, err), nil)
		}
		run.Traces++
	}
	for _, idx := range []uint32{1 << 31, 1<<32 - 1} {
		if _, _, err := full.DeriveForIndexPath(idx); err == nil {
			run.Report("C19:non-hardened-index-accepted", fmt.Sprintf("index %d derives a key", idx), nil)
		}
	}
	for _, path := range []string{"m/44/73404/0", "m/44'/73404'/0", "m/0", "m/44''/73404'/0'", "44'/73404'/0'", "m/44'/73404'/0'/", "m/44'/73404'/-1'", "m/44'/73404'/4294967296'", "", "m", "m/44'/73404'/0'x"} {
		if _, k, err := full.DeriveForFullPath(path); err == nil {
			run.Report("C19:malformed-or-non-hardened-path-accepted", fmt.Sprintf("path %q derives %v", path, k.Address), map[string]interface{}{"kind": "path", "path": path})
		}
		run.Traces++
	}
}
