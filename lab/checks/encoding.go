package checks

import (
	"bytes"
	"fmt"
	"math/big"
	"reflect"

	"github.com/zenon-network/go-zenon/chain/nom"
	"github.com/zenon-network/go-zenon/common/types"
	"github.com/zenon-network/go-zenon/vm/abi"

	"verif/lab/core"
	"verif/lab/node"
	"verif/lab/walk"
)

// C13, last clause: the call data of embedded-contract calls is stored in a single canonical encoding.
//
// canonEncode is the lab's own encoder of the contract ABI (head/tail encoding, 32-byte words): the oracle for
// "canonical". It is checked against the code's encoder on the canonical inputs first. encodingVariants derives, from
// the canonical encoding of a call and the types of its parameters, every other byte string a lenient decoder could
// read as the same call: dirty padding per static parameter, out-of-range bools and small integers, dirty right padding
// and shifted offsets of dynamic parameters, trailing bytes. Each variant is hashed and signed by the account's owner (it
// is a different block; what must not happen is that it is accepted and stored as it is).

func word(b []byte) []byte { // left-pad to 32
	out := make([]byte, 32)
	copy(out[32-len(b):], b)
	return out
}

func encodeStatic(t string, v interface{}) ([]byte, bool) {
	switch t {
	case "uint256":
		return word(v.(*big.Int).Bytes()), true
	case "uint8":
		return word([]byte{v.(uint8)}), true
	case "uint16":
		return word(big.NewInt(int64(v.(uint16))).Bytes()), true
	case "uint32":
		return word(new(big.Int).SetUint64(uint64(v.(uint32))).Bytes()), true
	case "uint64":
		return word(new(big.Int).SetUint64(v.(uint64)).Bytes()), true
	case "int64":
		x := v.(int64)
		if x >= 0 {
			return word(big.NewInt(x).Bytes()), true
		}
		tw := new(big.Int).Add(new(big.Int).Lsh(big.NewInt(1), 256), big.NewInt(x))
		return word(tw.Bytes()), true
	case "bool":
		if v.(bool) {
			return word([]byte{1}), true
		}
		return word(nil), true
	case "address":
		a := v.(types.Address)
		return word(a.Bytes()), true
	case "tokenStandard":
		z := v.(types.ZenonTokenStandard)
		return word(z.Bytes()), true
	case "hash":
		h := v.(types.Hash)
		return word(h.Bytes()), true
	}
	return nil, false
}

func padRight(b []byte) []byte {
	n := (len(b) + 31) / 32 * 32
	out := make([]byte, n)
	copy(out, b)
	return out
}

func encodeDynamic(t string, v interface{}) ([]byte, bool) {
	lenWord := func(n int) []byte { return word(big.NewInt(int64(n)).Bytes()) }
	switch t {
	case "string":
		s := []byte(v.(string))
		return append(lenWord(len(s)), padRight(s)...), true
	case "bytes":
		s := v.([]byte)
		return append(lenWord(len(s)), padRight(s)...), true
	}
	if len(t) > 2 && t[len(t)-2:] == "[]" {
		et := t[:len(t)-2]
		rv := reflect.ValueOf(v)
		out := lenWord(rv.Len())
		if et == "string" || et == "bytes" {
			var heads, tails []byte
			base := 32 * rv.Len()
			for i := 0; i < rv.Len(); i++ {
				e, ok := encodeDynamic(et, rv.Index(i).Interface())
				if !ok {
					return nil, false
				}
				heads = append(heads, word(big.NewInt(int64(base+len(tails))).Bytes())...)
				tails = append(tails, e...)
			}
			return append(append(out, heads...), tails...), true
		}
		for i := 0; i < rv.Len(); i++ {
			e, ok := encodeStatic(et, rv.Index(i).Interface())
			if !ok {
				return nil, false
			}
			out = append(out, e...)
		}
		return out, true
	}
	return nil, false
}

func isDynamicType(t string) bool {
	return t == "string" || t == "bytes" || (len(t) > 2 && t[len(t)-2:] == "[]")
}

// canonEncode: the arguments part (without the 4-byte selector).
func canonEncode(inputs abi.Arguments, values []interface{}) ([]byte, error) {
	if len(inputs) != len(values) {
		return nil, fmt.Errorf("%d values for %d parameters", len(values), len(inputs))
	}
	var head, tail []byte
	headLen := 32 * len(inputs)
	for i, in := range inputs {
		t := in.Type.String()
		if isDynamicType(t) {
			e, ok := encodeDynamic(t, values[i])
			if !ok {
				return nil, fmt.Errorf("no encoder for %s", t)
			}
			head = append(head, word(big.NewInt(int64(headLen+len(tail))).Bytes())...)
			tail = append(tail, e...)
		} else {
			e, ok := encodeStatic(t, values[i])
			if !ok {
				return nil, fmt.Errorf("no encoder for %s", t)
			}
			head = append(head, e...)
		}
	}
	return append(head, tail...), nil
}

type encVariant struct {
	name string
	data []byte // arguments part
}

// encodingVariants: non-canonical byte strings for the same arguments.
func encodingVariants(inputs abi.Arguments, canon []byte) []encVariant {
	var out []encVariant
	cp := func() []byte { return append([]byte{}, canon...) }
	headLen := 32 * len(inputs)
	for i, in := range inputs {
		t := in.Type.String()
		at := 32 * i
		if at+32 > len(canon) {
			break
		}
		switch {
		case isDynamicType(t):
			off := int(new(big.Int).SetBytes(canon[at : at+32]).Int64())
			if off+32 > len(canon) {
				continue
			}
			n := int(new(big.Int).SetBytes(canon[off : off+32]).Int64())
			if (t == "string" || t == "bytes") && n%32 != 0 && off+32+((n+31)/32*32) <= len(canon) {
				d := cp()
				d[off+32+((n+31)/32*32)-1] = 0x5a
				out = append(out, encVariant{fmt.Sprintf("param %d (%s): non-zero right padding", i+1, t), d})
			}
			// the tail moved 32 bytes further (a gap), offset adjusted: same values for a decoder that follows offsets
			if off >= headLen {
				d := append(append(append([]byte{}, canon[:off]...), make([]byte, 32)...), canon[off:]...)
				for j, jn := range inputs {
					if !isDynamicType(jn.Type.String()) {
						continue
					}
					o := new(big.Int).SetBytes(d[32*j : 32*j+32]).Int64()
					if int(o) >= off {
						copy(d[32*j:32*j+32], word(big.NewInt(o+32).Bytes()))
					}
				}
				out = append(out, encVariant{fmt.Sprintf("param %d (%s): tail shifted by one word", i+1, t), d})
			}
		case t == "bool":
			d := cp()
			d[at+31] = 2
			out = append(out, encVariant{fmt.Sprintf("param %d (bool): value 2", i+1), d})
			d = cp()
			d[at] = 1
			out = append(out, encVariant{fmt.Sprintf("param %d (bool): dirty high byte", i+1), d})
		case t == "uint256" || t == "hash":
			// every byte is value
		case t == "int64":
			d := cp()
			if d[at] == 0 {
				d[at+8] = 0xff // bad sign extension of a non-negative value
			} else {
				d[at+8] = 0x00
			}
			out = append(out, encVariant{fmt.Sprintf("param %d (int64): broken sign extension", i+1), d})
		default: // uint8..uint64, address, tokenStandard: bytes above the value are padding
			d := cp()
			d[at] = 0x80
			out = append(out, encVariant{fmt.Sprintf("param %d (%s): dirty padding", i+1, t), d})
			d = cp()
			d[at+5] = 0x01
			out = append(out, encVariant{fmt.Sprintf("param %d (%s): dirty padding (inner byte)", i+1, t), d})
		}
	}
	out = append(out, encVariant{"trailing bytes", append(cp(), 0xaa, 0xbb)})
	out = append(out, encVariant{"trailing word", append(cp(), make([]byte, 32)...)})
	return out
}

// c13Encodings: every method of every embedded contract, its canonical call and the variants, offered to a node.
func c13Encodings(run *core.Run) {
	walk.LabConstants()
	p, err := node.New("encodings", node.Options{Producer: true})
	if err != nil {
		core.Fatal("%v", err)
	}
	defer p.Stop()
	f := &cellFixture{n: p, w: walk.New(p, run.Seed)}
	if err := f.prepare(); err != nil {
		core.Fatal("%v", err)
	}
	methods, variants, accepted, refused, oracleChecked, noTemplate := 0, 0, 0, 0, 0, 0
	for _, cc := range cellContracts() {
		for name, m := range cc.abi.Methods {
			methods++
			caller, tok, amt := f.defaultCall(cc, name)
			args := make([]interface{}, len(m.Inputs))
			for i, in := range m.Inputs {
				args[i] = f.defaultArg(cc, name, in, caller)
			}
			packed, err := cc.abi.PackMethod(name, args...)
			if err != nil {
				core.Fatal("packing %s.%s: %v", cc.name, name, err)
			}
			canon, err := canonEncode(m.Inputs, args)
			if err != nil {
				core.Fatal("%s.%s: %v", cc.name, name, err)
			}
			oracleChecked++
			if !bytes.Equal(packed[4:], canon) {
				run.Report("C13:encoder-output-not-canonical-"+cc.name+"."+name, fmt.Sprintf("the ABI encoder's output for %s.%s differs from the canonical head/tail encoding of the same arguments (first difference at byte %d)", cc.name, name, firstByteDiff(packed[4:], canon)),
					map[string]interface{}{"kind": "abi-encoding", "method": cc.name + "." + name, "packed": fmt.Sprintf("%x", packed), "canonical": fmt.Sprintf("%x%x", packed[:4], canon)})
				continue
			}
			for _, v := range encodingVariants(m.Inputs, canon) {
				variants++
				tpl := &nom.AccountBlock{BlockType: nom.BlockTypeUserSend, Address: caller.Address, ToAddress: cc.addr, TokenStandard: tok, Amount: amt, Data: packed}
				tx, err := p.Sup.GenerateFromTemplate(tpl, caller.Signer)
				if err != nil {
					noTemplate++ // the canonical call itself is not acceptable in this state: nothing to compare
					variants--
					break
				}
				blk := tx.Block
				blk.Data = append(append([]byte{}, packed[:4]...), v.data...)
				blk.Hash = blk.ComputeHash()
				blk.Signature = caller.Sign(blk.Hash.Bytes())
				wire, _ := node.WireBlock(blk)
				if err := p.Offer(wire); err != nil {
					refused++
					continue
				}
				accepted++
				st, err := p.Chain.GetFrontierAccountStore(caller.Address).ByHeight(blk.Height)
				rep := map[string]interface{}{"kind": "abi-encoding", "method": cc.name + "." + name, "variant": v.name, "data": fmt.Sprintf("%x", blk.Data)}
				switch {
				case err != nil || st == nil || st.Hash != blk.Hash:
					// accepted but not stored under this hash: nothing stored in a non-canonical encoding
				case !bytes.Equal(st.Data[4:], canon):
					run.Report("C13:call-data-stored-non-canonical", fmt.Sprintf("%s.%s with %s is accepted and stored as delivered: the same call now has two stored encodings", cc.name, name, v.name), rep)
				case st.ComputeHash() != st.Hash:
					run.Report("C13:stored-block-hash-mismatch", fmt.Sprintf("%s.%s with %s is stored in the canonical encoding under the hash of the delivered bytes", cc.name, name, v.name), rep)
				}
				if err := p.Produce(0); err != nil {
					core.Fatal("%v", err)
				}
			}
		}
	}
	run.Traces += int64(variants)
	run.Set("abi_encoding_variants", fmt.Sprintf("%d methods (encoder output compared with the lab's canonical encoder for %d), %d non-canonical encodings offered: %d refused, %d accepted; %d methods whose canonical call is refused at send time in the prepared state", methods, oracleChecked, variants, refused, accepted, noTemplate))
	if variants < 100 {
		core.Fatal("vacuity: only %d encoding variants", variants)
	}
}

func firstByteDiff(a, b []byte) int {
	for i := 0; i < len(a) && i < len(b); i++ {
		if a[i] != b[i] {
			return i
		}
	}
	if len(a) != len(b) {
		if len(a) < len(b) {
			return len(a)
		}
		return len(b)
	}
	return -1
}
