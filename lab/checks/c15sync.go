package checks

import (
	"crypto/ecdsa"
	"encoding/json"
	"fmt"
	"github.com/inconshreveable/log15"
	"github.com/zenon-network/go-zenon/common"
	"math/rand"
	"os"
	"strings"
	"sync"
	"time"

	"github.com/ethereum/go-ethereum/rlp"
	"github.com/zenon-network/go-zenon/chain/nom"
	"github.com/zenon-network/go-zenon/common/types"
	"github.com/zenon-network/go-zenon/p2p"
	"github.com/zenon-network/go-zenon/p2p/discover"
	"github.com/zenon-network/go-zenon/protocol"

	"verif/lab/core"
	"verif/lab/node"
	"verif/lab/walk"
)

// SyncSession.tla replayed: the node synchronises with a lab remote that announces a longer (real, valid) chain and answers
// the node's requests as the behaviour says.

type syncSessStep struct {
	Stage  string `json:"stage"`
	Answer string `json:"answer"`
}
type syncSessBehaviour struct {
	Steps []syncSessStep `json:"steps"`
}

func (b syncSessBehaviour) key() string { js, _ := json.Marshal(b.Steps); return string(js) }

type syncSessArg struct {
	Behaviours []syncSessBehaviour
	Seed       int64
	Progress   string
}
type syncSessResult struct {
	Mismatches [][2]string
	Outcomes   map[string]int
	Done       int
}

func init() {
	core.RegisterChild("sync-session", func(arg json.RawMessage) (interface{}, error) {
		var a syncSessArg
		if err := json.Unmarshal(arg, &a); err != nil {
			return nil, err
		}
		node.Quiet()
		return syncSessChild(a)
	})
}

type syncRemote struct {
	c      *wireClient
	src    *node.Node // the chain the remote serves
	plan   map[string]string
	mu     sync.Mutex
	counts map[string]int
	r      *rand.Rand
	onMis  func(answer string) // called when the remote misbehaves (to let a second remote act)
	extra  map[types.Hash]*nom.DetailedMomentum // momentums the remote serves under these hashes besides its chain
}

func (sr *syncRemote) send(code uint64, v interface{}) {
	data, err := rlp.EncodeToBytes(v)
	if err != nil {
		return
	}
	sr.sendRaw(code, data)
}
func (sr *syncRemote) sendRaw(code uint64, data []byte) {
	done := make(chan struct{})
	go func() {
		sr.c.sendRaw(16+code, data)
		close(done)
	}()
	select {
	case <-done:
	case <-time.After(10 * time.Second):
	}
}

func (sr *syncRemote) hashesFromNumber(number, amount uint64) []types.Hash {
	if amount > 512 {
		amount = 512
	}
	var out []types.Hash
	top := sr.src.Height()
	for h := number; h < number+amount && h <= top; h++ {
		if h == 0 {
			continue
		}
		out = append(out, sr.src.MomentumAt(h).Hash)
	}
	return out
}

func (sr *syncRemote) garbage() []byte {
	b := make([]byte, 1+sr.r.Intn(80))
	sr.r.Read(b)
	return b
}

func (sr *syncRemote) stage(kind string) (string, string) {
	sr.mu.Lock()
	defer sr.mu.Unlock()
	sr.counts[kind]++
	st := fmt.Sprintf("%s-%d", kind, sr.counts[kind])
	a, ok := sr.plan[st]
	if !ok {
		a = "correct"
	}
	return st, a
}

// handle answers one request of the node (message codes are the sub-protocol's own, without the offset).
func (sr *syncRemote) handle(msg p2p.Msg) {
	switch msg.Code - 16 {
	case 8: // GetBlockHashesFromNumber
		var req getHashesFromNumber
		msg.Decode(&req)
		kind := "hashes"
		if req.Amount == 1 {
			kind = "search" // the binary search of the ancestor lookup asks for one hash at a time
		}
		_, a := sr.stage(kind)
		good := sr.hashesFromNumber(req.Number, req.Amount)
		if a != "correct" && sr.onMis != nil {
			sr.onMis(a)
		}
		switch a {
		case "correct":
			sr.send(4, good)
		case "empty":
			sr.send(4, []types.Hash{})
		case "garbage":
			sr.sendRaw(4, sr.garbage())
		case "unknown-hashes":
			var hs []types.Hash
			for i := 0; i < 5; i++ {
				hs = append(hs, types.NewHash([]byte(fmt.Sprint("no such momentum", i, sr.r.Int()))))
			}
			sr.send(4, hs)
		case "too-many":
			hs := append([]types.Hash{}, good...)
			for len(hs) < 700 {
				hs = append(hs, types.NewHash([]byte(fmt.Sprint("filler", len(hs)))))
			}
			sr.send(4, hs)
		case "reversed":
			hs := append([]types.Hash{}, good...)
			for i, j := 0, len(hs)-1; i < j; i, j = i+1, j-1 {
				hs[i], hs[j] = hs[j], hs[i]
			}
			sr.send(4, hs)
		default: // silent...
		}
	case 3: // GetBlockHashes (backwards from a hash)
		var req getHashes
		msg.Decode(&req)
		hs, _ := sr.src.Bridge.GetBlockHashesFromHash(req.Hash, req.Amount)
		sr.send(4, hs)
	case 5: // GetBlocks
		var hashes []types.Hash
		msg.Decode(&hashes)
		_, a := sr.stage("blocks")
		var good []*nom.DetailedMomentum
		for _, h := range hashes {
			if dm := sr.src.Bridge.GetBlock(h); dm != nil {
				w, _ := node.Wire(dm)
				good = append(good, w)
			} else if sr.extra != nil && sr.extra[h] != nil {
				good = append(good, sr.extra[h])
			}
		}
		if a != "correct" && sr.onMis != nil {
			sr.onMis(a)
		}
		switch a {
		case "correct":
			sr.send(6, good)
		case "empty":
			sr.send(6, []*nom.DetailedMomentum{})
		case "garbage":
			sr.sendRaw(6, sr.garbage())
		case "nil-momentum":
			sr.sendRaw(6, []byte{0xc2, 0xc1, 0xc0})
		case "unrequested":
			if dm := sr.src.Bridge.GetBlock(sr.src.MomentumAt(2).Hash); dm != nil {
				w, _ := node.Wire(dm)
				sr.send(6, []*nom.DetailedMomentum{w})
			}
		case "height-below-window", "height-above-window":
			if len(good) > 0 {
				w := good[0]
				if a == "height-below-window" {
					w.Momentum.Height = 0
				} else {
					w.Momentum.Height += 100000
				}
				sr.send(6, []*nom.DetailedMomentum{w})
			}
		case "tampered-signature":
			if len(good) > 0 {
				w := good[0]
				w.Momentum.Signature = append([]byte{}, w.Momentum.Signature...)
				w.Momentum.Signature[5] ^= 0x40 // the hash field is left as it is: the momentum still looks like the one asked for
				sr.send(6, []*nom.DetailedMomentum{w})
			}
		case "duplicated":
			if len(good) > 0 {
				sr.send(6, append([]*nom.DetailedMomentum{good[0], good[0]}, good...))
			}
		case "too-many":
			var many []*nom.DetailedMomentum
			for len(many) < 200 && len(good) > 0 {
				many = append(many, good...)
			}
			sr.send(6, many)
		default: // silent
		}
	}
}

// newSyncRemote connects over TCP/RLPx, completes the handshakes announcing `td`, and serves the node's requests.
func newSyncRemote(s *wireServer, src *node.Node, plan map[string]string, r *rand.Rand, td uint64) (*syncRemote, error) {
	return newSyncRemoteAs(s, src, plan, r, td, newKey(r))
}

func newSyncRemoteAs(s *wireServer, src *node.Node, plan map[string]string, r *rand.Rand, td uint64, key *ecdsa.PrivateKey) (*syncRemote, error) {
	c, err := s.dialAs(r, key)
	if err != nil {
		return nil, err
	}
	sr := &syncRemote{c: c, src: src, plan: plan, counts: map[string]int{}, r: r}
	c.td, c.head = td, src.Frontier().Hash
	c.answerPings = true
	requests := make(chan p2p.Msg, 256)
	c.onMsg = func(m p2p.Msg) {
		if m.Code == 16 { // the node's Status: part of the handshake
			select {
			case c.msgs <- m:
			default:
			}
			return
		}
		select {
		case requests <- m:
		default:
		}
	}
	go func() {
		for m := range requests {
			sr.handle(m)
		}
	}()
	if to, _ := s.step(c, wireStep{In: "auth-valid", At: "tcp"}); to != "enc" {
		return nil, fmt.Errorf("encryption handshake refused")
	}
	if to, _ := s.step(c, wireStep{In: "hs-valid", At: "enc"}); to != "ready" {
		return nil, fmt.Errorf("protocol handshake / status refused")
	}
	return sr, nil
}

func (sr *syncRemote) close() { sr.c.tap.Conn.Close() }

func (sr *syncRemote) ended(d time.Duration) bool { return sr.c.isClosed(d) }

func syncSessChild(a syncSessArg) (*syncSessResult, error) {
	walk.LabConstants()
	r := rand.New(rand.NewSource(a.Seed))
	res := &syncSessResult{Outcomes: map[string]int{}}
	src, err := node.New("sync-source", node.Options{Producer: true})
	if err != nil {
		return nil, err
	}
	defer src.Stop()
	if err := src.ProduceN(40); err != nil {
		return nil, err
	}
	n, err := node.New("sync-node", node.Options{})
	if err != nil {
		return nil, err
	}
	defer n.Stop()
	base, err := src.Detailed(2, src.Height())
	if err != nil {
		return nil, err
	}
	if _, err := n.InsertChain(wireAll(base)); err != nil {
		return nil, err
	}
	pm := protocol.NewProtocolManager(1, n.Chain.ChainIdentifier(), n.Bridge)
	pm.Start()
	key := newKey(r)
	srv := &p2p.Server{PrivateKey: key, MaxPeers: 200, MaxPendingPeers: 200, Name: "lab-node", Protocols: pm.SubProtocols, ListenAddr: "127.0.0.1:0", NoDial: true}
	if err := srv.Start(); err != nil {
		return nil, fmt.Errorf("p2p server: %v", err)
	}
	ws := &wireServer{srv: srv, id: discover.PubkeyID(&key.PublicKey), genesis: n.Genesis.GetGenesisMomentum().Hash, chainID: n.Chain.ChainIdentifier()}
	waitSynced := func(d time.Duration, sr *syncRemote) string {
		deadline := time.Now().Add(d)
		for time.Now().Before(deadline) {
			if n.Height() == src.Height() {
				return "synced"
			}
			if sr != nil && sr.ended(0) {
				// the remote is gone; give the node a moment to finish importing what it already has
				time.Sleep(300 * time.Millisecond)
				if n.Height() == src.Height() {
					return "synced"
				}
				return "dropped"
			}
			time.Sleep(150 * time.Millisecond)
		}
		return "hanging"
	}
	// an aborted block download leaves its traces by timing (F21): those sessions are played three times over
	var list []syncSessBehaviour
	for _, b := range a.Behaviours {
		list = append(list, b)
		last := b.Steps[len(b.Steps)-1]
		if last.Stage == "blocks-1" && (last.Answer == "height-above-window" || last.Answer == "unrequested" || last.Answer == "height-below-window") {
			list = append(list, b, b)
		}
	}
	a.Behaviours = list
	for i, b := range a.Behaviours {
		if a.Progress != "" {
			os.WriteFile(a.Progress, []byte(fmt.Sprintf("%d %s", i, b.key())), 0o644)
		}
		if err := src.ProduceN(12); err != nil {
			return nil, err
		}
		node.Clock.Set(src.Frontier().Timestamp.Add(time.Minute))
		plan := map[string]string{}
		for _, s := range b.Steps {
			plan[s.Stage] = s.Answer
		}
		sr, err := newSyncRemote(ws, src, plan, r, src.Height())
		if err != nil {
			res.Mismatches = append(res.Mismatches, [2]string{"node-does-not-accept-a-remote", fmt.Sprintf("before %s: %v", b.key(), err)})
			break
		}
		sr.onMis = func(answer string) {
			if answer == "silent-while-another-remote-sends-hashes" {
				go func() {
					time.Sleep(800 * time.Millisecond)
					other, err := newSyncRemote(ws, src, map[string]string{}, r, 1) // not ahead of the node: it is not synchronised with
					if err != nil {
						return
					}
					time.Sleep(300 * time.Millisecond)
					other.send(4, []types.Hash{types.NewHash([]byte("unsolicited")), src.Frontier().Hash})
					time.Sleep(8 * time.Second)
					other.close()
				}()
			}
		}
		out := waitSynced(40*time.Second, sr)
		res.Outcomes[b.Steps[len(b.Steps)-1].Stage+"/"+b.Steps[len(b.Steps)-1].Answer+" -> "+out]++
		if out == "hanging" {
			res.Mismatches = append(res.Mismatches, [2]string{"synchronisation-does-not-end-" + b.Steps[len(b.Steps)-1].Stage + "-" + b.Steps[len(b.Steps)-1].Answer,
				fmt.Sprintf("40 s after the remote answered as in %s the node has neither the announced chain nor dropped the remote", b.key())})
		}
		sr.close()
		sr.ended(5 * time.Second)
		// afterwards a well-behaved remote is synchronised with
		if n.Height() == src.Height() {
			if err := src.ProduceN(6); err != nil {
				return nil, err
			}
			node.Clock.Set(src.Frontier().Timestamp.Add(time.Minute))
		}
		// (the node may drop a remote for reasons of its own - a request that expired under load; what must not happen is that
		// it stays unable to synchronise: up to three well-behaved remotes, one after the other)
		got := ""
		for attempt := 0; attempt < 3 && got != "synced"; attempt++ {
			good, err := newSyncRemote(ws, src, map[string]string{}, r, src.Height())
			if err != nil {
				got = "refused: " + err.Error()
				time.Sleep(2 * time.Second)
				continue
			}
			got = waitSynced(45*time.Second, good)
			good.close()
			good.ended(5 * time.Second)
			if got != "synced" {
				res.Outcomes["well-behaved remote not synchronised with at attempt "+fmt.Sprint(attempt+1)+": "+got]++
			}
		}
		if got != "synced" {
			res.Mismatches = append(res.Mismatches, [2]string{"node-no-longer-synchronises-after-" + b.Steps[len(b.Steps)-1].Stage + "-" + b.Steps[len(b.Steps)-1].Answer,
				fmt.Sprintf("after the session %s three well-behaved remotes in a row, each announcing %d momentums more, are not synchronised with (last: %s): the downloader is left busy or the node stopped serving", b.key(), src.Height()-n.Height(), got)})
			break
		}
		res.Done++
	}
	return res, nil
}

func syncSessCheck(run *core.Run) {
	cfg := "CONSTANTS\n  WithHist = %s\nINIT Init\nNEXT Next\n%s\nCHECK_DEADLOCK FALSE\n"
	res, err := core.RunTLC(core.TLCOpts{Module: "SyncSession", CfgText: fmt.Sprintf(cfg, "FALSE", "INVARIANTS NodeAlive"), Timeout: 5 * time.Minute})
	if err != nil || res.Violated != "" || res.Err != "" {
		core.Fatal("SyncSession: %v %s %s", err, res.Violated, res.Err)
	}
	run.States += res.Distinct
	run.Transitions += res.Generated
	// liveness on the specification itself: under weak fairness of the remote's answers every synchronisation ends
	lv, err := core.RunTLC(core.TLCOpts{Module: "SyncSession", CfgText: "CONSTANTS\n  WithHist = FALSE\nSPECIFICATION Spec\nPROPERTIES Ends\nCHECK_DEADLOCK FALSE\n", Timeout: 5 * time.Minute})
	if err != nil || lv.Violated != "" || lv.Err != "" {
		core.Fatal("SyncSession liveness: %v %s %s", err, lv.Violated, lv.Err)
	}
	seen := map[string]bool{}
	var behaviours []syncSessBehaviour
	_, err = core.RunTLC(core.TLCOpts{Module: "SyncSession", CfgText: fmt.Sprintf(cfg, "TRUE", "VIEW GenView\nACTION_CONSTRAINT EmitEdge"), Workers: 1, Timeout: 5 * time.Minute,
		OnLine: func(line string) {
			if js, ok := core.ParseB(line, "B"); ok {
				var b syncSessBehaviour
				if json.Unmarshal([]byte(js), &b) == nil && !seen[b.key()] {
					seen[b.key()] = true
					behaviours = append(behaviours, b)
				}
			}
		}})
	if err != nil || len(behaviours) < 10 {
		core.Fatal("SyncSession generation: %v (%d behaviours)", err, len(behaviours))
	}
	all := len(behaviours)
	parts := 12
	dir, err := os.MkdirTemp(core.Scratch(), "syncsess-")
	if err != nil {
		core.Fatal("%v", err)
	}
	defer os.RemoveAll(dir)
	args := make([]syncSessArg, parts)
	for i, b := range behaviours {
		args[i%parts].Behaviours = append(args[i%parts].Behaviours, b)
	}
	outs := make([]syncSessResult, parts)
	crashes := make([]*core.Crash, parts)
	errs := make([]error, parts)
	var wg sync.WaitGroup
	for i := range args {
		if len(args[i].Behaviours) == 0 {
			continue
		}
		args[i].Seed = run.Seed*10 + int64(i)
		args[i].Progress = fmt.Sprintf("%s/progress-%d", dir, i)
		wg.Add(1)
		go func(i int) {
			defer wg.Done()
			crashes[i], errs[i] = core.Child("sync-session", args[i], &outs[i], 25*time.Minute)
		}(i)
	}
	wg.Wait()
	outcomes := map[string]int{}
	for i := range args {
		if errs[i] != nil {
			core.Fatal("%v", errs[i])
		}
		if c := crashes[i]; c != nil {
			prog, _ := os.ReadFile(args[i].Progress)
			run.Report("C15:node-terminated-"+c.Key(), fmt.Sprintf("the node process died (%s) during the synchronisation session %s", c.String(), tail(string(prog), 400)),
				map[string]interface{}{"kind": "sync-session", "behaviour": string(prog), "stderr_tail": c.Text})
			continue
		}
		for _, m := range outs[i].Mismatches {
			run.Report("C15:"+m[0], m[1], map[string]interface{}{"kind": "sync-session", "what": m[1]})
		}
		run.Traces += int64(outs[i].Done)
		for k, v := range outs[i].Outcomes {
			outcomes[k] += v
		}
	}
	run.Set("sync_sessions", fmt.Sprintf("%d of the %d behaviours of SyncSession.tla (one per stage and answer) replayed against the real ProtocolManager / downloader / fetcher with a remote serving a real longer chain; after each one a well-behaved remote must be synchronised with", len(behaviours), all))
	run.Set("sync_session_outcomes", outcomes)
}

// DebugSyncSession is used by cmd/dbg2: "stage=answer,stage=answer".
func DebugSyncSession(spec string, seed int64) string {
	var b syncSessBehaviour
	for _, kv := range strings.Split(spec, ",") {
		p := strings.SplitN(kv, "=", 2)
		b.Steps = append(b.Steps, syncSessStep{Stage: p[0], Answer: p[1]})
	}
	node.Quiet()
	if os.Getenv("VERIF_DEBUG") != "" {
		h := log15.StreamHandler(os.Stderr, log15.LogfmtFormat())
		common.ProtocolLogger.SetHandler(h)
		common.DownloaderLogger.SetHandler(h)
		common.FetcherLogger.SetHandler(h)
	}
	res, err := syncSessChild(syncSessArg{Behaviours: []syncSessBehaviour{b, b}, Seed: seed})
	return fmt.Sprint(res, err)
}
