package checks

import (
	"encoding/json"
	"fmt"
	"math/big"
	"os"
	"os/exec"
	"time"

	g "github.com/zenon-network/go-zenon/chain/genesis/mock"
	"github.com/zenon-network/go-zenon/chain/nom"
	"github.com/zenon-network/go-zenon/common/types"
	"github.com/zenon-network/go-zenon/vm/constants"
	"github.com/zenon-network/go-zenon/vm/embedded/definition"

	"verif/lab/core"
	"verif/lab/node"
	"verif/lab/walk"
)

type sporkStep struct {
	A          string `json:"a"`
	I          string `json:"i"`
	F          string `json:"f"`
	Designated bool   `json:"designated"`
	Prop       bool   `json:"prop"`
	R          string `json:"r"`
	H          int    `json:"h"`
}
type sporkBehaviour struct {
	Steps []sporkStep `json:"steps"`
}

const sporkCfg = `CONSTANTS
  MinDelay = 3
  MaxH = %d
  WithHist = %s
INIT Init
NEXT Next
%s
CHECK_DEADLOCK FALSE
`

func setSporkPointer(i string, id types.Hash) {
	switch i {
	case "acc":
		types.AcceleratorSpork.SporkId = id
	case "bridge":
		types.BridgeAndLiquiditySpork.SporkId = id
	case "htlc":
		types.HtlcSpork.SporkId = id
	}
	types.ImplementedSporksMap[id] = true
}

func sporkProbe(p *node.Node, f string) error {
	var b *nom.AccountBlock
	switch f {
	case "acc":
		b = &nom.AccountBlock{BlockType: nom.BlockTypeUserSend, Address: g.User1.Address, ToAddress: types.AcceleratorContract, TokenStandard: types.ZnnTokenStandard, Amount: constants.ProjectCreationAmount,
			Data: definition.ABIAccelerator.PackMethodPanic(definition.CreateProjectMethodName, fmt.Sprintf("Project %d", p.Height()), "lab project", "test.com", big.NewInt(100), big.NewInt(1000))}
		_, err := p.Submit(b, g.User1)
		return err
	case "htlc":
		exp := p.Frontier().Timestamp.Unix() + 1000
		b = &nom.AccountBlock{BlockType: nom.BlockTypeUserSend, Address: g.User2.Address, ToAddress: types.HtlcContract, TokenStandard: types.ZnnTokenStandard, Amount: big.NewInt(100000000),
			Data: definition.ABIHtlc.PackMethodPanic(definition.CreateHtlcMethodName, g.User3.Address, exp, uint8(0), uint8(32), types.NewHash([]byte("x")).Bytes())}
		_, err := p.Submit(b, g.User2)
		return err
	default:
		b = &nom.AccountBlock{BlockType: nom.BlockTypeUserSend, Address: g.User3.Address, ToAddress: types.LiquidityContract,
			Data: definition.ABICommon.PackMethodPanic(definition.CollectRewardMethodName)}
		_, err := p.Submit(b, g.User3)
		return err
	}
}

func sporkReplay(run *core.Run, b *sporkBehaviour, outcomes map[string]int) error {
	rep := map[string]interface{}{"kind": "spork-behaviour", "behaviour": b}
	node.Clock.Set(time.Unix(1000000000, 0))
	zero := types.Hash{}
	for _, i := range []string{"acc", "bridge", "htlc"} {
		switch i {
		case "acc":
			types.AcceleratorSpork.SporkId = types.NewHash([]byte("unset-acc"))
		case "bridge":
			types.BridgeAndLiquiditySpork.SporkId = types.NewHash([]byte("unset-bridge"))
		case "htlc":
			types.HtlcSpork.SporkId = types.NewHash([]byte("unset-htlc"))
		}
	}
	_ = zero
	p, err := node.New("spork", node.Options{Producer: true})
	if err != nil {
		return err
	}
	defer p.Stop()
	if err := p.Produce(0); err != nil {
		return err
	}
	ids := map[string]types.Hash{}
	for si, s := range b.Steps {
		switch s.A {
		case "Create":
			key := g.Spork
			if !s.Designated {
				key = g.User1
			}
			blk, err := p.Submit(&nom.AccountBlock{BlockType: nom.BlockTypeUserSend, Address: key.Address, ToAddress: types.SporkContract,
				Data: definition.ABISpork.PackMethodPanic(definition.SporkCreateMethodName, "spork-"+s.I+fmt.Sprint(si), "lab spork for "+s.I)}, key)
			if (err == nil) != s.Designated {
				run.Report("C17:create-by-"+map[bool]string{true: "designated-key-refused", false: "stranger-accepted"}[s.Designated], fmt.Sprintf("step %d: spork creation by designated=%v: %v", si+1, s.Designated, err), rep)
				return nil
			}
			if err == nil {
				if _, have := ids[s.I]; !have {
					ids[s.I] = blk.Hash
					setSporkPointer(s.I, blk.Hash)
				}
				if err := p.ProduceN(2); err != nil {
					return err
				}
			}
		case "Activate":
			key := g.Spork
			if !s.Designated {
				key = g.User1
			}
			_, err := p.Submit(&nom.AccountBlock{BlockType: nom.BlockTypeUserSend, Address: key.Address, ToAddress: types.SporkContract,
				Data: definition.ABISpork.PackMethodPanic(definition.SporkActivateMethodName, ids[s.I])}, key)
			if (err == nil) != s.Designated {
				run.Report("C17:activate-by-"+map[bool]string{true: "designated-key-refused", false: "stranger-accepted"}[s.Designated], fmt.Sprintf("step %d: spork activation by designated=%v: %v", si+1, s.Designated, err), rep)
				return nil
			}
			if err == nil {
				if err := p.ProduceN(2); err != nil {
					return err
				}
			}
		case "Tick":
			if err := p.Produce(0); err != nil {
				return err
			}
		case "Call":
			err := sporkProbe(p, s.F)
			got := "available"
			if err != nil {
				got = "unavailable"
			}
			outcomes[s.F+"/"+got]++
			if s.R == "unavailable-or-higher" {
				continue // just below the enforcement height of the feature's own spork: availability depends on the other sporks only
			}
			if got != s.R {
				run.Report(fmt.Sprintf("C17:%s-%s-specified-%s", s.F, got, s.R),
					fmt.Sprintf("step %d: a call to the %s feature evaluated at height %d is %s (%v), the specification says %s; behaviour %s", si+1, s.F, p.Height(), got, err, s.R, core.JSON(b.Steps)), rep)
				return nil
			}
			if got == "available" && !s.Prop {
				run.Report("C17:feature-available-through-a-higher-priority-spork-only",
					fmt.Sprintf("the %s feature is available at height %d although its own spork is not enforced (cumulative method tables)", s.F, p.Height()), rep)
			}
		}
		if int(p.Height()) != s.H {
			core.Fatal("spork replay: real height %d, specification height %d after step %d of %s", p.Height(), s.H, si+1, core.JSON(b.Steps))
		}
	}
	// the chain must be adopted by a follower (send-time and receive-time decisions agree on a syncing node)
	f, err := node.New("spork-follower", node.Options{})
	if err != nil {
		return err
	}
	defer f.Stop()
	if err := p.Produce(0); err != nil {
		return err
	}
	all, err := p.Detailed(2, p.Height())
	if err != nil {
		return err
	}
	node.Clock.Set(p.Frontier().Timestamp.Add(time.Hour))
	if idx, err := f.InsertChain(all); err != nil {
		run.Report("C17:follower-refuses-chain", fmt.Sprintf("a follower refuses the producer's chain at momentum index %d: %v (behaviour %s)", idx, err, core.JSON(b.Steps)), rep)
	}
	return nil
}

// C17 — spork-gated rules switch on by chain height only, identically everywhere.
func C17(run *core.Run) {
	if os.Getenv("VERIF_CHILD") == "spork-halt" {
		c17HaltChild()
		return
	}
	run.Assume = []string{
		"features are probed through send-time validation of one representative call per spork (accelerator CreateProject, liquidity CollectReward, htlc Create); heights in the specification are real heights (SporkMinHeightDelay set to 3 as the repository's tests shorten vars)",
		"the process-global spork identifiers are pointed at the sporks the behaviour creates, as the repository's spork tests do",
	}
	walk.LabConstants()
	constants.SporkMinHeightDelay = 3
	maxH := 13
	res, err := core.RunTLC(core.TLCOpts{Module: "Spork", CfgText: fmt.Sprintf(sporkCfg, maxH, "FALSE", "INVARIANTS GateByHeight\nPROPERTIES ActivationRules"), Timeout: 10 * time.Minute})
	if err != nil || res.Violated != "" || res.Err != "" {
		core.Fatal("Spork: %v %s %s", err, res.Violated, res.Err)
	}
	run.States += res.Distinct
	run.Transitions += res.Generated
	nc, err := core.RunTLC(core.TLCOpts{Module: "Spork", CfgText: fmt.Sprintf(sporkCfg, maxH, "FALSE", "INVARIANTS CodeEqualsProperty"), Timeout: 10 * time.Minute})
	if err != nil || nc.Violated != "CodeEqualsProperty" {
		core.Fatal("the cumulative method tables must make TLC refute CodeEqualsProperty (F13)")
	}
	run.Set("negative_controls", []string{"availability by the feature's own spork only (the property) vs. cumulative tables (the code): TLC refutes CodeEqualsProperty - recorded finding F13"})
	every := int64(9)
	if run.Thorough() {
		every = 2
	}
	var total, replayed int64
	outcomes := map[string]int{}
	_, err = core.RunTLC(core.TLCOpts{Module: "Spork", CfgText: fmt.Sprintf(sporkCfg, maxH, "TRUE", "VIEW GenView\nACTION_CONSTRAINT EmitEdge"), Workers: 1, Timeout: 60 * time.Minute,
		OnLine: func(line string) {
			js, ok := core.ParseB(line, "B")
			if !ok {
				return
			}
			total++
			var b sporkBehaviour
			if json.Unmarshal([]byte(js), &b) != nil {
				core.Fatal("bad spork behaviour")
			}
			last := b.Steps[len(b.Steps)-1]
			if last.A == "Activate" && last.R == "already" {
				// a repeated activation changes nothing (a self-loop of the abstract graph): completed with ticks up to the ORIGINAL
				// enforcement height and a call that must find the feature available exactly from there
				e, h := 0, last.H
				for _, s := range b.Steps {
					if s.A == "Activate" && s.R == "activated" && s.I == last.I && e == 0 {
						e = s.H + 1
					}
				}
				if e == 0 || e > maxH {
					return
				}
				for h < e {
					h++
					b.Steps = append(b.Steps, sporkStep{A: "Tick", R: "tick", H: h})
				}
				b.Steps = append(b.Steps, sporkStep{A: "Call", F: last.I, R: "available", Prop: true, H: h})
				if err := sporkReplay(run, &b, outcomes); err != nil {
					core.Fatal("spork replay: %v", err)
				}
				replayed++
				return
			}
			if last.A != "Call" && !(last.A != "Tick" && !last.Designated) {
				return
			}
			if (total+run.Seed)%every != 0 {
				return
			}
			if err := sporkReplay(run, &b, outcomes); err != nil {
				core.Fatal("spork replay: %v", err)
			}
			replayed++
			if replayed == 5 {
				run.AddSample(map[string]interface{}{"spork_behaviour": b.Steps})
			}
		}})
	if err != nil {
		core.Fatal("Spork generation: %v", err)
	}
	run.Traces += replayed
	run.Set("spork_behaviours", fmt.Sprintf("%d generated, %d replayed (those ending in a call or in an attempt by a stranger, sampled)", total, replayed))
	run.Set("spork_call_outcomes", outcomes)
	for _, k := range []string{"acc/available", "acc/unavailable", "htlc/available", "htlc/unavailable", "bridge/available", "bridge/unavailable"} {
		if outcomes[k] == 0 {
			core.Fatal("vacuity: no replayed call with outcome %s (%v)", k, outcomes)
		}
	}
	c17Halt(run)
	run.Finish()
}

// c17Halt: a node that does not implement an enforced spork stops (exit status 2) exactly when the spork is enforced.
func c17Halt(run *core.Run) {
	c17HaltVariant(run, "alone")
	// the unknown spork among others that are defined but not in force (not activated, or activated later): whatever their order
	// in the contract's storage, the enforced unknown one is found
	c17HaltVariant(run, "crowd")
}

func c17HaltVariant(run *core.Run, variant string) {
	exe, err := os.Executable()
	if err != nil {
		core.Fatal("%v", err)
	}
	cmd := exec.Command(exe, "C17")
	cmd.Env = append(os.Environ(), "VERIF_CHILD=spork-halt", "VERIF_HALT_VARIANT="+variant, fmt.Sprintf("VERIF_CHILD_SEED=%d", run.Seed))
	out, err := cmd.CombinedOutput()
	code := 0
	if ee, ok := err.(*exec.ExitError); ok {
		code = ee.ExitCode()
	} else if err != nil {
		core.Fatal("halt child: %v", err)
	}
	s := string(out)
	reached := lastMarker(s, "HEIGHT ")
	run.Set("halt_child_"+variant, fmt.Sprintf("exit status %d, last height reported %s", code, reached))
	want := lastMarker(s, "ENFORCEMENT ")
	if code == 3 {
		core.Fatal("halt child (%s) could not set its scenario up: %s", variant, tail(s, 300))
	}
	if code != 2 {
		run.Report("C17:node-continues-under-unknown-spork-"+variant, fmt.Sprintf("a node that does not implement an enforced spork did not stop (variant %q: exit status %d, reached height %s, enforcement height %s)", variant, code, reached, want), map[string]interface{}{"kind": "spork-halt", "variant": variant})
		return
	}
	if reached == "" || want == "" {
		core.Fatal("halt child gave no markers: %s", tail(s, 400))
	}
	// the last momentum inserted before the stop is the one BEFORE the enforcement height (the node stops while inserting it)
	var r, w int
	fmt.Sscan(reached, &r)
	fmt.Sscan(want, &w)
	if r != w-1 {
		run.Report("C17:halt-at-wrong-height-"+variant, fmt.Sprintf("variant %q: node stopped after height %d, enforcement height is %d", variant, r, w), map[string]interface{}{"kind": "spork-halt", "variant": variant})
	}
	run.Traces++
}

func lastMarker(s, marker string) string {
	out := ""
	for i := 0; i+len(marker) <= len(s); i++ {
		if s[i:i+len(marker)] == marker {
			j := i + len(marker)
			k := j
			for k < len(s) && s[k] >= '0' && s[k] <= '9' {
				k++
			}
			out = s[j:k]
		}
	}
	return out
}

func c17HaltChild() {
	walk.LabConstants()
	constants.SporkMinHeightDelay = 3
	p, err := node.New("halt", node.Options{Producer: true})
	if err != nil {
		os.Exit(3)
	}
	p.Produce(0)
	crowd := os.Getenv("VERIF_HALT_VARIANT") == "crowd"
	var seed int64
	fmt.Sscan(os.Getenv("VERIF_CHILD_SEED"), &seed)
	var later []types.Hash
	if crowd {
		// six other sporks, all implemented by this binary: three stay unactivated, three are activated after the unknown one
		for i := 0; i < 6; i++ {
			b, err := p.Submit(&nom.AccountBlock{BlockType: nom.BlockTypeUserSend, Address: g.Spork.Address, ToAddress: types.SporkContract,
				Data: definition.ABISpork.PackMethodPanic(definition.SporkCreateMethodName, fmt.Sprintf("spork-other-%d-%d", seed, i), "another spork")}, g.Spork)
			if err != nil {
				fmt.Println("create:", err)
				os.Exit(3)
			}
			types.ImplementedSporksMap[b.Hash] = true
			if i >= 3 {
				later = append(later, b.Hash)
			}
			p.Produce(0)
		}
	}
	blk, err := p.Submit(&nom.AccountBlock{BlockType: nom.BlockTypeUserSend, Address: g.Spork.Address, ToAddress: types.SporkContract,
		Data: definition.ABISpork.PackMethodPanic(definition.SporkCreateMethodName, "spork-unknown", "a spork this binary does not implement")}, g.Spork)
	if err != nil {
		os.Exit(3)
	}
	p.ProduceN(2)
	if _, err := p.Submit(&nom.AccountBlock{BlockType: nom.BlockTypeUserSend, Address: g.Spork.Address, ToAddress: types.SporkContract,
		Data: definition.ABISpork.PackMethodPanic(definition.SporkActivateMethodName, blk.Hash)}, g.Spork); err != nil {
		os.Exit(3)
	}
	fmt.Printf("HEIGHT %d\n", p.Height())
	p.Produce(0)
	fmt.Printf("HEIGHT %d\n", p.Height())
	fmt.Printf("ENFORCEMENT %d\n", p.Height()+uint64(constants.SporkMinHeightDelay))
	for _, id := range later { // activated now: in force only after the unknown one
		if _, err := p.Submit(&nom.AccountBlock{BlockType: nom.BlockTypeUserSend, Address: g.Spork.Address, ToAddress: types.SporkContract,
			Data: definition.ABISpork.PackMethodPanic(definition.SporkActivateMethodName, id)}, g.Spork); err != nil {
			fmt.Println("activate later:", err)
			os.Exit(3)
		}
	}
	for i := 0; i < 8; i++ {
		p.Produce(0)
		fmt.Printf("HEIGHT %d\n", p.Height())
	}
	os.Exit(0)
}
