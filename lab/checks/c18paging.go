package checks

import (
	"encoding/json"
	"fmt"
	"math/big"
	"os"
	"reflect"
	"sort"
	"strings"
	"time"

	g "github.com/zenon-network/go-zenon/chain/genesis/mock"
	"github.com/zenon-network/go-zenon/chain/nom"
	"github.com/zenon-network/go-zenon/common/types"
	"github.com/zenon-network/go-zenon/rpc/api/embedded"
	"github.com/zenon-network/go-zenon/vm/constants"
	"github.com/zenon-network/go-zenon/vm/embedded/definition"
	"github.com/zenon-network/go-zenon/wallet"

	"verif/lab/core"
	"verif/lab/ledger"
	"verif/lab/node"
	"verif/lab/walk"
)

// C18, "paging through ANY list": the paging law of Rpc.tla (the pages of a list, one after the other, are the list; no page is
// longer than its size; the reported total is the length of the list) applied to every paged query of the embedded-contract
// APIs, on a state in which every list has entries and HOLES - entries that are stored but not listed any more (a revoked
// sentinel, a cancelled fusion or stake, a revoked pillar), which is where an offset into the stored list and an offset into the
// listed one part ways (Rpc.tla: FilteredPage against the refuted OffsetIntoStored).

type pagedQuery struct {
	name string
	call func(page, size uint32) (interface{}, error)
}

// listOf: the elements (as JSON) and the reported total of a paged answer.
func listOf(v interface{}) (elems []string, count int, hasCount bool, ok bool) {
	rv := reflect.ValueOf(v)
	if !rv.IsValid() || (rv.Kind() == reflect.Ptr && rv.IsNil()) {
		return nil, 0, false, false
	}
	if rv.Kind() == reflect.Ptr {
		rv = rv.Elem()
	}
	if rv.Kind() != reflect.Struct {
		return nil, 0, false, false
	}
	found := false
	for i := 0; i < rv.NumField(); i++ {
		f := rv.Field(i)
		switch {
		case f.Kind() == reflect.Slice && !found:
			found = true
			for k := 0; k < f.Len(); k++ {
				js, _ := json.Marshal(f.Index(k).Interface())
				elems = append(elems, string(js))
			}
		case rv.Type().Field(i).Name == "Count" && (f.Kind() == reflect.Int || f.Kind() == reflect.Int64 || f.Kind() == reflect.Uint32 || f.Kind() == reflect.Uint64):
			hasCount = true
			if f.Kind() == reflect.Int || f.Kind() == reflect.Int64 {
				count = int(f.Int())
			} else {
				count = int(f.Uint())
			}
		}
	}
	return elems, count, hasCount, found
}

func pagingLaw(run *core.Run, q pagedQuery, stats map[string]string) {
	rep := func(key, what string, extra map[string]interface{}) {
		m := map[string]interface{}{"kind": "embedded-paging", "query": q.name}
		for k, v := range extra {
			m[k] = v
		}
		run.Report("C18:"+key+"-"+q.name, what, m)
	}
	var whole interface{}
	var err error
	func() {
		defer func() {
			if r := recover(); r != nil {
				err = fmt.Errorf("panic: %v", r)
			}
		}()
		whole, err = q.call(0, 1024)
	}()
	if err != nil {
		stats[q.name] = "error: " + err.Error()
		return
	}
	want, total, hasCount, ok := listOf(whole)
	if !ok {
		stats[q.name] = "no list in the answer"
		return
	}
	if hasCount && len(want) < 1024 && total != len(want) {
		rep("total-differs-from-list", fmt.Sprintf("%s reports a total of %d, the single page of 1024 holds %d elements", q.name, total, len(want)), nil)
	}
	seen := map[string]bool{}
	for _, e := range want {
		if seen[e] {
			rep("element-twice-in-whole-list", fmt.Sprintf("%s lists an element twice: %s", q.name, tail(e, 200)), nil)
		}
		seen[e] = true
	}
	for _, size := range []uint32{1, 2, 3, 7} {
		var got []string
		for page := uint32(0); page < 600; page++ {
			var l interface{}
			var err error
			func() {
				defer func() {
					if r := recover(); r != nil {
						err = fmt.Errorf("panic: %v", r)
					}
				}()
				l, err = q.call(page, size)
			}()
			if err != nil {
				rep("page-error", fmt.Sprintf("%s page %d size %d: %v", q.name, page, size, err), map[string]interface{}{"page": page, "size": size})
				return
			}
			el, cnt, hc, _ := listOf(l)
			if len(el) > int(size) {
				rep("page-too-long", fmt.Sprintf("%s page %d of size %d holds %d elements", q.name, page, size, len(el)), map[string]interface{}{"page": page, "size": size})
			}
			if hc && hasCount && cnt != total {
				rep("total-varies", fmt.Sprintf("%s reports total %d on page %d (size %d) and %d on the single page", q.name, cnt, page, size, total), map[string]interface{}{"page": page, "size": size})
			}
			if len(el) == 0 {
				break
			}
			got = append(got, el...)
		}
		if strings.Join(got, "\n") != strings.Join(want, "\n") {
			first := 0
			for first < len(got) && first < len(want) && got[first] == want[first] {
				first++
			}
			rep("pages-differ-from-whole-list", fmt.Sprintf("%s: the pages of size %d, one after the other, are not the list (%d elements paged, %d in the list, first difference at position %d)", q.name, size, len(got), len(want), first),
				map[string]interface{}{"size": size, "position": first})
			return
		}
		run.Traces++
	}
	stats[q.name] = fmt.Sprintf("%d elements", len(want))
}

// c18Paging: the state and the queries.
func c18Paging(run *core.Run) {
	walk.LabConstants()
	node.Clock.Set(time.Unix(1000000000, 0))
	// the mock configuration gives all its fusions the zero id, so entries of one owner overwrite each other while the fused
	// counters add up (the recorded C20 finding); here every fusion gets an id of its own, so that entries and counters agree
	cfg := cloneGenesis(g.EmbeddedGenesis)
	for i, f := range cfg.PlasmaConfig.Fusions {
		f.Id = types.NewHash([]byte(fmt.Sprintf("fusion-%d", i)))
	}
	p, err := node.New("rpc-paging", node.Options{Producer: true, Genesis: cfg})
	if err != nil {
		core.Fatal("%v", err)
	}
	defer p.Stop()
	f := &cellFixture{n: p, w: walk.New(p, run.Seed+11)}
	if err := f.prepare(); err != nil {
		core.Fatal("%v", err)
	}
	znn, qsr := types.ZnnTokenStandard, types.QsrTokenStandard
	send := func(what string, key *wallet.KeyPair, to types.Address, tok types.ZenonTokenStandard, amt *big.Int, data []byte) *nom.AccountBlock {
		b, err := p.Submit(&nom.AccountBlock{BlockType: nom.BlockTypeUserSend, Address: key.Address, ToAddress: to, TokenStandard: tok, Amount: amt, Data: data}, key)
		if err != nil {
			core.Fatal("paging fixture: %s refused: %v", what, err)
		}
		return b
	}
	// sentinels of eight owners; three of them revoke in their first revoke window
	owners := []*wallet.KeyPair{g.User1, g.User2, g.Spork, g.Pillar4, g.Pillar5, g.Pillar6, g.Pillar7, g.Pillar8}
	for _, u := range owners {
		if u != g.User1 { // the fixture deposited for User1
			send("sentinel deposit", u, types.SentinelContract, qsr, constants.SentinelQsrDepositAmount, definition.ABISentinel.PackMethodPanic(definition.DepositQsrMethodName))
		}
	}
	core.Must(p.ProduceN(3))
	for _, u := range owners {
		send("sentinel register", u, types.SentinelContract, znn, constants.SentinelZnnRegisterAmount, definition.ABISentinel.PackMethodPanic(definition.RegisterSentinelMethodName))
	}
	regAt := p.Height()
	// more entries of one owner in the lists that are kept per owner
	var fusions, stakes []types.Hash
	for i := 0; i < 5; i++ {
		fusions = append(fusions, send("fuse", g.User2, types.PlasmaContract, qsr, unitsOf(int64(10+i)), definition.ABIPlasma.PackMethodPanic(definition.FuseMethodName, g.User3.Address)).Hash)
		stakes = append(stakes, send("stake", g.User2, types.StakeContract, znn, unitsOf(int64(1+i)), definition.ABIStake.PackMethodPanic(definition.StakeMethodName, constants.StakeTimeMinSec)).Hash)
		core.Must(p.Produce(0))
	}
	for i := 0; i < 3; i++ {
		send("project", g.User2, types.AcceleratorContract, znn, constants.ProjectCreationAmount,
			definition.ABIAccelerator.PackMethodPanic(definition.CreateProjectMethodName, fmt.Sprintf("paging project %d", i), "a project", "https://zenon.network", unitsOf(10), unitsOf(100)))
		send("issue", g.User2, types.TokenContract, znn, constants.TokenIssueAmount,
			definition.ABIToken.PackMethodPanic(definition.IssueMethodName, fmt.Sprintf("paging%d", i), "PAGE", "", unitsOf(5), unitsOf(50), uint8(8), true, true, false))
		core.Must(p.Produce(0))
	}
	// the revoke window of the sentinels: 200..300 s after the registration
	for p.Height() < regAt+22 {
		core.Must(p.Produce(0))
	}
	sorted := append([]*wallet.KeyPair{}, owners...)
	sort.Slice(sorted, func(i, j int) bool {
		return strings.Compare(string(sorted[i].Address.Bytes()), string(sorted[j].Address.Bytes())) < 0
	})
	for _, k := range []int{0, 3, 6} { // the first stored, one in the middle, one near the end
		send("sentinel revoke", sorted[k], types.SentinelContract, types.ZeroTokenStandard, big.NewInt(0), definition.ABISentinel.PackMethodPanic(definition.RevokeSentinelMethodName))
	}
	// holes in the per-owner lists: the second and the fourth fusion and stake are cancelled (both are past their lock by now)
	for _, k := range []int{1, 3} {
		send("cancel fuse", g.User2, types.PlasmaContract, types.ZeroTokenStandard, big.NewInt(0), definition.ABIPlasma.PackMethodPanic(definition.CancelFuseMethodName, fusions[k]))
		send("cancel stake", g.User2, types.StakeContract, types.ZeroTokenStandard, big.NewInt(0), definition.ABIStake.PackMethodPanic(definition.CancelStakeMethodName, stakes[k]))
	}
	core.Must(p.ProduceN(4))
	// a history on top: reward updates over three epochs, more entries and holes wherever the walk goes
	w := walk.New(p, run.Seed+12)
	w.HtlcOn = true
	if err := w.Run(3*walk.EpochMomentums + 30); err != nil {
		core.Fatal("paging walk: %v", err)
	}
	// the queries answer from the account frontiers, which include the pool: everything is confirmed before they are compared
	// with the confirmed storage
	for k := 0; k < 8 && len(p.Chain.GetAllUncommittedAccountBlocks()) > 0 || k < 2; k++ {
		core.Must(p.Produce(0))
	}
	if n := len(p.Chain.GetAllUncommittedAccountBlocks()); n > 0 {
		core.Fatal("paging fixture: %d blocks stay in the pool", n)
	}
	for _, pb := range p.Problems {
		run.ReportFor("C09", "C09:producer-problem", "producing pillar reported: "+pb+" (rpc paging fixture)", nil)
	}
	st := p.Chain.GetFrontierMomentumStore().GetAccountStore(types.SentinelContract).Storage()
	active, revoked := 0, 0
	definition.IterateSentinelEntries(st, func(s *definition.SentinelInfo) error {
		if s.RevokeTimestamp == 0 {
			active++
		} else {
			revoked++
		}
		return nil
	})
	if active < 4 || revoked < 3 {
		core.Fatal("paging fixture: %d active and %d revoked sentinels stored; the scenario did not play out", active, revoked)
	}

	z := node.Z{N: p}
	sa, pa, pl, ta, ac, sp, se, li := embedded.NewStakeApi(z), embedded.NewPillarApi(z, true), embedded.NewPlasmaApi(z), embedded.NewTokenApi(z), embedded.NewAcceleratorApi(z),
		embedded.NewSporkApi(z), embedded.NewSentinelApi(z), embedded.NewLiquidityApi(z)
	u1, u2, u3 := g.User1.Address, g.User2.Address, g.User3.Address
	var qs []pagedQuery
	add := func(name string, call func(page, size uint32) (interface{}, error)) {
		qs = append(qs, pagedQuery{name, call})
	}
	add("sentinel.getAllActive", func(a, b uint32) (interface{}, error) { return se.GetAllActive(a, b) })
	add("pillar.getAll", func(a, b uint32) (interface{}, error) { return pa.GetAll(a, b) })
	add("token.getAll", func(a, b uint32) (interface{}, error) { return ta.GetAll(a, b) })
	add("accelerator.getAll", func(a, b uint32) (interface{}, error) { return ac.GetAll(a, b) })
	add("spork.getAll", func(a, b uint32) (interface{}, error) { return sp.GetAll(a, b) })
	for _, o := range []struct {
		n string
		a types.Address
	}{{"user1", u1}, {"user2", u2}, {"user3", u3}} {
		o := o
		add("token.getByOwner("+o.n+")", func(a, b uint32) (interface{}, error) { return ta.GetByOwner(o.a, a, b) })
		add("stake.getEntriesByAddress("+o.n+")", func(a, b uint32) (interface{}, error) { return sa.GetEntriesByAddress(o.a, a, b) })
		add("plasma.getEntriesByAddress("+o.n+")", func(a, b uint32) (interface{}, error) { return pl.GetEntriesByAddress(o.a, a, b) })
		add("liquidity.getLiquidityStakeEntriesByAddress("+o.n+")", func(a, b uint32) (interface{}, error) { return li.GetLiquidityStakeEntriesByAddress(o.a, a, b) })
		add("stake.getFrontierRewardByPage("+o.n+")", func(a, b uint32) (interface{}, error) { return sa.GetFrontierRewardByPage(o.a, a, b) })
		add("sentinel.getFrontierRewardByPage("+o.n+")", func(a, b uint32) (interface{}, error) { return se.GetFrontierRewardByPage(o.a, a, b) })
		add("liquidity.getFrontierRewardByPage("+o.n+")", func(a, b uint32) (interface{}, error) { return li.GetFrontierRewardByPage(o.a, a, b) })
	}
	add("pillar.getFrontierRewardByPage(pillar1)", func(a, b uint32) (interface{}, error) { return pa.GetFrontierRewardByPage(g.Pillar1.Address, a, b) })
	add("pillar.getPillarEpochHistory(pillar1)", func(a, b uint32) (interface{}, error) { return pa.GetPillarEpochHistory(g.Pillar1Name, a, b) })
	add("pillar.getPillarsHistoryByEpoch(1)", func(a, b uint32) (interface{}, error) { return pa.GetPillarsHistoryByEpoch(1, a, b) })
	stats := map[string]string{}
	for _, q := range qs {
		pagingLaw(run, q, stats)
	}
	c18Storage(run, p, owners)
	// the bridge's lists, on a node of their own: the prepared bridge of the Bridge.tla replay, seven wrap requests on three
	// kinds of pair, five unwrap requests of which one is revoked
	func() {
		fx, err := buildBridgeFixture()
		if err != nil {
			core.Fatal("%v", err)
		}
		defer os.RemoveAll(fx.Dir)
		bridgeConstants()
		b, err := node.New("rpc-bridge", node.Options{Producer: true, Dir: fx.Dir})
		if err != nil {
			core.Fatal("%v", err)
		}
		defer b.Stop()
		const evm = "0xb794f5ea0ba39494ce839613fffba74279579268"
		for i, cfg := range []string{"plain", "proper", "burnable", "plain", "proper", "plain", "burnable"} {
			u := []*wallet.KeyPair{g.User1, g.User2}[i%2]
			if _, err := b.Submit(&nom.AccountBlock{BlockType: nom.BlockTypeUserSend, Address: u.Address, ToAddress: types.BridgeContract, TokenStandard: fx.Tokens[cfg], Amount: big.NewInt(int64(1000 + i)),
				Data: definition.ABIBridge.PackMethodPanic(definition.WrapTokenMethodName, bridgeNet, bridgeChain, evm)}, u); err != nil {
				core.Fatal("paging fixture: wrap refused: %v", err)
			}
			core.Must(b.Produce(0))
		}
		for i := 1; i <= 5; i++ {
			to := []*wallet.KeyPair{g.User1, g.User2}[i%2].Address
			tx := types.NewHash([]byte(fmt.Sprintf("paging-unwrap-%d", i)))
			amt := big.NewInt(int64(100 * i))
			if _, err := b.Submit(&nom.AccountBlock{BlockType: nom.BlockTypeUserSend, Address: g.User3.Address, ToAddress: types.BridgeContract, TokenStandard: types.ZeroTokenStandard, Amount: big.NewInt(0),
				Data: definition.ABIBridge.PackMethodPanic(definition.UnwrapTokenMethodName, bridgeNet, bridgeChain, tx, uint32(i), to, bridgePairAddr["plain"], amt, bridgeUnwrapSig(tx, uint32(i), to, bridgePairAddr["plain"], amt))}, g.User3); err != nil {
				core.Fatal("paging fixture: unwrap refused: %v", err)
			}
			core.Must(b.Produce(0))
		}
		if _, err := b.Submit(&nom.AccountBlock{BlockType: nom.BlockTypeUserSend, Address: g.User5.Address, ToAddress: types.BridgeContract, TokenStandard: types.ZeroTokenStandard, Amount: big.NewInt(0),
			Data: definition.ABIBridge.PackMethodPanic(definition.RevokeUnwrapRequestMethodName, types.NewHash([]byte("paging-unwrap-2")), uint32(2))}, g.User5); err != nil {
			core.Fatal("paging fixture: revoke refused: %v", err)
		}
		core.Must(b.ProduceN(4))
		ba := embedded.NewBridgeApi(node.Z{N: b})
		for _, q := range []pagedQuery{
			{"bridge.getAllNetworks", func(x, y uint32) (interface{}, error) { return ba.GetAllNetworks(x, y) }},
			{"bridge.getAllWrapTokenRequests", func(x, y uint32) (interface{}, error) { return ba.GetAllWrapTokenRequests(x, y) }},
			{"bridge.getAllWrapTokenRequestsByToAddress", func(x, y uint32) (interface{}, error) { return ba.GetAllWrapTokenRequestsByToAddress(evm, x, y) }},
			{"bridge.getAllWrapTokenRequestsByToAddressNetworkClassAndChainId", func(x, y uint32) (interface{}, error) {
				return ba.GetAllWrapTokenRequestsByToAddressNetworkClassAndChainId(evm, bridgeNet, bridgeChain, x, y)
			}},
			{"bridge.getAllUnsignedWrapTokenRequests", func(x, y uint32) (interface{}, error) { return ba.GetAllUnsignedWrapTokenRequests(x, y) }},
			{"bridge.getAllUnwrapTokenRequests", func(x, y uint32) (interface{}, error) { return ba.GetAllUnwrapTokenRequests(x, y) }},
			{"bridge.getAllUnwrapTokenRequestsByToAddress(user1)", func(x, y uint32) (interface{}, error) {
				return ba.GetAllUnwrapTokenRequestsByToAddress(g.User1.Address.String(), x, y)
			}},
			{"bridge.getAllUnwrapTokenRequestsByToAddress(user2)", func(x, y uint32) (interface{}, error) {
				return ba.GetAllUnwrapTokenRequestsByToAddress(g.User2.Address.String(), x, y)
			}},
		} {
			pagingLaw(run, q, stats)
			qs = append(qs, q)
		}
		if stats["bridge.getAllWrapTokenRequests"] != "7 elements" || stats["bridge.getAllUnwrapTokenRequests"] != "5 elements" {
			core.Fatal("paging fixture: the bridge lists %s wrap and %s unwrap requests", stats["bridge.getAllWrapTokenRequests"], stats["bridge.getAllUnwrapTokenRequests"])
		}
	}()
	nonEmpty := 0
	for _, v := range stats {
		if strings.HasSuffix(v, "elements") && !strings.HasPrefix(v, "0 ") {
			nonEmpty++
		}
	}
	run.Set("embedded_paged_queries", stats)
	run.Set("embedded_paging_state", fmt.Sprintf("%d active and %d revoked sentinels stored, two of five fusions and stakes of one owner cancelled, three epochs of reward history; %d of %d paged queries answer with a non-empty list", active, revoked, nonEmpty, len(qs)))
	if nonEmpty < 10 {
		core.Fatal("vacuity: only %d paged queries have a non-empty list", nonEmpty)
	}
}

// c18Storage: what the embedded queries say about an account against the entries the lab reads from the contracts' storage
// with its own iteration (ledger.Liabilities: key ranges walked directly, not through the contracts' list helpers).
func c18Storage(run *core.Run, p *node.Node, sentinelOwners []*wallet.KeyPair) {
	ms := p.Chain.GetFrontierMomentumStore()
	entries := ledger.Liabilities(ms)
	z := node.Z{N: p}
	sa, pa, pl, se, li := embedded.NewStakeApi(z), embedded.NewPillarApi(z, true), embedded.NewPlasmaApi(z), embedded.NewSentinelApi(z), embedded.NewLiquidityApi(z)
	rep := func(key, what string) {
		run.Report("C18:query-differs-from-storage-"+key, what, map[string]interface{}{"kind": "embedded-query-vs-storage", "what": what})
	}
	set := func(kind string, owner types.Address, byAlt bool) (map[string]string, *big.Int) {
		out, sum := map[string]string{}, new(big.Int)
		for _, e := range entries {
			who := e.Owner
			if byAlt {
				who = e.Alt
			}
			if e.Kind == kind && who == owner.String() && e.Amt.Sign() > 0 { // a cancelled stake stays stored with amount zero until its rewards are settled
				out[e.Id] = e.Amt.String()
				sum.Add(sum, e.Amt)
			}
		}
		return out, sum
	}
	same := func(a, b map[string]string) bool {
		if len(a) != len(b) {
			return false
		}
		for k, v := range a {
			if b[k] != v {
				return false
			}
		}
		return true
	}
	accounts := []types.Address{g.User1.Address, g.User2.Address, g.User3.Address, g.User4.Address, g.User5.Address}
	for _, k := range sentinelOwners {
		accounts = append(accounts, k.Address)
	}
	compared := 0
	for _, a := range accounts {
		// stakes
		want, sum := set("stake", a, false)
		if l, err := sa.GetEntriesByAddress(a, 0, 1024); err != nil {
			rep("stake.getEntriesByAddress", fmt.Sprintf("%v: %v", a, err))
		} else {
			got := map[string]string{}
			for _, e := range l.Entries {
				got[e.Id.String()] = e.Amount.String()
			}
			if !same(got, want) || l.TotalAmount.Cmp(sum) != 0 || l.Count != len(want) {
				rep("stake.getEntriesByAddress", fmt.Sprintf("%v: the query lists %d stakes totalling %v (count %d), the contract's storage holds %d totalling %v", a, len(got), l.TotalAmount, l.Count, len(want), sum))
			}
			compared++
		}
		// fusions made by the account, and the amount fused for it
		want, sum = set("fusion", a, false)
		if l, err := pl.GetEntriesByAddress(a, 0, 1024); err != nil {
			rep("plasma.getEntriesByAddress", fmt.Sprintf("%v: %v", a, err))
		} else {
			got := map[string]string{}
			for _, e := range l.Fusions {
				got[e.Id.String()] = e.QsrAmount.String()
			}
			if !same(got, want) || l.QsrAmount.Cmp(sum) != 0 || l.Count != len(want) {
				rep("plasma.getEntriesByAddress", fmt.Sprintf("%v: the query lists %d fusions totalling %v (count %d), the contract's storage holds %d totalling %v", a, len(got), l.QsrAmount, l.Count, len(want), sum))
			}
			compared++
		}
		_, fusedFor := set("fusion", a, true)
		if info, err := pl.Get(a); err != nil {
			rep("plasma.get", fmt.Sprintf("%v: %v", a, err))
		} else {
			if info.QsrAmount.Cmp(fusedFor) != 0 {
				rep("plasma.get", fmt.Sprintf("%v: the query says %v QSR are fused for the account, the fusion entries naming it as beneficiary add up to %v", a, info.QsrAmount, fusedFor))
			}
			if info.CurrentPlasma > info.MaxPlasma {
				rep("plasma.get-current-above-max", fmt.Sprintf("%v: current plasma %d above the maximum %d", a, info.CurrentPlasma, info.MaxPlasma))
			}
			compared++
		}
		// liquidity stakes
		want, _ = set("liquidity-stake", a, false)
		if l, err := li.GetLiquidityStakeEntriesByAddress(a, 0, 1024); err == nil && l != nil {
			got := map[string]string{}
			for _, e := range l.Entries {
				got[e.Id.String()] = e.Amount.String()
			}
			if !same(got, want) {
				rep("liquidity.getLiquidityStakeEntriesByAddress", fmt.Sprintf("%v: the query lists %d stakes, the contract's storage holds %d", a, len(got), len(want)))
			}
			compared++
		}
		// sentinel
		wantS, _ := set("sentinel-znn", a, false)
		if info, err := se.GetByOwner(a); err != nil {
			rep("sentinel.getByOwner", fmt.Sprintf("%v: %v", a, err))
		} else {
			if (info != nil && info.Active) != (len(wantS) > 0) {
				rep("sentinel.getByOwner", fmt.Sprintf("%v: the query says active sentinel = %v, the contract's storage holds %d collateral entries of the account", a, info != nil && info.Active, len(wantS)))
			}
			compared++
		}
		// deposited QSR
		for _, c := range []struct {
			name string
			addr types.Address
			get  func(types.Address) (string, error)
		}{{"pillar", types.PillarContract, pa.GetDepositedQsr}, {"sentinel", types.SentinelContract, se.GetDepositedQsr}} {
			dep := new(big.Int)
			for _, e := range entries {
				if e.Kind == "qsr-deposit" && e.C == c.addr.String() && e.Owner == a.String() {
					dep.Add(dep, e.Amt)
				}
			}
			if got, err := c.get(a); err != nil || got != dep.String() {
				rep(c.name+".getDepositedQsr", fmt.Sprintf("%v: the query says %s (%v), the contract's storage holds %v", a, got, err, dep))
			}
			compared++
		}
	}
	// pillars: every stored, not revoked pillar is listed with its owner, and the other way round; names are free exactly if unused
	stored := map[string]string{}
	for _, e := range entries {
		if e.Kind == "pillar" {
			stored[e.Id] = e.Owner
		}
	}
	if l, err := pa.GetAll(0, 1024); err == nil {
		got := map[string]string{}
		for _, x := range l.List {
			got[x.Name] = x.StakeAddress.String()
		}
		if !same(got, stored) {
			rep("pillar.getAll", fmt.Sprintf("the query lists pillars %v, the contract's storage holds collateral of %v", got, stored))
		}
		for name := range stored {
			if free, err := pa.CheckNameAvailability(name); err != nil || free {
				rep("pillar.checkNameAvailability", fmt.Sprintf("the name %q of a registered pillar is reported as available (%v)", name, err))
			}
			if x, err := pa.GetByName(name); err != nil || x == nil || x.StakeAddress.String() != stored[name] {
				rep("pillar.getByName", fmt.Sprintf("pillar %q: the query answers %v (%v), the storage says owner %s", name, x, err, stored[name]))
			}
			compared += 2
		}
		if free, err := pa.CheckNameAvailability("a-name-nobody-uses"); err != nil || !free {
			rep("pillar.checkNameAvailability", fmt.Sprintf("an unused name is reported as taken (%v)", err))
		}
	}
	// weights are quantities of the confirmed ledger (the consensus computes them from the frontier momentum): with an unconfirmed
	// send of every delegator in the pool, the weight a query reports for a delegation is still the delegator's confirmed balance,
	// and the pillars' weights are what they were
	weightsOf := func() string {
		l, err := pa.GetAll(0, 1024)
		if err != nil {
			return "error: " + err.Error()
		}
		out := ""
		for _, x := range l.List {
			out += fmt.Sprintf("%s=%v;", x.Name, x.Weight)
		}
		return out
	}
	wBefore := weightsOf()
	pooled := 0
	for _, k := range []*wallet.KeyPair{g.User1, g.User2, g.User3, g.User4, g.User5} {
		if _, err := p.Submit(&nom.AccountBlock{BlockType: nom.BlockTypeUserSend, Address: k.Address, ToAddress: g.Pillar8.Address, TokenStandard: types.ZnnTokenStandard, Amount: big.NewInt(100000000)}, k); err == nil {
			pooled++
		}
	}
	if pooled > 0 {
		for _, k := range []*wallet.KeyPair{g.User1, g.User2, g.User3, g.User4, g.User5} {
			d, err := pa.GetDelegatedPillar(k.Address)
			if err != nil || d == nil {
				continue
			}
			conf, _ := p.Chain.GetFrontierMomentumStore().GetAccountStore(k.Address).GetBalance(types.ZnnTokenStandard)
			if conf == nil {
				conf = big.NewInt(0)
			}
			if d.Balance == nil || d.Balance.Cmp(conf) != 0 {
				rep("pillar.getDelegatedPillar", fmt.Sprintf("%v delegates to %s: the query reports weight %v while the ledger at the frontier momentum holds %v ZNN for the account (an unconfirmed send of the account is in the pool)", k.Address, d.Name, d.Balance, conf))
			}
			compared++
		}
		if wAfter := weightsOf(); wAfter != wBefore {
			rep("pillar.getAll-weights", fmt.Sprintf("the pillars' weights change with unconfirmed blocks in the pool and no new momentum: %s, before: %s", wAfter, wBefore))
		}
		compared++
		core.Must(p.ProduceN(2))
	}
	run.Traces += int64(compared)
	run.Set("embedded_queries_compared_with_storage", fmt.Sprintf("%d answers (stake, fusion and liquidity-stake entries and totals, fused amount by beneficiary, sentinel status, deposited QSR of %d accounts; pillar list, names) compared with the entries the lab reads from the contracts' storage by its own iteration (%d entries)", compared, len(accounts), len(entries)))
}
