package checks

import "verif/lab/core"

// C16 — sync adopts only verified, strictly longer chains within the rollback window.
func C16(run *core.Run) {
	run.Assume = []string{
		"one abstract element = 15 real momentums, so that the abstract rollback window of 2 is the real window of 30; the exact 30/31 boundary is replayed by a dedicated scenario",
		"invalid elements are manufactured in six kinds (signature, producer, changes hash, missing / corrupt / unlisted account block), rotated over the behaviours",
		"the reading of the statement's second sentence (a node may end on a shorter chain after rollback-then-fail) is stated in DESIGN C16 and counted in the evidence",
	}
	every := int64(25)
	if run.Thorough() {
		every = 4
	}
	syncCheck(run, 4, 15, 2, every, syncOpts{})
	run.Finish()
}
