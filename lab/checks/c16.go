package checks

import (
	"fmt"
	"math/big"
	"time"

	g "github.com/zenon-network/go-zenon/chain/genesis/mock"
	"github.com/zenon-network/go-zenon/chain/nom"
	"github.com/zenon-network/go-zenon/common/types"

	"verif/lab/core"
	"verif/lab/node"
)

// C16 — sync adopts only verified, strictly longer chains within the rollback window.
func C16(run *core.Run) {
	run.Assume = []string{
		"one abstract element = 15 real momentums, so that the abstract rollback window of 2 is the real window of 30; the exact 30/31 boundary is replayed by a dedicated scenario",
		"invalid elements are manufactured in six kinds (signature, producer, changes hash, missing / corrupt / unlisted account block), rotated over the behaviours",
		"the reading of the statement's second sentence (a node may end on a shorter chain after rollback-then-fail) is stated in DESIGN C16 and counted in the evidence",
	}
	every := int64(25)
	if run.Thorough() {
		every = 4
	}
	syncCheck(run, 4, 15, 2, every, syncOpts{})
	// one element per election period: every element follows a silence of 61 slots (two election periods), so the period of an element elects from the previous element of its own branch, and a fork of two or three elements
	// meets periods the node has already elected for on the branch it leaves
	syncCheck(run, 4, 1, 30, every, syncOpts{label: "pass2(two election periods between elements) ", gap: 61})
	stalePooledScenario(run)
	staleFrontierScenario(run)
	phantomHeaderScenario(run)
	run.Finish()
}

// stalePooledScenario: a kind of invalid element that only exists relative to the node's pool. The node verified and pooled
// a block U that depends on its branch (it acknowledges the frontier / receives a send confirmed there); a longer branch is
// adopted; the rightful producer of the next slot then delivers a momentum that confirms U. On the adopted branch U fails
// verification, so the momentum is an "x" element of Sync.tla: OnlyVerified says it is refused.
func stalePooledScenario(run *core.Run) {
	for _, variant := range []string{"is-a-send-acknowledging-an-abandoned-momentum", "is-a-receive-acknowledging-an-abandoned-momentum"} {
		func() {
			node.Clock.Set(time.Unix(1000000000, 0))
			rep := map[string]interface{}{"kind": "stale-pooled-block", "variant": variant}
			p, err := node.New("stale-p", node.Options{Producer: true})
			if err != nil {
				core.Fatal("%v", err)
			}
			defer p.Stop()
			s0, err := p.Submit(&nom.AccountBlock{BlockType: nom.BlockTypeUserSend, Address: g.User1.Address, ToAddress: g.Pillar5.Address, TokenStandard: types.ZnnTokenStandard, Amount: big.NewInt(10)}, g.User1)
			core.Must(err)
			core.Must(p.ProduceN(3))
			base, err := p.Detailed(2, p.Height())
			core.Must(err)
			q, err := node.New("stale-q", node.Options{Producer: true})
			core.Must(err)
			defer q.Stop()
			a, err := node.New("stale-a", node.Options{})
			core.Must(err)
			defer a.Stop()
			for _, n := range []*node.Node{q, a} {
				if _, err := n.InsertChain(wireAll(base)); err != nil {
					core.Fatal("base: %v", err)
				}
			}
			// branch X (one momentum, confirms a send S to the idle account), branch Y (two momentums)
			_, err = p.Submit(&nom.AccountBlock{BlockType: nom.BlockTypeUserSend, Address: g.User1.Address, ToAddress: g.Pillar5.Address, TokenStandard: types.ZnnTokenStandard, Amount: big.NewInt(11)}, g.User1)
			core.Must(err)
			core.Must(p.Produce(0))
			x, err := p.Detailed(p.Height(), p.Height())
			core.Must(err)
			_, err = q.Submit(&nom.AccountBlock{BlockType: nom.BlockTypeUserSend, Address: g.User2.Address, ToAddress: g.User3.Address, TokenStandard: types.ZnnTokenStandard, Amount: big.NewInt(12)}, g.User2)
			core.Must(err)
			core.Must(q.Produce(1))
			core.Must(q.Produce(0))
			y, err := q.Detailed(q.Height()-1, q.Height())
			core.Must(err)
			if _, err := a.InsertChain(wireAll(x)); err != nil {
				core.Fatal("x: %v", err)
			}
			// U on the victim, valid on X
			tpl := &nom.AccountBlock{BlockType: nom.BlockTypeUserSend, Address: g.Pillar5.Address, ToAddress: g.User6.Address, TokenStandard: types.ZnnTokenStandard, Amount: big.NewInt(3)}
			if variant == "is-a-receive-acknowledging-an-abandoned-momentum" {
				tpl = &nom.AccountBlock{BlockType: nom.BlockTypeUserReceive, Address: g.Pillar5.Address, FromBlockHash: s0.Hash}
			}
			u, err := a.Submit(tpl, g.Pillar5)
			if err != nil {
				core.Fatal("U not accepted on its own branch: %v", err)
			}
			patch := a.Chain.GetPatch(u.Address, u.Identifier())
			if patch == nil {
				core.Fatal("no patch for the pooled block")
			}
			if _, err := a.InsertChain(wireAll(y)); err != nil {
				core.Fatal("the longer branch is refused: %v", err)
			}
			// the producer of the adopted branch confirms U (its pool takes what its owner puts there)
			uc, _ := node.WireBlock(u)
			ins := q.Chain.AcquireInsert("lab stale block")
			err = q.Chain.AddAccountBlockTransaction(ins, &nom.AccountBlockTransaction{Block: uc, Changes: patch})
			ins.Unlock()
			if err != nil {
				core.Fatal("producer pool refuses the block: %v", err)
			}
			ztx, err := q.GenerateMomentum(0)
			if err != nil {
				core.Fatal("generating the momentum that confirms U: %v", err)
			}
			core.Must(q.InsertOwn(ztx))
			z, err := q.Detailed(q.Height(), q.Height())
			core.Must(err)
			found := false
			for _, b := range z[0].AccountBlocks {
				if b.Hash == u.Hash {
					found = true
				}
			}
			if !found {
				core.Fatal("the crafted momentum does not confirm U")
			}
			// control: a node that never pooled U refuses the momentum
			c, err := node.New("stale-c", node.Options{})
			core.Must(err)
			defer c.Stop()
			if _, err := c.InsertChain(wireAll(append(append([]*nom.DetailedMomentum{}, base...), y...))); err != nil {
				core.Fatal("control: %v", err)
			}
			if _, err := c.InsertChain(wireAll(z)); err == nil {
				core.Fatal("control node adopts the momentum confirming %s: the element is not invalid", variant)
			}
			_, err = a.InsertChain(wireAll(z))
			run.Traces++
			run.Count("stale_pooled_block_scenarios", 1)
			if err == nil || a.Frontier().Hash == z[0].Momentum.Hash {
				run.Report("C16:adopts-momentum-confirming-stale-pooled-block-"+variant, fmt.Sprintf("the node pooled a block that %s, adopted the longer branch, and then adopted a momentum confirming that block although the block fails verification on the adopted branch (InsertChain error: %v)", variant, err), rep)
			}
		}()
	}
}

// staleFrontierScenario: a side chain is delivered while another inserter holds the insert lock and extends the node's chain
// past the side chain's tail. The adoption rule is evaluated when the delivery takes effect, i.e. against the frontier it finds
// once it holds the lock: the side chain is then not strictly longer and is refused (Sync.tla's AdoptionRule; the gate is the
// node's own insert lock, taken by the lab).
func staleFrontierScenario(run *core.Run) {
	node.Clock.Set(time.Unix(1000000000, 0))
	rep := map[string]interface{}{"kind": "stale-frontier"}
	p, err := node.New("stale-frontier-p", node.Options{Producer: true})
	core.Must(err)
	defer p.Stop()
	core.Must(p.ProduceN(7)) // heights 2..8
	base, err := p.Detailed(2, 8)
	core.Must(err)
	q, err := node.New("stale-frontier-q", node.Options{Producer: true})
	core.Must(err)
	defer q.Stop()
	_, err = q.InsertChain(wireAll(base))
	core.Must(err)
	core.Must(p.ProduceN(6)) // the node's chain A: 9..14
	a, err := p.Detailed(9, 14)
	core.Must(err)
	_, err = q.Submit(&nom.AccountBlock{BlockType: nom.BlockTypeUserSend, Address: g.User2.Address, ToAddress: g.User3.Address, TokenStandard: types.ZnnTokenStandard, Amount: big.NewInt(21)}, g.User2)
	core.Must(err)
	core.Must(q.Produce(1))
	core.Must(q.ProduceN(3)) // the side chain S: 9'..12'
	s, err := q.Detailed(9, 12)
	core.Must(err)
	f, err := node.New("stale-frontier-f", node.Options{})
	core.Must(err)
	defer f.Stop()
	node.Clock.Set(time.Unix(1000000000, 0).Add(24 * time.Hour))
	if _, err := f.InsertChain(wireAll(append(append([]*nom.DetailedMomentum{}, base...), a[:2]...))); err != nil { // the node is at height 10
		core.Fatal("stale-frontier follower: %v", err)
	}
	gate := f.Chain.AcquireInsert("lab gate")
	type result struct {
		idx int
		err error
	}
	done := make(chan result, 1)
	go func() {
		idx, err := f.InsertChain(wireAll(s)) // longer than the node's chain now (12 > 10)
		done <- result{idx, err}
	}()
	time.Sleep(400 * time.Millisecond)
	// the other inserter extends the chain to 14 under the lock (the inner loop of InsertChain with the same calls)
	for _, dm := range wireAll(a[2:]) {
		for _, blk := range dm.AccountBlocks {
			if blk.BlockType == nom.BlockTypeContractSend || f.Chain.GetPatch(blk.Address, blk.Identifier()) != nil {
				continue
			}
			tx, err := f.Sup.ApplyBlock(blk)
			if err != nil {
				gate.Unlock()
				core.Fatal("stale-frontier: applying a block of the extension: %v", err)
			}
			if err := f.Chain.ForceAddAccountBlockTransaction(gate, tx); err != nil {
				gate.Unlock()
				core.Fatal("stale-frontier: %v", err)
			}
		}
		mtx, err := f.Sup.ApplyMomentum(dm)
		if err != nil {
			gate.Unlock()
			core.Fatal("stale-frontier: applying a momentum of the extension: %v", err)
		}
		if err := f.Chain.AddMomentumTransaction(gate, mtx); err != nil {
			gate.Unlock()
			core.Fatal("stale-frontier: %v", err)
		}
	}
	gate.Unlock()
	var r result
	select {
	case r = <-done:
	case <-time.After(30 * time.Second):
		core.Fatal("stale-frontier: the delivery does not return")
	}
	run.Traces++
	run.Count("stale_frontier_scenarios", 1)
	fr := f.Frontier()
	if fr.Hash != a[len(a)-1].Momentum.Hash || r.err == nil {
		run.Report("C16:adopts-side-chain-that-is-not-longer-when-it-takes-effect", fmt.Sprintf("a side chain ending at height 12 was delivered while another inserter extended the node's chain from 10 to 14: the delivery returned (%d, %v) and the node's frontier is %v at height %d - it left a chain of 14 for one of 12", r.idx, r.err, fr.Hash, fr.Height), rep)
	}
}

// phantomHeaderScenario: the rightful producer signs a momentum whose content lists, besides what the honest momentum lists,
// the header of a contract send that no contract ever produced (the block is delivered along). Hash, signature, producer and
// changes hash are right - the changes of a momentum do not depend on a block that has no patch. It is an invalid element
// (a content entry without a verified account block behind it): refused.
func phantomHeaderScenario(run *core.Run) {
	node.Clock.Set(time.Unix(1000000000, 0))
	rep := map[string]interface{}{"kind": "phantom-content-header"}
	p, err := node.New("phantom-p", node.Options{Producer: true})
	core.Must(err)
	defer p.Stop()
	_, err = p.Submit(&nom.AccountBlock{BlockType: nom.BlockTypeUserSend, Address: g.User1.Address, ToAddress: g.User2.Address, TokenStandard: types.ZnnTokenStandard, Amount: big.NewInt(10)}, g.User1)
	core.Must(err)
	core.Must(p.ProduceN(4))
	base, err := p.Detailed(2, p.Height())
	core.Must(err)
	a, err := node.New("phantom-a", node.Options{})
	core.Must(err)
	defer a.Stop()
	_, err = a.InsertChain(wireAll(base))
	core.Must(err)
	_, err = p.Submit(&nom.AccountBlock{BlockType: nom.BlockTypeUserSend, Address: g.User1.Address, ToAddress: g.User3.Address, TokenStandard: types.ZnnTokenStandard, Amount: big.NewInt(11)}, g.User1)
	core.Must(err)
	tx, err := p.GenerateMomentum(0)
	core.Must(err)
	m := tx.Momentum
	var honest []*nom.AccountBlock
	for _, h := range m.Content {
		blk, err := p.Chain.GetFrontierAccountStore(h.Address).ByHash(h.Hash)
		if err != nil || blk == nil {
			core.Fatal("phantom: content block not found: %v", err)
		}
		honest = append(honest, blk)
	}
	// the phantom: a send of the plasma contract that nothing produced
	cfr, err := p.Chain.GetFrontierAccountStore(types.PlasmaContract).Frontier()
	core.Must(err)
	ph := &nom.AccountBlock{Version: 1, ChainIdentifier: m.ChainIdentifier, BlockType: nom.BlockTypeContractSend, Address: types.PlasmaContract, ToAddress: g.User6.Address,
		Amount: big.NewInt(100000000), TokenStandard: types.QsrTokenStandard, MomentumAcknowledged: p.Frontier().Identifier(), Data: []byte{}}
	if cfr != nil {
		ph.Height, ph.PreviousHash = cfr.Height+1, cfr.Hash
	} else {
		ph.Height = 1
	}
	ph.Hash = ph.ComputeHash()
	forged := *m
	forged.Content = append(append([]*types.AccountHeader{}, m.Content...), &types.AccountHeader{Address: ph.Address, HashHeight: types.HashHeight{Hash: ph.Hash, Height: ph.Height}})
	forged.Hash = types.ZeroHash
	forged.Hash = forged.ComputeHash()
	producer, err := p.Cons.GetMomentumProducer(*m.Timestamp)
	core.Must(err)
	signed := false
	for _, k := range g.PillarKeys {
		if k.Address == *producer {
			forged.PublicKey = k.Public
			forged.Signature = k.Sign(forged.Hash.Bytes())
			signed = true
		}
	}
	if !signed {
		core.Fatal("phantom: no key for the producer")
	}
	dm := &nom.DetailedMomentum{Momentum: &forged, AccountBlocks: append(honest, ph)}
	w, err := node.Wire(dm)
	core.Must(err)
	node.Clock.Set(m.Timestamp.Add(time.Hour))
	// the honest momentum is acceptable (control on a second node): the forged one differs only by the phantom
	c, err := node.New("phantom-c", node.Options{})
	core.Must(err)
	defer c.Stop()
	_, err = c.InsertChain(wireAll(base))
	core.Must(err)
	hw, _ := node.Wire(&nom.DetailedMomentum{Momentum: m, AccountBlocks: honest})
	if _, err := c.InsertChain([]*nom.DetailedMomentum{hw}); err != nil {
		core.Fatal("phantom: the honest momentum is refused: %v", err)
	}
	_, err = a.InsertChain([]*nom.DetailedMomentum{w})
	run.Traces++
	run.Count("phantom_content_header_scenarios", 1)
	if err == nil || a.Frontier().Hash == forged.Hash {
		run.Report("C16:adopts-momentum-with-a-content-header-nothing-verified", fmt.Sprintf("a momentum by the rightful producer whose content lists a contract send that no contract produced is adopted (InsertChain error: %v): the node holds a momentum with a content entry that no verified account block stands behind", err), rep)
	}
}
