package checks

import (
	"fmt"
	"os"
	"sync"
	"time"

	"verif/lab/core"
)

const vsCrashCfg = `CONSTANTS
  MaxH = %d
  Tags = {"a","b","c","d","e"}
  Granularity = "%s"
INIT Init
NEXT Next
INVARIANTS CrashAtomic %s
CHECK_DEADLOCK FALSE
`

// C08 — committing or rolling back is atomic across a crash.
func C08(run *core.Run) {
	run.Level = "model_checking"
	run.Assume = []string{
		"fault model: the process dies between two writes to the underlying database (journal ends at a record boundary, or inside a record = torn write, which goleveldb drops); not torn sectors / lost fsync after power failure",
		"goleveldb's journal replay is trusted",
	}
	maxH := 3
	if run.Thorough() {
		maxH = 4
	}
	res, err := core.RunTLC(core.TLCOpts{Module: "VStoreCrash", CfgText: fmt.Sprintf(vsCrashCfg, maxH, "batch", "WritesPerOp"), Timeout: 10 * time.Minute})
	if err != nil || res.Violated != "" || res.Err != "" {
		core.Fatal("VStoreCrash(batch): %v %s %s", err, res.Violated, res.Err)
	}
	run.States += res.Distinct
	run.Transitions += res.Generated
	nc, err := core.RunTLC(core.TLCOpts{Module: "VStoreCrash", CfgText: fmt.Sprintf(vsCrashCfg, maxH, "perKey", ""), Timeout: 10 * time.Minute})
	if err != nil || nc.Violated != "CrashAtomic" {
		core.Fatal("negative control: per-key write granularity must be refuted by TLC (got %v %+v)", err, nc)
	}
	run.Set("negative_controls", []string{"per-key writes (code as found, F4) -> TLC refutes CrashAtomic"})

	var mu sync.Mutex
	recHist := map[string]int64{}
	var points, ops, skipped, continued int64
	wideEvery, heavyMax := int64(40), 8
	if run.Thorough() {
		wideEvery, heavyMax = 4, 80
	}
	heavyDone := map[string]int{}
	cfg := vsCfg(2, 1, "abcde", true, true, true, true, true, vsGenTail)
	_, st := vsGenerateAndReplayCfg(run, cfg, nil, func(b *vsBehaviour, n int64, scratch string) {
		last := b.Steps[len(b.Steps)-1]
		if !(last.A == "Commit" || last.A == "Pop") {
			return
		}
		conc := vsConcs[int((n+run.Seed)%int64(len(vsConcs)))]
		if (n+run.Seed)%wideEvery == 0 && last.R == "ok" {
			// momentum-sized patches: every abstract key stands for 700 real keys
			wide := vsConc{Name: "wide-700", Keys: vsConcs[0].Keys, Width: 700}
			rw, err := vsCrashReplay(run, wide, b, scratch)
			if err != nil {
				core.Fatal("crash replay infrastructure (wide): %v", err)
			}
			mu.Lock()
			if !rw.skipped {
				recHist[fmt.Sprintf("wide %s/%s: %d journal record(s)", last.A, last.R, rw.records)]++
				points += int64(rw.points)
			}
			mu.Unlock()
		}
		mu.Lock()
		doHeavy := last.R == "ok" && (n+run.Seed)%7 == 0 && heavyDone[last.A] < heavyMax
		if doHeavy {
			heavyDone[last.A]++
		}
		mu.Unlock()
		if doHeavy {
			// patches of more than a megabyte: 400 keys of 4 KiB per abstract key (a momentum full of data-carrying blocks)
			heavy := vsConc{Name: "heavy-400x4k", Keys: vsConcs[0].Keys, Width: 400, Heavy: 4000}
			rh, err := vsCrashReplay(run, heavy, b, scratch)
			if err != nil {
				core.Fatal("crash replay infrastructure (heavy): %v", err)
			}
			mu.Lock()
			if !rh.skipped {
				recHist[fmt.Sprintf("heavy %s/%s: %d journal record(s)", last.A, last.R, rh.records)]++
				points += int64(rh.points)
			}
			mu.Unlock()
		}
		r, err := vsCrashReplay(run, conc, b, scratch)
		if err != nil {
			core.Fatal("crash replay infrastructure: %v", err)
		}
		mu.Lock()
		ops++
		if r.skipped {
			skipped++
		} else {
			recHist[fmt.Sprintf("%s/%s: %d journal record(s)", last.A, last.R, r.records)]++
			points += int64(r.points)
			continued += int64(r.continued)
		}
		mu.Unlock()
		if n%15000 == 2 {
			run.AddSample(map[string]interface{}{"behaviour": b.Steps, "operation_under_crash": last, "journal_records": r.records, "crash_states_checked": r.points})
		}
	})
	run.Traces += ops
	run.Set("generated_behaviours", st.Behaviours)
	run.Set("operations_crashed", ops)
	run.Set("crash_states_checked", points)
	run.Set("continuations_checked", continued)
	run.Set("operations_skipped_file_rotation", skipped)
	run.Set("journal_records_per_operation", recHist)
	run.Set("exhaustive", true)
	if ops == 0 || points == 0 {
		core.Fatal("vacuity: no crash point explored")
	}
	if run.Thorough() {
		c08Chain(run, 6)
	} else {
		c08Chain(run, 2)
	}
	run.Finish()
}

type crashResult struct {
	records, points, continued int
	skipped                    bool
}

func vsCrashReplay(run *core.Run, conc vsConc, b *vsBehaviour, scratch string) (cr crashResult, err error) {
	dir, e := os.MkdirTemp(scratch, "vc-")
	if e != nil {
		return cr, e
	}
	defer os.RemoveAll(dir)
	live := dir + "/live"
	os.MkdirAll(live, 0o755)
	t := &vsTarget{kind: "ldb", dir: live}
	t.open()
	stopped := false
	defer func() {
		if !stopped {
			t.m.Stop()
		}
	}()
	n := len(b.Steps)
	for _, s := range b.Steps[:n-1] {
		if _, e := t.exec(conc, s); e != nil {
			return cr, e
		}
	}
	d0, e := snapDir(live)
	if e != nil {
		return cr, e
	}
	last := b.Steps[n-1]
	if _, e := t.exec(conc, last); e != nil {
		return cr, e
	}
	d1, e := snapDir(live)
	if e != nil {
		return cr, e
	}
	t.m.Stop()
	stopped = true
	pts, nrec, ok, e := crashPoints(d0, d1)
	if e != nil {
		return cr, e
	}
	if !ok {
		cr.skipped = true
		return cr, nil
	}
	cr.records = nrec
	dumpOf := func(s dirSnap, name string) (map[string]string, error) {
		p := dir + "/" + name
		if e := s.write(p); e != nil {
			return nil, e
		}
		defer os.RemoveAll(p)
		return rawDump(p)
	}
	before, e := dumpOf(d0, "before")
	if e != nil {
		return cr, e
	}
	after, e := dumpOf(d1, "after")
	if e != nil {
		return cr, e
	}
	replay := func(extra map[string]interface{}) map[string]interface{} {
		m := map[string]interface{}{"kind": "vstore-crash", "concretisation": conc.Name, "behaviour": b}
		for k, v := range extra {
			m[k] = v
		}
		return m
	}
	// the crash-free result must be what the specification predicts
	if mm, e := func() ([]vsMismatch, error) {
		p := dir + "/after-check"
		if e := d1.write(p); e != nil {
			return nil, e
		}
		defer os.RemoveAll(p)
		return vsCheckRaw(conc, p, b.Obs)
	}(); e != nil {
		return cr, e
	} else if len(mm) > 0 && (last.R == "ok") && conc.Width <= 1 {
		// reported by C07; here it only means the oracle states are not trustworthy
		return cr, nil
	}
	for i, pt := range pts {
		p := fmt.Sprintf("%s/crash-%d", dir, i)
		if e := pt.Files.write(p); e != nil {
			return cr, e
		}
		got, e := rawDump(p)
		if e != nil {
			run.Report("C08:unreadable-after-crash-"+last.A, fmt.Sprintf("store unreadable after a stop at write %d of %s: %v", pt.K, last.A, e), replay(map[string]interface{}{"crash_after_record": pt.K, "torn": pt.Torn}))
			os.RemoveAll(p)
			continue
		}
		cr.points++
		isBefore, isAfter := dumpEq(got, before), dumpEq(got, after)
		if !isBefore && !isAfter {
			run.Report("C08:mixture-after-crash-"+last.A,
				fmt.Sprintf("process stopped after %d of %d database writes of %s (torn=%v): after restart the store is neither the state before (diff: %s) nor the state after (diff: %s)",
					pt.K, nrec, last.A, pt.Torn, dumpDiff(before, got), dumpDiff(after, got)),
				replay(map[string]interface{}{"crash_after_record": pt.K, "of_records": nrec, "torn": pt.Torn}))
			os.RemoveAll(p)
			continue
		}
		// Continue: reopen with the real manager, re-deliver the operation if it was lost, compare with the crash-free twin
		t2 := &vsTarget{kind: "ldb", dir: p}
		t2.open()
		if isBefore && !isAfter {
			if _, e := t2.exec(conc, last); e != nil {
				t2.m.Stop()
				return cr, e
			}
		}
		t2.m.Stop()
		final, e := rawDump(p)
		if e != nil {
			return cr, e
		}
		cr.continued++
		if !dumpEq(final, after) {
			run.Report("C08:continue-diverges-"+last.A,
				fmt.Sprintf("after a stop at write %d of %s and re-delivery the store differs from the crash-free run: %s", pt.K, last.A, dumpDiff(after, final)),
				replay(map[string]interface{}{"crash_after_record": pt.K, "torn": pt.Torn}))
		}
		os.RemoveAll(p)
	}
	return cr, nil
}
