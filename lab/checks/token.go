package checks

import (
	"encoding/json"
	"fmt"
	"math/big"
	"time"

	g "github.com/zenon-network/go-zenon/chain/genesis/mock"
	"github.com/zenon-network/go-zenon/chain/nom"
	"github.com/zenon-network/go-zenon/common/types"
	"github.com/zenon-network/go-zenon/vm/constants"
	"github.com/zenon-network/go-zenon/vm/embedded/definition"
	"github.com/zenon-network/go-zenon/wallet"

	"verif/lab/core"
	"verif/lab/ledger"
	"verif/lab/node"
	"verif/lab/walk"
)

// Token.tla replayed on a real producing node: every behaviour gets a token of its own, so a batch of behaviours runs side by
// side (step k of all of them in one momentum); after every step the token's record and the holdings of every holder are
// compared with the specification's state.

type tokenRec struct {
	Ex    bool   `json:"ex"`
	Owner string `json:"owner"`
	Total int64  `json:"total"`
	Max   int64  `json:"max"`
	Mint  bool   `json:"mint"`
	Burn  bool   `json:"burn"`
}
type tokenState struct {
	Tok  tokenRec         `json:"tok"`
	Hold map[string]int64 `json:"hold"`
}
type tokenStep struct {
	A  string     `json:"a"`
	C  string     `json:"c"`
	To string     `json:"to"`
	O  string     `json:"o"`
	N  int64      `json:"n"`
	T  int64      `json:"t"`
	M  int64      `json:"m"`
	Mi bool       `json:"mi"`
	Bu bool       `json:"bu"`
	R  string     `json:"r"`
	St tokenState `json:"st"`
}
type tokenBehaviour struct {
	Steps []tokenStep `json:"steps"`
}

const tokenCfg = `CONSTANTS
  Users = {"u1","u2"}
  MaxUnits = 3
  WithHist = %s
INIT Init
NEXT Next
%s
CHECK_DEADLOCK FALSE
`

// the concrete size of one abstract unit
var tokenUnits = []*big.Int{big.NewInt(1), new(big.Int).Exp(big.NewInt(10), big.NewInt(18), nil), new(big.Int).Div(constants.TokenMaxSupplyBig, big.NewInt(3))}

type tokenLive struct {
	b    *tokenBehaviour
	id   int
	unit *big.Int
	zts  types.ZenonTokenStandard
	dead bool
}

func tokenCheck(run *core.Run, prop string) []ledgerRun {
	inv := "INVARIANTS SupplyIsHeld WithinMax FrozenWhenNotMintable\nPROPERTIES MaxNeverGrows MintableOffForGood SupplyMovesWithOneHolder\nVIEW GenView"
	res, err := core.RunTLC(core.TLCOpts{Module: "Token", CfgText: fmt.Sprintf(tokenCfg, "FALSE", inv), Timeout: 10 * time.Minute})
	if err != nil || res.Violated != "" || res.Err != "" {
		core.Fatal("Token: %v %s %s", err, res.Violated, res.Err)
	}
	run.States += res.Distinct
	run.Transitions += res.Generated
	// for ALL amounts: the conjunction of the invariants is inductive (Apalache, TokenInd.tla = Token.tla with amounts in Nat)
	for _, c := range []struct {
		what, want string
		args       []string
	}{
		{"base case", "ok", []string{"--cinit=CInitOK", "--init=Init", "--inv=IndInv", "--length=0"}},
		{"inductive step", "ok", []string{"--cinit=CInitOK", "--init=IndInit", "--inv=IndInv", "--length=1"}},
		{"negative control (Mint ignores the remaining supply)", "violated", []string{"--cinit=CInitBroken", "--init=IndInit", "--inv=IndInv", "--length=1"}},
	} {
		got, err := core.RunApalache("TokenInd", 5*time.Minute, c.args...)
		if err != nil || got != c.want {
			core.Fatal("TokenInd %s: %s, expected %s (%v)", c.what, got, c.want, err)
		}
	}
	run.Set("token_inductive_invariant", "Apalache: IndInv (TypeOK, SupplyIsHeld, WithinMax, FrozenWhenNotMintable, NothingBeforeIssue, OwnerIsUser) holds initially and is preserved by every action for all natural amounts; refuted when Mint does not look at the remaining supply")
	every := int64(5)
	if run.Thorough() {
		every = 1
	}
	var behaviours []*tokenBehaviour
	var total int64
	_, err = core.RunTLC(core.TLCOpts{Module: "Token", CfgText: fmt.Sprintf(tokenCfg, "TRUE", "VIEW GenView\nACTION_CONSTRAINT EmitEdge"), Workers: 1, Timeout: 10 * time.Minute,
		OnLine: func(line string) {
			js, ok := core.ParseB(line, "B")
			if !ok {
				return
			}
			total++
			if (total+run.Seed)%every != 0 {
				return
			}
			var b tokenBehaviour
			if json.Unmarshal([]byte(js), &b) == nil {
				behaviours = append(behaviours, &b)
			}
		}})
	if err != nil || len(behaviours) == 0 {
		core.Fatal("Token generation: %v (%d behaviours)", err, len(behaviours))
	}
	walk.LabConstants()
	node.Clock.Set(time.Unix(1000000000, 0))
	cap := ledger.StartCapture()
	defer cap.Stop()
	p, err := node.New("token", node.Options{Producer: true})
	if err != nil {
		core.Fatal("%v", err)
	}
	defer p.Stop()
	w := walk.New(p, run.Seed)
	id, err := w.ActivateSpork("spork-htlc")
	if err != nil {
		core.Fatal("%v", err)
	}
	setHtlcSpork(id)
	users := map[string]*wallet.KeyPair{"u1": g.User1, "u2": g.User2}
	sink := types.AcceleratorContract
	addrOf := func(h string) types.Address {
		if h == "sink" {
			return sink
		}
		return users[h].Address
	}
	for _, u := range users {
		if _, err := p.Submit(&nom.AccountBlock{BlockType: nom.BlockTypeUserSend, Address: u.Address, ToAddress: types.PlasmaContract, TokenStandard: types.QsrTokenStandard,
			Amount: unitsOf(8000), Data: definition.ABIPlasma.PackMethodPanic(definition.FuseMethodName, u.Address)}, u); err != nil {
			core.Fatal("token replay: fuse refused: %v", err)
		}
	}
	core.Must(p.ProduceN(3))
	outcomes := map[string]int{}
	stepsDone, compared := 0, 0
	report := func(l *tokenLive, key, what string) {
		js, _ := json.Marshal(l.b.Steps)
		run.ReportFor(prop, prop+":token-"+key, what+fmt.Sprintf(" (unit %v; behaviour %s)", l.unit, tail(string(js), 1200)), map[string]interface{}{"kind": "token-behaviour", "behaviour": l.b, "unit": l.unit.String()})
		l.dead = true
	}
	mul := func(n int64, unit *big.Int) *big.Int { return new(big.Int).Mul(big.NewInt(n), unit) }
	const batch = 16
	for from := 0; from < len(behaviours); from += batch {
		to := from + batch
		if to > len(behaviours) {
			to = len(behaviours)
		}
		if from == 10*batch {
			cap.Stop() // the trace of the first ten batches is validated against LedgerTrace.tla; the state maps of a longer one make TLC crawl
		}
		var live []*tokenLive
		maxLen := 0
		for i := from; i < to; i++ {
			l := &tokenLive{b: behaviours[i], id: i, unit: tokenUnits[(i+int(run.Seed))%len(tokenUnits)]}
			// a token standard nobody has issued, for calls before the issue
			l.zts = types.NewZenonTokenStandard(types.NewHash([]byte(fmt.Sprintf("no-such-token-%d", i))).Bytes())
			live = append(live, l)
			if n := len(l.b.Steps); n > maxLen {
				maxLen = n
			}
		}
		for k := 0; k < maxLen; k++ {
			type pend struct {
				l   *tokenLive
				blk *nom.AccountBlock
			}
			var sent []pend
			for _, l := range live {
				if l.dead || k >= len(l.b.Steps) {
					continue
				}
				s := l.b.Steps[k]
				key := users[s.C]
				tpl := &nom.AccountBlock{BlockType: nom.BlockTypeUserSend, Address: key.Address, ToAddress: types.TokenContract, TokenStandard: types.ZeroTokenStandard, Amount: big.NewInt(0)}
				switch s.A {
				case "Issue":
					tpl.TokenStandard, tpl.Amount = types.ZnnTokenStandard, constants.TokenIssueAmount
					tpl.Data = definition.ABIToken.PackMethodPanic(definition.IssueMethodName, fmt.Sprintf("lab-%d", l.id), "LAB", "", mul(s.T, l.unit), mul(s.M, l.unit), uint8(l.id%19), s.Mi, s.Bu, l.id%2 == 0)
				case "Mint":
					tpl.Data = definition.ABIToken.PackMethodPanic(definition.MintMethodName, l.zts, mul(s.N, l.unit), addrOf(s.To))
				case "Burn":
					tpl.TokenStandard, tpl.Amount = l.zts, mul(s.N, l.unit)
					tpl.Data = definition.ABIToken.PackMethodPanic(definition.BurnMethodName)
				case "Update":
					tpl.Data = definition.ABIToken.PackMethodPanic(definition.UpdateTokenMethodName, l.zts, users[s.O].Address, s.Mi, s.Bu)
				case "Transfer":
					tpl.ToAddress, tpl.TokenStandard, tpl.Amount = users[s.To].Address, l.zts, mul(s.N, l.unit)
				default:
					core.Fatal("token replay: unknown action %q", s.A)
				}
				blk, err := p.Submit(tpl, key)
				stepsDone++
				outcomes[s.A+"/"+s.R]++
				if (err != nil) != (s.R == "rejected") {
					report(l, fmt.Sprintf("%s-specified-%s-send-error-%v", s.A, s.R, err != nil), fmt.Sprintf("step %d (%s): sending the call gives %v, the specification says %s", k+1, s.A, err, s.R))
					continue
				}
				if err == nil {
					if s.A == "Issue" {
						l.zts = types.NewZenonTokenStandard(blk.Hash.Bytes())
					}
					sent = append(sent, pend{l, blk})
				}
			}
			core.Must(p.ProduceN(2))
			for _, u := range users {
				w.ReceivePending(u)
			}
			core.Must(p.Produce(0))
			ms := p.Chain.GetFrontierMomentumStore()
			store := ms.GetAccountStore(types.TokenContract).Storage()
			for _, sd := range sent {
				l, s := sd.l, sd.l.b.Steps[k]
				if s.A != "Transfer" {
					rb, err := ms.GetBlockWhichReceives(sd.blk.Hash)
					if err != nil || rb == nil {
						run.ReportFor("C09", "C09:token-call-not-received", fmt.Sprintf("a %s call to the token contract was not received within three momentums", s.A), map[string]interface{}{"kind": "token-behaviour", "behaviour": l.b})
						l.dead = true
						continue
					}
					if ok := len(rb.Data) == 8 && rb.Data[7] == 1; ok != (s.R == "ok") {
						report(l, fmt.Sprintf("%s-specified-%s-executed-%v", s.A, s.R, ok), fmt.Sprintf("step %d: %s by %s: the contract's receive reports success=%v, the specification says %s", k+1, s.A, s.C, ok, s.R))
						continue
					}
				}
			}
			for _, l := range live {
				if l.dead || k >= len(l.b.Steps) {
					continue
				}
				s := l.b.Steps[k]
				compared++
				ti, err := definition.GetTokenInfo(store, l.zts)
				if (err == nil) != s.St.Tok.Ex {
					report(l, "record-existence-differs", fmt.Sprintf("after step %d (%s) the token's record exists=%v, the specification says %v", k+1, s.A, err == nil, s.St.Tok.Ex))
					continue
				}
				if err == nil {
					want := s.St.Tok
					if ti.Owner != users[want.Owner].Address || ti.IsMintable != want.Mint || ti.IsBurnable != want.Burn ||
						ti.TotalSupply.Cmp(mul(want.Total, l.unit)) != 0 || ti.MaxSupply.Cmp(mul(want.Max, l.unit)) != 0 {
						report(l, "record-differs-after-"+s.A, fmt.Sprintf("after step %d (%s) the token's record is owner %v total %v max %v mintable %v burnable %v; the specification says owner %s total %d max %d (units) mintable %v burnable %v",
							k+1, s.A, ti.Owner, ti.TotalSupply, ti.MaxSupply, ti.IsMintable, ti.IsBurnable, want.Owner, want.Total, want.Max, want.Mint, want.Burn))
						continue
					}
				}
				for h, n := range s.St.Hold {
					bal, _ := p.Chain.GetFrontierAccountStore(addrOf(h)).GetBalance(l.zts)
					if bal == nil {
						bal = big.NewInt(0)
					}
					if bal.Cmp(mul(n, l.unit)) != 0 {
						report(l, "holding-differs-after-"+s.A, fmt.Sprintf("after step %d (%s) %s holds %v, the specification says %d units", k+1, s.A, h, bal, n))
						break
					}
				}
			}
		}
		run.Traces += int64(len(live))
	}
	for _, pb := range p.Problems {
		run.ReportFor("C09", "C09:producer-problem", "producing pillar reported: "+pb+" (token replay)", nil)
	}
	run.Set("token_behaviours", fmt.Sprintf("%d transitions in the edge cover of Token.tla (2 users, amounts 0..3 units), every %d-th replayed: %d behaviours, %d steps, %d comparisons of the token's record and every holder's balance with the specification's state; three sizes of the unit (1, 10^18, a third of the largest admissible maximum)",
		total, every, len(behaviours), stepsDone, compared))
	run.Set("token_outcomes", outcomes)
	if outcomes["Mint/ok"] == 0 || outcomes["Mint/refund"] == 0 || outcomes["Burn/ok"] == 0 || outcomes["Burn/refund"] == 0 || outcomes["Update/ok"] == 0 || outcomes["Issue/rejected"] == 0 {
		core.Fatal("vacuity: token replay outcomes %v", outcomes)
	}
	ids := cap.ChainIDs()
	pr := ledger.NewProjector()
	pr.Observer = ledger.StandardObserver(walk.EpochMomentums)
	if err := cap.Project(ids[0], pr); err != nil {
		core.Fatal("%v", err)
	}
	return []ledgerRun{{Name: "token replay on one producer (first ten batches)", Events: pr.Events, Note: pr.Note}}
}
