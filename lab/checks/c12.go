package checks

import (
	"bytes"
	"encoding/binary"
	"encoding/json"
	"fmt"
	"math/big"
	"math/rand"
	"strconv"
	"time"

	g "github.com/zenon-network/go-zenon/chain/genesis/mock"
	"github.com/zenon-network/go-zenon/chain/nom"
	"github.com/zenon-network/go-zenon/common/crypto"
	"github.com/zenon-network/go-zenon/common/types"
	"github.com/zenon-network/go-zenon/pow"
	"github.com/zenon-network/go-zenon/vm/constants"
	"github.com/zenon-network/go-zenon/vm/embedded/definition"
	"github.com/zenon-network/go-zenon/wallet"

	"verif/lab/core"
	"verif/lab/ledger"
	"verif/lab/node"
	"verif/lab/walk"
)

const powTraceCfg = `CONSTANTS
  TraceFile = "trace.ndjson"
INIT TInit
NEXT TNext
CONSTRAINT HighWater
POSTCONDITION Accepted
CHECK_DEADLOCK FALSE
`
const plasmaCfg = `CONSTANTS
  Base = 21000
  Cap = 10500000
  FusedValues = {0, 21000, 42000}
  WithHist = %s
INIT Init
NEXT Next
%s
CHECK_DEADLOCK FALSE
`

type powEvent struct {
	Ev     string        `json:"ev"`
	D      ledger.Digits `json:"d"`
	H      ledger.Digits `json:"h"`
	Q      ledger.Digits `json:"q"`
	R      ledger.Digits `json:"r"`
	Result bool          `json:"result"`
	Note   string        `json:"note"`
}

func powHashValue(b *nom.AccountBlock) uint64 {
	dataHash := pow.GetAccountBlockHash(b)
	calc := make([]byte, 40)
	n := copy(calc, b.Nonce.Serialize())
	copy(calc[n:], dataHash[:])
	return binary.LittleEndian.Uint64(crypto.Hash(calc)[:8])
}

// labPowOK: does the block's nonce hash at or above 2^64 - 2^64/d ? (independent of pow.CheckPoWNonce)
func labPowOK(b *nom.AccountBlock) bool {
	if b.Difficulty == 0 {
		return true
	}
	two64 := new(big.Int).Lsh(big.NewInt(1), 64)
	thr := new(big.Int).Sub(two64, new(big.Int).Quo(two64, new(big.Int).SetUint64(b.Difficulty)))
	return new(big.Int).SetUint64(powHashValue(b)).Cmp(thr) >= 0
}

func c12Pow(run *core.Run) {
	r := rand.New(rand.NewSource(run.Seed))
	two64 := new(big.Int).Lsh(big.NewInt(1), 64)
	var ds []uint64
	for k := uint(0); k < 64; k++ {
		p := uint64(1) << k
		ds = append(ds, p, p-1, p+1)
	}
	ds = append(ds, 1, 2, 3, 1500, 75000, constants.MaxDifficultyForAccountBlock-1, constants.MaxDifficultyForAccountBlock, constants.MaxDifficultyForAccountBlock+1,
		1<<63-1, 1<<63, 1<<63+1, ^uint64(0)-1, ^uint64(0))
	nRand := 200
	if run.Thorough() {
		nRand = 3000
	}
	for i := 0; i < nRand; i++ {
		ds = append(ds, r.Uint64()>>uint(r.Intn(64)))
	}
	var events []powEvent
	mk := func(b *nom.AccountBlock, note string) {
		if b.Difficulty == 0 {
			return
		}
		d := new(big.Int).SetUint64(b.Difficulty)
		q, rem := new(big.Int).QuoRem(two64, d, new(big.Int))
		events = append(events, powEvent{"Pow", ledger.ToDigits(d), ledger.ToDigits(new(big.Int).SetUint64(powHashValue(b))), ledger.ToDigits(q), ledger.ToDigits(rem), pow.CheckPoWNonce(b), note})
	}
	for _, d := range ds {
		if d == 0 {
			continue
		}
		// random nonces, plus for every block the SAME nonce under growing difficulties (a genuine proof for a cheap claim is not one for a dear claim)
		for k := 0; k < 3; k++ {
			b := &nom.AccountBlock{Address: g.User1.Address, PreviousHash: types.NewHash([]byte{byte(k), byte(d)}), Difficulty: d}
			binary.LittleEndian.PutUint64(b.Nonce.Data[:], r.Uint64())
			mk(b, "random nonce")
		}
	}
	// mined nonces for small difficulties: just above the threshold; then the same nonce with larger claims
	for _, d := range []uint64{2, 3, 10, 1000, 20000} {
		b := &nom.AccountBlock{Address: g.User2.Address, PreviousHash: types.NewHash([]byte{byte(d)}), Difficulty: d}
		nonce := pow.GetPoWNonce(new(big.Int).SetUint64(d), pow.GetAccountBlockHash(b))
		copy(b.Nonce.Data[:], nonce)
		mk(b, "mined nonce")
		for _, bigger := range []uint64{d * 1000, 31500000, constants.MaxDifficultyForAccountBlock, 1 << 62, 1 << 63, ^uint64(0)} {
			c := *b
			c.Difficulty = bigger
			mk(&c, "nonce mined for a cheaper claim")
			mk(b, "mined nonce again")
		}
	}
	todo := events
	for len(todo) > 0 {
		var buf bytes.Buffer
		for _, e := range todo {
			line, _ := json.Marshal(e)
			buf.Write(line)
			buf.WriteByte('\n')
		}
		rej := 0
		res, err := core.RunTLC(core.TLCOpts{Module: "PowTrace", CfgText: powTraceCfg, Workers: 1, Timeout: 20 * time.Minute, Files: map[string]string{"trace.ndjson": buf.String()},
			OnLine: func(line string) {
				if m := reRejected.FindStringSubmatch(line); m != nil {
					rej, _ = strconv.Atoi(m[1])
				}
			}})
		if err != nil || (res.Err != "" && rej == 0) {
			core.Fatal("PowTrace: %v %s", err, res.Err)
		}
		run.States += res.Distinct
		if rej == 0 {
			break
		}
		bad := todo[rej-1]
		d := new(big.Int)
		for i := len(bad.D) - 1; i >= 0; i-- {
			d.Mul(d, big.NewInt(10000)).Add(d, big.NewInt(int64(bad.D[i])))
		}
		key := "C12:pow-threshold"
		if d.BitLen() == 64 {
			key = "C12:pow-threshold-difficulty-at-least-2^63"
		}
		run.Report(key, fmt.Sprintf("CheckPoWNonce(difficulty %v, %s) = %v although the nonce hashes to %v; threshold is 2^64 - %v", d, bad.Note, bad.Result, bad.H, bad.Q), map[string]interface{}{"kind": "pow-event", "event": bad})
		todo = append(append([]powEvent{}, todo[:rej-1]...), todo[rej:]...)
	}
	run.Traces += int64(len(events))
	run.Transitions += int64(len(events))
	run.Set("pow_events_validated", len(events))
	run.AddSample(events[len(events)/2])
}

type plasmaStep struct {
	A       string `json:"a"`
	Fc      int    `json:"fc"`
	Pc      int    `json:"pc"`
	Genuine bool   `json:"genuine"`
	R       string `json:"r"`
	Fused   int    `json:"fused"`
	Avail   int    `json:"avail"`
}
type plasmaBehaviour struct {
	Steps []plasmaStep `json:"steps"`
}

// c12Plasma: behaviours of Plasma.tla replayed on a real node with hand-built blocks of a fresh account.
func c12Plasma(run *core.Run) {
	res, err := core.RunTLC(core.TLCOpts{Module: "Plasma", CfgText: fmt.Sprintf(plasmaCfg, "FALSE", "PROPERTIES NoFreeBlock"), Timeout: 10 * time.Minute})
	if err != nil || res.Violated != "" || res.Err != "" {
		core.Fatal("Plasma: %v %s %s", err, res.Violated, res.Err)
	}
	run.States += res.Distinct
	run.Transitions += res.Generated
	var behaviours []*plasmaBehaviour
	_, err = core.RunTLC(core.TLCOpts{Module: "Plasma", CfgText: fmt.Sprintf(plasmaCfg, "TRUE", "VIEW GenView\nACTION_CONSTRAINT EmitEdge"), Workers: 1, Timeout: 10 * time.Minute,
		OnLine: func(line string) {
			if js, ok := core.ParseB(line, "B"); ok {
				var b plasmaBehaviour
				if json.Unmarshal([]byte(js), &b) == nil {
					behaviours = append(behaviours, &b)
				}
			}
		}})
	if err != nil {
		core.Fatal("Plasma generation: %v", err)
	}
	walk.LabConstants()
	constants.FuseExpiration = 2
	outcomes := map[string]int{}
	every := 6
	if run.Thorough() {
		every = 1
	}
	replayed := 0
	for bi, b := range behaviours {
		last := b.Steps[len(b.Steps)-1]
		if last.A != "Submit" || (bi+int(run.Seed))%every != 0 {
			continue
		}
		if err := plasmaReplay(run, b, bi, outcomes); err != nil {
			core.Fatal("plasma replay: %v", err)
		}
		replayed++
	}
	run.Traces += int64(replayed)
	run.Set("plasma_behaviours", fmt.Sprintf("%d generated (one per transition), %d ending in a submission replayed", len(behaviours), replayed))
	run.Set("plasma_outcomes", outcomes)
	if outcomes["accepted"] == 0 || outcomes["rejected"] == 0 {
		core.Fatal("vacuity: plasma replay outcomes %v", outcomes)
	}
}

func plasmaReplay(run *core.Run, b *plasmaBehaviour, bi int, outcomes map[string]int) error {
	node.Clock.Set(time.Unix(1000000000, 0))
	p, err := node.New("plasma", node.Options{Producer: true})
	if err != nil {
		return err
	}
	defer p.Stop()
	acct, err := wallet.DeriveWithIndex(uint32(500+bi%50), []byte("0123456789abcdef0123456789abcdef"))
	if err != nil {
		return err
	}
	rep := map[string]interface{}{"kind": "plasma-behaviour", "behaviour": b}
	fused := b.Steps[0].Fused
	if b.Steps[0].A == "CancelFusion" {
		fused = 21000 // whatever it was before; recomputed below from the first step with a fusion
	}
	// initial fusion: first step's `fused` is the value AFTER the step; CancelFusion is the only action changing it
	initFused := b.Steps[0].Fused
	for _, s := range b.Steps {
		if s.A == "CancelFusion" {
			initFused = -1
			break
		}
		initFused = s.Fused
		break
	}
	if initFused == -1 {
		// a fusion existed before the cancellation; its size is not recorded in the step: both sizes behave alike after it, use one block's worth
		initFused = 21000
	}
	_ = fused
	var fuseSend *nom.AccountBlock
	if initFused > 0 {
		qsr := new(big.Int).Mul(big.NewInt(int64(initFused/constants.PlasmaPerFusionUnit)), big.NewInt(constants.CostPerFusionUnit))
		fuseSend, err = p.Submit(&nom.AccountBlock{BlockType: nom.BlockTypeUserSend, Address: g.User1.Address, ToAddress: types.PlasmaContract, TokenStandard: types.QsrTokenStandard, Amount: qsr,
			Data: definition.ABIPlasma.PackMethodPanic(definition.FuseMethodName, acct.Address)}, g.User1)
		if err != nil {
			return err
		}
	}
	if err := p.ProduceN(4); err != nil {
		return err
	}
	var prev types.Hash
	height := uint64(0)
	submit := func(si int, s plasmaStep, ack types.HashHeight) bool {
		blk := &nom.AccountBlock{Version: 1, ChainIdentifier: p.Chain.ChainIdentifier(), BlockType: nom.BlockTypeUserSend, Address: acct.Address, ToAddress: g.User2.Address,
			Amount: big.NewInt(0), TokenStandard: types.ZnnTokenStandard, Height: height + 1, PreviousHash: prev,
			MomentumAcknowledged: ack, FusedPlasma: uint64(s.Fc)}
		if s.Pc > 0 {
			blk.Difficulty = uint64(s.Pc) * constants.PoWDifficultyPerPlasma
			if s.Genuine {
				copy(blk.Nonce.Data[:], pow.GetPoWNonce(new(big.Int).SetUint64(blk.Difficulty), pow.GetAccountBlockHash(blk)))
			} else {
				found := false
				for n := uint64(1); n < 1000000; n++ { // a nonce that does NOT satisfy the claim (by the lab's own arithmetic, not the code's)
					binary.LittleEndian.PutUint64(blk.Nonce.Data[:], n)
					if !labPowOK(blk) {
						found = true
						break
					}
				}
				if !found {
					core.Fatal("no nonce below a million fails difficulty %d", blk.Difficulty)
				}
			}
		}
		blk.Hash = blk.ComputeHash()
		blk.PublicKey = acct.Public
		blk.Signature = acct.Sign(blk.Hash.Bytes())
		// the derived fields travel with the block but are not covered by its hash: whatever they say, the verdict is the same
		derived := []string{"asComputed", "baseOne", "baseHuge", "totalHuge", "totalZero"}[(si+bi+int(run.Seed))%5]
		switch derived {
		case "baseOne":
			blk.BasePlasma = 1
		case "baseHuge":
			blk.BasePlasma = 1 << 40
		case "totalHuge":
			blk.TotalPlasma = 1 << 40
		case "totalZero":
			blk.TotalPlasma = 0
		}
		outcomes["derived-fields:"+derived]++
		wire, _ := node.WireBlock(blk)
		err := p.Offer(wire)
		got := "accepted"
		if err != nil {
			got = "rejected"
		}
		outcomes[got]++
		if got != s.R {
			run.Report(fmt.Sprintf("C12:plasma-%s-specified-%s", got, s.R),
				fmt.Sprintf("step %d: block claiming %d fused + %d proof-of-work plasma (genuine=%v), fused %d, available after the step %d: node %s it (%v), specification says %s",
					si+1, s.Fc, s.Pc, s.Genuine, s.Fused, s.Avail, got, err, s.R), rep)
			return false
		}
		if got == "accepted" {
			prev = blk.Hash
			height++
		}
		return true
	}
	type deferred struct {
		si int
		s  plasmaStep
	}
	var held []deferred
	for si, s := range b.Steps {
		switch s.A {
		case "CancelFusion":
			// the fusion is cancelled and the cancellation becomes final while the account's blocks `held` are still unknown to the
			// node; they acknowledge a momentum at which the fusion exists and are offered afterwards - accepted as specified, and
			// they stay unconfirmed, so that what the account may claim next is fused(now) - their claims
			ackFused := p.Frontier().Identifier()
			if _, err := p.Submit(&nom.AccountBlock{BlockType: nom.BlockTypeUserSend, Address: g.User1.Address, ToAddress: types.PlasmaContract,
				Data: definition.ABIPlasma.PackMethodPanic(definition.CancelFuseMethodName, fuseSend.Hash)}, g.User1); err != nil {
				return fmt.Errorf("cancel fuse: %v", err)
			}
			if err := p.ProduceN(3); err != nil {
				return err
			}
			for _, h := range held {
				if !submit(h.si, h.s, ackFused) {
					return nil
				}
			}
			held = nil
		case "Confirm":
			if err := p.ProduceN(2); err != nil {
				return err
			}
		case "Submit":
			// is a cancellation coming before the next confirmation? then hold the block back (see above)
			hold := false
			for _, later := range b.Steps[si+1:] {
				if later.A == "Confirm" {
					break
				}
				if later.A == "CancelFusion" {
					hold = true
					break
				}
			}
			if hold {
				held = append(held, deferred{si, s})
				continue
			}
			if !submit(si, s, p.Frontier().Identifier()) {
				return nil
			}
		}
	}
	return nil
}

func boolInt(b bool) int {
	if b {
		return 1
	}
	return 0
}

// C12 — plasma and proof-of-work: no block is accepted without paying its cost.
func C12(run *core.Run) {
	run.Assume = []string{
		"the hash function is trusted (h is computed with the repository's crypto.Hash); the division witness q, r is checked by TLC with BigNat multiplication",
		"plasma claims are replayed at the boundary values TLC enumerates (Base-50, Base-1, Base, avail-1, avail, avail+1; proof-of-work parts of 49 / 50 plasma so that nonces are mined in milliseconds)",
	}
	c12Pow(run)
	c12Plasma(run)
	run.Finish()
}
