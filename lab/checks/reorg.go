package checks

import (
	"encoding/json"
	"fmt"
	"math/big"
	"math/rand"
	"time"

	"github.com/zenon-network/go-zenon/chain/nom"
	"github.com/zenon-network/go-zenon/common/types"
	"github.com/zenon-network/go-zenon/verifier"
	"github.com/zenon-network/go-zenon/vm/embedded/definition"

	"verif/lab/core"
	"verif/lab/ledger"
	"verif/lab/node"
	"verif/lab/walk"
)

// The ledger across a reorganisation. A producer P1 walks to a fork point, then on (branch X); a second producer P2 walks
// from the fork point with other content and further (branch Y). P1 adopts Y, keeps producing, and a fresh node B finally
// synchronises P1's chain while its hooks are recorded: B's trace is validated against LedgerTrace.tla like any other
// (FIFO, at-most-once, conservation, backing, rewards), and on the way
//   - P1 must adopt Y                      (what it credited on X must not make it refuse Y: rewards are a function of the chain)
//   - P1's state must equal P2's           (no trace of X)
//   - B must adopt what P1 built afterwards (nothing pooled on X may have been confirmed on Y)

type reorgArg struct {
	Seed    int64
	Variant string // "random" | "pending-contract-receive"
}

type reorgResult struct {
	Run      ledgerRun
	Findings [][2]string // key, what
	Stats    string
}

func init() {
	core.RegisterChild("ledger-reorg", func(arg json.RawMessage) (interface{}, error) {
		var a reorgArg
		if err := json.Unmarshal(arg, &a); err != nil {
			return nil, err
		}
		node.Quiet()
		return reorgScenario(a)
	})
}

var farFuture = time.Unix(4000000000, 0)

func reorgScenario(a reorgArg) (*reorgResult, error) {
	walk.LabConstants()
	verifier.ReceiverMismatchEnforcementHeight = 1
	res := &reorgResult{}
	find := func(key, format string, args ...interface{}) {
		res.Findings = append(res.Findings, [2]string{key, fmt.Sprintf(format, args...)})
	}
	r := rand.New(rand.NewSource(a.Seed))
	node.Clock.Set(time.Unix(1000000000, 0))
	p1, err := node.New("reorg-p1", node.Options{Producer: true})
	if err != nil {
		return nil, err
	}
	defer p1.Stop()
	p2, err := node.New("reorg-p2", node.Options{Producer: true})
	if err != nil {
		return nil, err
	}
	defer p2.Stop()
	w1 := walk.New(p1, a.Seed)
	var lenX, lenY int
	if a.Variant == "random" {
		// fork a few momentums before the epoch boundary (momentum EpochMomentums+1 starts epoch 1), X crosses it
		if err := w1.Run(walk.EpochMomentums - 18 + r.Intn(6)); err != nil {
			return nil, fmt.Errorf("p1 base: %v", err)
		}
	} else {
		if err := p1.ProduceN(3); err != nil {
			return nil, err
		}
	}
	forkH := p1.Height()
	base, err := p1.Detailed(2, forkH)
	if err != nil {
		return nil, err
	}
	node.Clock.Set(farFuture)
	if _, err := p2.InsertChain(wireAll(base)); err != nil {
		return nil, fmt.Errorf("p2 base: %v", err)
	}
	fuse := func(n *node.Node, key int, amount int64) (*nom.AccountBlock, error) {
		u := node.Users[key]
		return n.Submit(&nom.AccountBlock{BlockType: nom.BlockTypeUserSend, Address: u.Address, ToAddress: types.PlasmaContract, TokenStandard: types.QsrTokenStandard,
			Amount: new(big.Int).Mul(big.NewInt(amount), big.NewInt(100000000)), Data: definition.ABIPlasma.PackMethodPanic(definition.FuseMethodName, u.Address)}, u)
	}
	if a.Variant == "random" {
		lenX = 22 + r.Intn(6)
		if err := w1.Run(lenX); err != nil {
			return nil, fmt.Errorf("p1 branch X: %v", err)
		}
		w2 := walk.New(p2, a.Seed+7777)
		lenY = lenX + 1 + r.Intn(4)
		// Y starts after two empty slots: the pillars' produced/expected counts of the epoch differ between the branches
		if err := p2.Produce(2); err != nil {
			return nil, fmt.Errorf("p2 branch Y: %v", err)
		}
		if err := w2.Run(lenY - 1); err != nil {
			return nil, fmt.Errorf("p2 branch Y: %v", err)
		}
	} else {
		// X: one momentum confirming the call S1; P1's worker leaves the contract's receive of S1 in the pool
		s1, err := fuse(p1, 0, 20)
		if err != nil {
			return nil, err
		}
		if err := p1.Produce(0); err != nil {
			return nil, err
		}
		lenX = 1
		if n := len(p1.Chain.GetUncommittedAccountBlocksByAddress(types.PlasmaContract)); n == 0 {
			return nil, fmt.Errorf("scenario: no pending contract receive on P1")
		}
		// Y: y1 confirms another call S2, y2 confirms S1; no contract block at all (the momentums are generated
		// without the worker's auto-receive round), so on Y the contract's inbox reads S2, S1
		if _, err := fuse(p2, 1, 30); err != nil {
			return nil, err
		}
		tx, err := p2.GenerateMomentum(1)
		if err != nil {
			return nil, err
		}
		if err := p2.InsertOwn(tx); err != nil {
			return nil, err
		}
		c, _ := node.WireBlock(s1)
		if err := p2.Offer(c); err != nil {
			return nil, fmt.Errorf("S1 on Y: %v", err)
		}
		if tx, err = p2.GenerateMomentum(0); err != nil {
			return nil, err
		}
		if err := p2.InsertOwn(tx); err != nil {
			return nil, err
		}
		lenY = 2
	}
	y, err := p2.Detailed(forkH+1, p2.Height())
	if err != nil {
		return nil, err
	}
	node.Clock.Set(farFuture)
	if idx, err := p1.InsertChain(wireAll(y)); err != nil {
		find("node-that-saw-the-abandoned-branch-refuses-the-longer-valid-branch", "P1 (on a branch of %d momentums from height %d) refuses P2's branch of %d momentums at index %d: %v - every fresh node accepts that branch, so what P1 computes depends on the branch it saw before", lenX, forkH, lenY, idx, err)
		return res, nil
	}
	if p1.Dump() != p2.Dump() {
		find("state-after-reorganisation-differs", "after adopting the longer branch P1's ledger state differs from P2's, which only ever saw that branch: %s", firstDiff(p2.Dump(), p1.Dump()))
	}
	// P1 goes on producing
	w1 = walk.New(p1, a.Seed+1)
	if a.Variant == "random" {
		if err := w1.Run(2*walk.UpdateMomentums + 5); err != nil {
			find("producer-cannot-continue-after-reorganisation", "P1 cannot produce after the reorganisation: %v (problems %v)", err, p1.Problems)
			return res, nil
		}
	} else {
		if err := p1.ProduceN(4); err != nil {
			find("producer-cannot-continue-after-reorganisation", "P1 cannot produce after the reorganisation: %v (problems %v)", err, p1.Problems)
			return res, nil
		}
	}
	if _, err := w1.Drain(40); err != nil {
		find("producer-cannot-continue-after-reorganisation", "P1 cannot produce after the reorganisation: %v (problems %v)", err, p1.Problems)
		return res, nil
	}
	for _, pb := range p1.Problems {
		find("producer-problem-after-reorganisation", "P1 reported: %s", pb)
	}
	final, err := p1.Detailed(2, p1.Height())
	if err != nil {
		return nil, err
	}
	cap := ledger.StartCapture()
	defer cap.Stop()
	b, err := node.New("reorg-b", node.Options{})
	if err != nil {
		return nil, err
	}
	defer b.Stop()
	node.Clock.Set(farFuture)
	for i := 0; i < len(final); i += 10 {
		j := i + 10
		if j > len(final) {
			j = len(final)
		}
		if idx, err := b.InsertChain(wireAll(final[i:j])); err != nil {
			find("fresh-node-refuses-the-chain-built-after-the-reorganisation", "a fresh node refuses momentum %d of the chain P1 built after adopting the longer branch (fork at %d, %d abandoned, %d adopted): %v", 2+i+idx, forkH, lenX, lenY, err)
			break
		}
	}
	ids := cap.ChainIDs()
	if len(ids) != 1 {
		return nil, fmt.Errorf("expected one chain in capture, got %v", ids)
	}
	pr := ledger.NewProjector()
	pr.Observer = ledger.StandardObserver(walk.EpochMomentums)
	if err := cap.Project(ids[0], pr); err != nil {
		return nil, err
	}
	name := fmt.Sprintf("reorganisation scenario %s seed=%d enforced=true (fork at %d, %d abandoned, %d adopted, %d momentums in the end)", a.Variant, a.Seed, forkH, lenX, lenY, p1.Height())
	res.Run = ledgerRun{Name: name, Events: pr.Events, Note: pr.Note}
	res.Stats = fmt.Sprintf("%s: %d blocks, %d momentums traced on the fresh node", name, pr.Blocks, pr.Momentums)
	return res, nil
}

// reorgRuns runs the scenarios in child processes and reports their findings under `prop`.
func reorgRuns(run *core.Run, prop string, n int) []ledgerRun {
	var args []reorgArg
	for i := 0; i < n; i++ {
		v := "random"
		if i%3 == 2 {
			v = "pending-contract-receive"
		}
		args = append(args, reorgArg{Seed: run.Seed*100 + int64(i), Variant: v})
	}
	type out struct {
		r     reorgResult
		crash *core.Crash
		err   error
	}
	outs := make([]out, len(args))
	done := make(chan int, len(args))
	sem := make(chan struct{}, 8)
	for i := range args {
		go func(i int) {
			sem <- struct{}{}
			outs[i].crash, outs[i].err = core.Child("ledger-reorg", args[i], &outs[i].r, 20*time.Minute)
			<-sem
			done <- i
		}(i)
	}
	for range args {
		<-done
	}
	var runs []ledgerRun
	var stats []string
	for i, o := range outs {
		if o.err != nil {
			core.Fatal("%v", o.err)
		}
		if o.crash != nil {
			run.ReportFor("C09", "C09:"+o.crash.Key(), fmt.Sprintf("the node process went down during reorganisation scenario %+v: %s", args[i], o.crash.String()), map[string]interface{}{"kind": "reorg", "arg": args[i], "stderr_tail": o.crash.Text})
			continue
		}
		for _, f := range o.r.Findings {
			run.ReportFor(prop, prop+":"+f[0], f[1]+fmt.Sprintf(" (scenario %+v)", args[i]), map[string]interface{}{"kind": "reorg", "arg": args[i]})
		}
		if len(o.r.Run.Events) > 0 {
			runs = append(runs, o.r.Run)
			stats = append(stats, o.r.Stats)
		}
	}
	run.Set("reorganisation_scenarios", stats)
	return runs
}
