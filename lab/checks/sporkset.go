package checks

import "github.com/zenon-network/go-zenon/common/types"

func setHtlcSpork(id types.Hash) {
	types.HtlcSpork.SporkId = id
	types.ImplementedSporksMap[id] = true
}
