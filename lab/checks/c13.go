package checks

import (
	"bytes"
	"encoding/json"
	"fmt"
	"math/big"
	"time"

	"github.com/ethereum/go-ethereum/rlp"

	g "github.com/zenon-network/go-zenon/chain/genesis/mock"
	"github.com/zenon-network/go-zenon/chain/nom"
	"github.com/zenon-network/go-zenon/common/types"
	"github.com/zenon-network/go-zenon/vm/embedded/definition"

	"verif/lab/core"
	"verif/lab/node"
	"verif/lab/walk"
)

type varStep struct {
	A        string `json:"a"`
	T        string `json:"t"`
	F        string `json:"f"`
	Stored   string `json:"stored"`
	Accepted string `json:"accepted"`
}
type varBehaviour struct {
	Steps []varStep `json:"steps"`
}

const variantsCfg = `CONSTANTS
  Types = {"userSend", "userReceive", "contractCall", "contractReceive", "momentum"}
  Fields = {"changesHash", "basePlasma", "totalPlasma", "publicKey", "signature", "signatureTrailing", "dirtyPadding", "trailingBytes", "descendantBody", "descendantPlasma"}
  Policy <- %s
  WithHist = %s
INIT Init
NEXT Next
%s
CHECK_DEADLOCK FALSE
`

// alter applies the field alteration of a cell to a copy of the block
func alterBlock(b *nom.AccountBlock, field string) *nom.AccountBlock {
	v, _ := node.WireBlock(b)
	switch field {
	case "changesHash":
		v.ChangesHash = types.NewHash([]byte("some other changes"))
	case "basePlasma":
		v.BasePlasma += 1000
	case "totalPlasma":
		v.TotalPlasma += 1000
	case "publicKey":
		v.PublicKey = g.User5.Public
	case "signature":
		v.Signature = append([]byte{}, v.Signature...)
		if len(v.Signature) > 9 {
			v.Signature[9] ^= 0x04
		} else {
			v.Signature = []byte{1, 2, 3}
		}
	case "signatureTrailing":
		v.Signature = append(append([]byte{}, v.Signature...), 0x00, 0x01)
	case "dirtyPadding", "trailingBytes":
		// the call data in another ABI encoding of the same arguments; the owner hashes and signs it (a different block: what must
		// not happen is that it is accepted and stored in a non-canonical encoding)
		d := append([]byte{}, v.Data...)
		if field == "dirtyPadding" && len(d) >= 36 {
			d[4] = 0xff // the 12 bytes above a 20-byte address are padding
		} else {
			d = append(d, 0xaa, 0xbb)
		}
		v.Data = d
		v.Hash = v.ComputeHash()
		v.Signature = g.User1.Sign(v.Hash.Bytes())
	case "descendantBody":
		if len(v.DescendantBlocks) > 0 {
			v.DescendantBlocks[0].Amount = new(big.Int).Add(v.DescendantBlocks[0].Amount, big.NewInt(999999))
			v.DescendantBlocks[0].ToAddress = g.User6.Address
		}
	case "descendantPlasma":
		if len(v.DescendantBlocks) > 0 {
			v.DescendantBlocks[0].TotalPlasma = 7
			v.DescendantBlocks[0].BasePlasma = 7
		}
	}
	c, _ := node.WireBlock(v)
	return c
}

func storedBytes(n *node.Node, b *nom.AccountBlock) []byte {
	st := n.Chain.GetFrontierAccountStore(b.Address)
	blk, err := st.ByHeight(b.Height)
	if err != nil || blk == nil || blk.Hash != b.Hash {
		return nil
	}
	data, _ := blk.Serialize()
	return data
}

// C13 — a block's hash pins down its stored bytes and its effect.
func C13(run *core.Run) {
	run.Assume = []string{
		"hashing and signatures are ideal in the specification; field alterations are one representative per field and block type",
		"codec clause: every block of a seeded walk history is passed through protobuf, RLP (DetailedMomentum) and JSON and compared byte for byte",
	}
	walk.LabConstants()
	res, err := core.RunTLC(core.TLCOpts{Module: "VariantsMC", CfgText: fmt.Sprintf(variantsCfg, "PolicyRepaired", "FALSE", "INVARIANTS HashPinsBytes NoSplit"), Timeout: 5 * time.Minute})
	if err != nil || res.Violated != "" || res.Err != "" {
		core.Fatal("Variants: %v %s %s", err, res.Violated, res.Err)
	}
	run.States += res.Distinct
	run.Transitions += res.Generated
	nc, err := core.RunTLC(core.TLCOpts{Module: "VariantsMC", CfgText: fmt.Sprintf(variantsCfg, "PolicyAsFound", "FALSE", "INVARIANTS HashPinsBytes NoSplit"), Timeout: 5 * time.Minute})
	if err != nil || nc.Violated == "" {
		core.Fatal("negative control (fields stored as delivered, F7/F8) not refuted")
	}
	run.Set("negative_controls", []string{"uncovered fields stored as delivered (code as found, F7/F8) -> TLC refutes " + nc.Violated})
	var behaviours []*varBehaviour
	_, err = core.RunTLC(core.TLCOpts{Module: "VariantsMC", CfgText: fmt.Sprintf(variantsCfg, "PolicyRepaired", "TRUE", "VIEW GenView\nACTION_CONSTRAINT EmitEdge"), Workers: 1, Timeout: 5 * time.Minute,
		OnLine: func(line string) {
			if js, ok := core.ParseB(line, "B"); ok {
				var b varBehaviour
				if json.Unmarshal([]byte(js), &b) == nil {
					behaviours = append(behaviours, &b)
				}
			}
		}})
	if err != nil {
		core.Fatal("Variants generation: %v", err)
	}
	cells := map[string]bool{}
	outcomes := map[string]int{}
	for bi, b := range behaviours {
		last := b.Steps[len(b.Steps)-1]
		// every transition is replayed; a behaviour that stops before the momentum is delivered is completed
		// with Confirm / DeliverMomentum, for which the invariants predict: accepted, canonical bytes
		steps := append([]varStep{}, b.Steps...)
		hasConfirm, hasDeliver := false, false
		for _, s := range steps {
			if s.A == "Confirm" {
				hasConfirm = true
			}
			if s.A == "DeliverMomentum" {
				hasDeliver = true
			}
		}
		if !hasConfirm {
			steps = append(steps, varStep{A: "Confirm", T: last.T, F: last.F, Stored: last.Stored})
		}
		if !hasDeliver {
			steps = append(steps, varStep{A: "DeliverMomentum", T: last.T, F: last.F, Stored: "canonical", Accepted: "yes"})
		}
		b = &varBehaviour{Steps: steps}
		if err := variantReplay(run, b, outcomes); err != nil {
			core.Fatal("variant replay %d: %v", bi, err)
		}
		cells[last.T+"/"+last.F] = true
		run.Traces++
		if bi%9 == 0 {
			run.AddSample(map[string]interface{}{"variant_behaviour": b.Steps})
		}
	}
	run.Set("variant_cells_replayed", len(cells))
	run.Set("variant_outcomes", outcomes)
	if len(cells) < 15 {
		core.Fatal("vacuity: only %d variant cells replayed", len(cells))
	}
	c13Codecs(run)
	c13Encodings(run)
	run.Finish()
}

func variantReplay(run *core.Run, b *varBehaviour, outcomes map[string]int) error {
	cellT, cellF := b.Steps[0].T, b.Steps[0].F
	node.Clock.Set(time.Unix(1000000000, 0))
	A, err := node.New("A", node.Options{Producer: true})
	if err != nil {
		return err
	}
	defer A.Stop()
	B, err := node.New("B", node.Options{})
	if err != nil {
		return err
	}
	defer B.Stop()
	if err := A.ProduceN(2); err != nil {
		return err
	}
	rep := map[string]interface{}{"kind": "variant", "behaviour": b}
	syncB := func() error {
		if B.Height() >= A.Height() {
			return nil
		}
		dms, err := A.Detailed(B.Height()+1, A.Height())
		if err != nil {
			return err
		}
		node.Clock.Set(A.Frontier().Timestamp.Add(time.Minute))
		if idx, err := B.InsertChain(dms); err != nil {
			return fmt.Errorf("B cannot follow A: %d %v", idx, err)
		}
		return nil
	}
	// build the original
	var original *nom.AccountBlock
	var momOriginal *nom.DetailedMomentum
	switch cellT {
	case "userSend":
		original, err = A.Submit(&nom.AccountBlock{BlockType: nom.BlockTypeUserSend, Address: g.User1.Address, ToAddress: g.User2.Address, TokenStandard: types.ZnnTokenStandard, Amount: big.NewInt(500)}, g.User1)
	case "contractCall":
		original, err = A.Submit(&nom.AccountBlock{BlockType: nom.BlockTypeUserSend, Address: g.User1.Address, ToAddress: types.PlasmaContract, TokenStandard: types.QsrTokenStandard, Amount: big.NewInt(10 * 100000000),
			Data: definition.ABIPlasma.PackMethodPanic(definition.FuseMethodName, g.User2.Address)}, g.User1)
	case "userReceive":
		var s *nom.AccountBlock
		s, err = A.Submit(&nom.AccountBlock{BlockType: nom.BlockTypeUserSend, Address: g.User1.Address, ToAddress: g.User2.Address, TokenStandard: types.ZnnTokenStandard, Amount: big.NewInt(500)}, g.User1)
		if err == nil {
			if err = A.ProduceN(2); err == nil {
				original, err = A.Submit(&nom.AccountBlock{BlockType: nom.BlockTypeUserReceive, Address: g.User2.Address, FromBlockHash: s.Hash}, g.User2)
			}
		}
	case "contractReceive":
		if _, err = A.Submit(&nom.AccountBlock{BlockType: nom.BlockTypeUserSend, Address: g.User1.Address, ToAddress: types.PillarContract, TokenStandard: types.QsrTokenStandard, Amount: big.NewInt(7 * 100000000),
			Data: definition.ABIPillars.PackMethodPanic(definition.DepositQsrMethodName)}, g.User1); err != nil {
			return err
		}
		if err = A.ProduceN(3); err != nil {
			return err
		}
		if _, err = A.Submit(&nom.AccountBlock{BlockType: nom.BlockTypeUserSend, Address: g.User1.Address, ToAddress: types.PillarContract,
			Data: definition.ABIPillars.PackMethodPanic(definition.WithdrawQsrMethodName)}, g.User1); err != nil {
			return err
		}
		if err = A.Produce(0); err != nil { // confirms the call; the pillar pools the contract receive
			return err
		}
		for _, blk := range A.Chain.GetUncommittedAccountBlocksByAddress(types.PillarContract) {
			if blk.BlockType == nom.BlockTypeContractReceive && len(blk.DescendantBlocks) > 0 {
				original = blk
			}
		}
		if original == nil {
			return fmt.Errorf("no pooled contract receive with a descendant block on A")
		}
	case "momentum":
	}
	if err != nil {
		return err
	}
	if err := syncB(); err != nil {
		return err
	}
	var canonical []byte
	if original != nil {
		canonical = storedBytes(A, original)
		if canonical == nil {
			return fmt.Errorf("A does not hold the original")
		}
	}
	observe := func() string {
		if original == nil {
			return "n/a"
		}
		if cellT == "contractCall" && (cellF == "dirtyPadding" || cellF == "trailingBytes") {
			st := B.Chain.GetFrontierAccountStore(original.Address)
			blk, err := st.ByHeight(original.Height)
			switch {
			case err != nil || blk == nil:
				return "none"
			case bytes.Equal(blk.Data, original.Data):
				return "canonical"
			}
			return "variant"
		}
		got := storedBytes(B, original)
		switch {
		case got == nil:
			return "none"
		case bytes.Equal(got, canonical):
			return "canonical"
		}
		return "variant"
	}
	for si, s := range b.Steps {
		switch s.A {
		case "GossipVariant":
			if cellT == "momentum" {
				continue // momentum variants are delivered at DeliverMomentum time
			}
			B.Offer(alterBlock(original, cellF))
		case "GossipOriginal":
			if cellT == "momentum" {
				continue
			}
			c, _ := node.WireBlock(original)
			B.Offer(c)
		case "Confirm":
			if err := A.Produce(0); err != nil {
				return err
			}
			dms, err := A.Detailed(A.Height(), A.Height())
			if err != nil {
				return err
			}
			momOriginal = dms[0]
		case "DeliverMomentum":
			node.Clock.Set(A.Frontier().Timestamp.Add(time.Minute))
			if cellT == "momentum" {
				v, _ := node.Wire(momOriginal)
				if cellF == "publicKey" {
					v.Momentum.PublicKey = g.User5.Public
				} else if cellF == "signatureTrailing" {
					v.Momentum.Signature = append(append([]byte{}, v.Momentum.Signature...), 0x00, 0x01)
				} else {
					v.Momentum.Signature = append([]byte{}, v.Momentum.Signature...)
					v.Momentum.Signature[3] ^= 0x20
				}
				data, _ := v.Momentum.Serialize()
				v.Momentum, _ = nom.DeserializeMomentum(data)
				if _, err := B.InsertChain([]*nom.DetailedMomentum{v}); err == nil {
					run.Report("C13:momentum-"+cellF+"-variant-accepted", "a momentum with altered "+cellF+" was accepted", rep)
				}
				outcomes["momentum/"+cellF+"/rejected"]++
			}
			c, _ := node.Wire(momOriginal)
			_, err := B.InsertChain([]*nom.DetailedMomentum{c})
			acc := "yes"
			if err != nil {
				acc = "no"
			}
			if acc != s.Accepted {
				run.Report(fmt.Sprintf("C13:%s-%s-producer-momentum-refused", cellT, cellF),
					fmt.Sprintf("node B, which heard a variant of a %s block with altered %s, refuses the producer's momentum: %v", cellT, cellF, err), rep)
			}
		}
		if s.A != "Confirm" && cellT != "momentum" {
			got := observe()
			outcomes[cellT+"/"+cellF+"/"+s.A+"/"+got]++
			if got != s.Stored {
				run.Report(fmt.Sprintf("C13:%s-%s-stored-%s-expected-%s", cellT, cellF, got, s.Stored),
					fmt.Sprintf("after %s (step %d) node B stores %q for the %s block with altered %s; the protocol's treatment of the field says %q", s.A, si+1, got, cellT, cellF, s.Stored), rep)
				return nil
			}
		}
	}
	return nil
}

// c13Codecs: decode(encode(b)) = b and the hash is preserved, for every block of a seeded history, for every codec.
func c13Codecs(run *core.Run) {
	node.Clock.Set(time.Unix(1000000000, 0))
	p, err := node.New("codec-producer", node.Options{Producer: true})
	if err != nil {
		core.Fatal("%v", err)
	}
	defer p.Stop()
	w := walk.New(p, run.Seed+5)
	w.HtlcOn = false
	length := 80
	if run.Thorough() {
		length = 600 // several epochs: reward updates, collections, every kind of block many times over
		w.Stalls = true
	}
	if err := w.Run(length); err != nil {
		core.Fatal("codec walk: %v", err)
	}
	w.Drain(30)
	all, err := p.Detailed(1, p.Height())
	if err != nil {
		core.Fatal("%v", err)
	}
	var blocks, moms int
	for _, dm := range all {
		moms++
		// protobuf
		data, _ := dm.Momentum.Serialize()
		m2, err := nom.DeserializeMomentum(data)
		d2, _ := m2.Serialize()
		if err != nil || !bytes.Equal(data, d2) || m2.ComputeHash() != dm.Momentum.Hash {
			run.Report("C13:codec-protobuf-momentum", fmt.Sprintf("momentum %d does not survive protobuf", dm.Momentum.Height), nil)
		}
		// RLP (the wire form of DetailedMomentum)
		if enc, err := rlp.EncodeToBytes(dm); err != nil {
			run.Report("C13:codec-rlp", fmt.Sprintf("momentum %d: rlp encode: %v", dm.Momentum.Height, err), nil)
		} else {
			var back nom.DetailedMomentum
			if err := rlp.DecodeBytes(enc, &back); err != nil {
				run.Report("C13:codec-rlp", fmt.Sprintf("momentum %d: rlp decode: %v", dm.Momentum.Height, err), nil)
			} else {
				bd, _ := back.Momentum.Serialize()
				if !bytes.Equal(bd, data) || len(back.AccountBlocks) != len(dm.AccountBlocks) {
					run.Report("C13:codec-rlp", fmt.Sprintf("momentum %d changes through rlp", dm.Momentum.Height), nil)
				}
				for i := range back.AccountBlocks {
					x, _ := back.AccountBlocks[i].Serialize()
					y, _ := dm.AccountBlocks[i].Serialize()
					if !bytes.Equal(x, y) {
						run.Report("C13:codec-rlp-block", fmt.Sprintf("account block %v changes through rlp", dm.AccountBlocks[i].Header()), nil)
					}
				}
			}
		}
		// JSON
		if js, err := json.Marshal(dm.Momentum); err == nil {
			var back nom.Momentum
			if err := json.Unmarshal(js, &back); err != nil {
				run.Report("C13:codec-json-momentum", fmt.Sprintf("momentum %d: json decode: %v", dm.Momentum.Height, err), nil)
			} else if bd, _ := back.Serialize(); !bytes.Equal(bd, data) {
				run.Report("C13:codec-json-momentum", fmt.Sprintf("momentum %d changes through JSON", dm.Momentum.Height), nil)
			}
		}
		for _, b := range dm.AccountBlocks {
			if b.BlockType == nom.BlockTypeGenesisReceive {
				continue
			}
			blocks++
			data, _ := b.Serialize()
			b2, err := nom.DeserializeAccountBlock(data)
			d2, _ := b2.Serialize()
			if err != nil || !bytes.Equal(data, d2) || b2.ComputeHash() != b.Hash {
				run.Report("C13:codec-protobuf-block", fmt.Sprintf("block %v does not survive protobuf", b.Header()), nil)
			}
			js, err := json.Marshal(b)
			if err != nil {
				run.Report("C13:codec-json-block", fmt.Sprintf("block %v: json encode: %v", b.Header(), err), nil)
				continue
			}
			var back nom.AccountBlock
			if err := json.Unmarshal(js, &back); err != nil {
				run.Report("C13:codec-json-block", fmt.Sprintf("block %v: json decode: %v", b.Header(), err), nil)
				continue
			}
			bd, _ := back.Serialize()
			if !bytes.Equal(bd, data) || back.ComputeHash() != b.Hash {
				run.Report("C13:codec-json-block", fmt.Sprintf("block %v changes through JSON", b.Header()), nil)
			}
		}
	}
	run.Set("codec_round_trips", fmt.Sprintf("%d momentums and %d account blocks through protobuf, RLP and JSON", moms, blocks))
}
