package checks

import (
	"encoding/json"
	"fmt"
	"math/big"
	"math/rand"
	"os"
	"os/exec"
	"strings"
	"time"

	"github.com/zenon-network/go-zenon/chain"
	"github.com/zenon-network/go-zenon/chain/genesis"
	g "github.com/zenon-network/go-zenon/chain/genesis/mock"
	"github.com/zenon-network/go-zenon/common/db"
	"github.com/zenon-network/go-zenon/common/types"

	"github.com/zenon-network/go-zenon/vm/embedded/definition"

	"verif/lab/core"
	"verif/lab/node"
)

type fusionInfo = definition.FusionInfo

const genesisCfg = `CONSTANTS
  Validator = "%s"
  WithHist = %s
INIT Init
NEXT Next
INVARIANTS BaseIsConsistent AcceptedImpliesConsistent EmitCells
CHECK_DEADLOCK FALSE
`

type genCell struct {
	K          string `json:"k"`
	I          int    `json:"i"`
	Accepted   bool   `json:"accepted"`
	Consistent bool   `json:"consistent"`
}

func cloneGenesis(c *genesis.GenesisConfig) *genesis.GenesisConfig {
	data, err := json.Marshal(c)
	if err != nil {
		core.Fatal("genesis clone: %v", err)
	}
	out := new(genesis.GenesisConfig)
	if err := json.Unmarshal(data, out); err != nil {
		core.Fatal("genesis clone: %v", err)
	}
	return out
}

// index of the concrete balance block standing for abstract block i (1,2: user accounts; 3: pillar contract; 4: plasma contract)
func genBlockIndex(c *genesis.GenesisConfig, i int) int {
	users := []int{}
	for k, b := range c.GenesisBlocks.Blocks {
		switch {
		case b.Address == types.PillarContract && i == 3:
			return k
		case b.Address == types.PlasmaContract && i == 4:
			return k
		case !types.IsEmbeddedAddress(b.Address) && b.BalanceList[types.ZnnTokenStandard] != nil && b.BalanceList[types.ZnnTokenStandard].Sign() > 0:
			users = append(users, k)
		}
	}
	if i <= 2 && len(users) >= 2 {
		return users[i-1]
	}
	return -1
}

func tokenRecord(c *genesis.GenesisConfig, zts types.ZenonTokenStandard) int {
	for k, t := range c.TokenConfig.Tokens {
		if t.TokenStandard == zts {
			return k
		}
	}
	return -1
}

func applyGenesisPerturbation(c *genesis.GenesisConfig, cell genCell) bool {
	znn, qsr := types.ZnnTokenStandard, types.QsrTokenStandard
	bi := -1
	if cell.I > 0 {
		bi = genBlockIndex(c, cell.I)
		if bi < 0 {
			return false
		}
	}
	blocks := c.GenesisBlocks.Blocks
	tz := tokenRecord(c, znn)
	tq := tokenRecord(c, qsr)
	balTok := znn
	if cell.I == 4 {
		balTok = qsr // the plasma contract holds QSR
	}
	one := big.NewInt(1)
	switch cell.K {
	case "none":
	case "balance+1":
		blocks[bi].BalanceList[balTok].Add(blocks[bi].BalanceList[balTok], one)
	case "balance-1":
		blocks[bi].BalanceList[balTok].Sub(blocks[bi].BalanceList[balTok], one)
	case "block-removed":
		c.GenesisBlocks.Blocks = append(blocks[:bi:bi], blocks[bi+1:]...)
	case "block-duplicated", "block-duplicated-supply-raised":
		dup := &genesis.GenesisBlockConfig{Address: blocks[bi].Address, BalanceList: map[types.ZenonTokenStandard]*big.Int{}}
		for k, v := range blocks[bi].BalanceList {
			dup.BalanceList[k] = new(big.Int).Set(v)
			if cell.K == "block-duplicated-supply-raised" {
				if ti := tokenRecord(c, k); ti >= 0 {
					c.TokenConfig.Tokens[ti].TotalSupply.Add(c.TokenConfig.Tokens[ti].TotalSupply, v)
				}
			}
		}
		c.GenesisBlocks.Blocks = append(blocks, dup)
	case "negative-compensated":
		other := genBlockIndex(c, map[bool]int{true: 2, false: 1}[cell.I == 1])
		old := new(big.Int).Set(blocks[bi].BalanceList[balTok])
		blocks[bi].BalanceList[balTok] = big.NewInt(-1)
		if blocks[other].BalanceList[balTok] == nil {
			blocks[other].BalanceList[balTok] = big.NewInt(0)
		}
		blocks[other].BalanceList[balTok].Add(blocks[other].BalanceList[balTok], old).Add(blocks[other].BalanceList[balTok], one)
	case "supply+1":
		c.TokenConfig.Tokens[tz].TotalSupply.Add(c.TokenConfig.Tokens[tz].TotalSupply, one)
	case "supply-1":
		c.TokenConfig.Tokens[tz].TotalSupply.Sub(c.TokenConfig.Tokens[tz].TotalSupply, one)
	case "max-below-total":
		c.TokenConfig.Tokens[tz].MaxSupply = new(big.Int).Sub(c.TokenConfig.Tokens[tz].TotalSupply, one)
	case "pillar+1":
		c.PillarConfig.Pillars[0].Amount.Add(c.PillarConfig.Pillars[0].Amount, one)
	case "pillar-removed":
		c.PillarConfig.Pillars = c.PillarConfig.Pillars[1:]
	case "fusion+1":
		c.PlasmaConfig.Fusions[0].Amount.Add(c.PlasmaConfig.Fusions[0].Amount, one)
	case "fusion-removed":
		c.PlasmaConfig.Fusions = c.PlasmaConfig.Fusions[1:]
	case "undeclared-token-given", "third-token-declared-and-given", "third-token-declared-nobody-holds-it", "third-token-declared-with-zero-supply":
		third := types.NewZenonTokenStandard(types.NewHash([]byte("lab-third-token")).Bytes())
		if cell.K == "undeclared-token-given" || cell.K == "third-token-declared-and-given" {
			blocks[bi].BalanceList[third] = big.NewInt(1)
		}
		if cell.K != "undeclared-token-given" {
			total := int64(1)
			if cell.K == "third-token-declared-with-zero-supply" {
				total = 0
			}
			c.TokenConfig.Tokens = append(c.TokenConfig.Tokens, &definition.TokenInfo{Owner: blocks[genBlockIndex(c, 1)].Address, TokenName: "third", TokenSymbol: "THIRD", TokenDomain: "",
				TotalSupply: big.NewInt(total), MaxSupply: big.NewInt(1), Decimals: 0, IsMintable: true, IsBurnable: true, IsUtility: false, TokenStandard: third})
		}
	case "swap-funded", "swap-funded-supply-raised":
		c.GenesisBlocks.Blocks = append(blocks, &genesis.GenesisBlockConfig{Address: types.SwapContract, BalanceList: map[types.ZenonTokenStandard]*big.Int{znn: big.NewInt(1)}})
		if cell.K == "swap-funded-supply-raised" {
			c.TokenConfig.Tokens[tz].TotalSupply.Add(c.TokenConfig.Tokens[tz].TotalSupply, one)
		}
	default:
		return false
	}
	_ = tq
	return true
}

func genesisFingerprint(c *genesis.GenesisConfig) string {
	gen := genesis.NewGenesis(c)
	tx := gen.GetGenesisTransaction()
	return gen.GetGenesisMomentum().Hash.String() + "/" + db.PatchHash(tx.Changes).String()
}

func permuteGenesis(c *genesis.GenesisConfig, r *rand.Rand) {
	r.Shuffle(len(c.GenesisBlocks.Blocks), func(i, j int) {
		c.GenesisBlocks.Blocks[i], c.GenesisBlocks.Blocks[j] = c.GenesisBlocks.Blocks[j], c.GenesisBlocks.Blocks[i]
	})
	r.Shuffle(len(c.PillarConfig.Pillars), func(i, j int) {
		c.PillarConfig.Pillars[i], c.PillarConfig.Pillars[j] = c.PillarConfig.Pillars[j], c.PillarConfig.Pillars[i]
	})
	r.Shuffle(len(c.PillarConfig.Delegations), func(i, j int) {
		c.PillarConfig.Delegations[i], c.PillarConfig.Delegations[j] = c.PillarConfig.Delegations[j], c.PillarConfig.Delegations[i]
	})
	r.Shuffle(len(c.PlasmaConfig.Fusions), func(i, j int) {
		c.PlasmaConfig.Fusions[i], c.PlasmaConfig.Fusions[j] = c.PlasmaConfig.Fusions[j], c.PlasmaConfig.Fusions[i]
	})
	r.Shuffle(len(c.TokenConfig.Tokens), func(i, j int) {
		c.TokenConfig.Tokens[i], c.TokenConfig.Tokens[j] = c.TokenConfig.Tokens[j], c.TokenConfig.Tokens[i]
	})
	if c.SporkConfig != nil {
		r.Shuffle(len(c.SporkConfig.Sporks), func(i, j int) {
			c.SporkConfig.Sporks[i], c.SporkConfig.Sporks[j] = c.SporkConfig.Sporks[j], c.SporkConfig.Sporks[i]
		})
	}
}

// extendFusions adds fusions so that several entries share an owner / a beneficiary without being adjacent
func extendFusions(c *genesis.GenesisConfig) {
	if len(c.PlasmaConfig.Fusions) < 2 {
		return
	}
	// the mock configuration gives every fusion the zero id: entries of one owner collide (see the recorded finding); the lab's base has unique ids
	for i, f := range c.PlasmaConfig.Fusions {
		f.Id = types.NewHash([]byte(fmt.Sprintf("fusion-%d", i)))
	}
	f0, f1 := c.PlasmaConfig.Fusions[0], c.PlasmaConfig.Fusions[1]
	add := func(owner, ben types.Address, amt int64, tag string) {
		c.PlasmaConfig.Fusions = append(c.PlasmaConfig.Fusions, &fusionInfo{Owner: owner, Id: types.NewHash([]byte("lab-fusion-" + tag)), Amount: big.NewInt(amt), ExpirationHeight: 1, Beneficiary: ben})
		for _, b := range c.GenesisBlocks.Blocks {
			if b.Address == types.PlasmaContract {
				b.BalanceList[types.QsrTokenStandard].Add(b.BalanceList[types.QsrTokenStandard], big.NewInt(amt))
			}
		}
		ti := tokenRecord(c, types.QsrTokenStandard)
		c.TokenConfig.Tokens[ti].TotalSupply.Add(c.TokenConfig.Tokens[ti].TotalSupply, big.NewInt(amt))
	}
	add(f0.Owner, f0.Beneficiary, 1000_00000000, "a")
	add(f1.Owner, f1.Beneficiary, 2000_00000000, "b")
	add(f0.Owner, f0.Beneficiary, 4000_00000000, "c")
}

// C20 — genesis: same config, same chain; inconsistent config or database refused.
func C20(run *core.Run) {
	if os.Getenv("VERIF_CHILD") == "genesis-hash" {
		c20Child()
		return
	}
	run.Assume = []string{
		"perturbations are the single-entry perturbations the specification enumerates, applied to the repository's mock configuration (extended with fusions sharing owner and beneficiary)",
		"map ordering is exercised by fresh child processes and by seeded permutations of every list",
	}
	node.Quiet()
	res, err := core.RunTLC(core.TLCOpts{Module: "Genesis", CfgText: fmt.Sprintf(genesisCfg, "repaired", "FALSE"), Timeout: 5 * time.Minute})
	if err != nil || res.Violated != "" || res.Err != "" {
		core.Fatal("Genesis: %v %s %s", err, res.Violated, res.Err)
	}
	run.States += res.Distinct
	run.Transitions += res.Generated
	nc, err := core.RunTLC(core.TLCOpts{Module: "Genesis", CfgText: fmt.Sprintf(genesisCfg, "asFound", "FALSE"), Timeout: 5 * time.Minute})
	if err != nil || nc.Violated != "AcceptedImpliesConsistent" {
		core.Fatal("negative control (validator as found, F11/F18) not refuted")
	}
	run.Set("negative_controls", []string{"validator as found (sums listed amounts, inspects only the blocks it finds) -> TLC refutes AcceptedImpliesConsistent"})
	var cells []genCell
	_, err = core.RunTLC(core.TLCOpts{Module: "Genesis", CfgText: fmt.Sprintf(genesisCfg, "repaired", "TRUE"), Workers: 1, Timeout: 5 * time.Minute,
		OnLine: func(line string) {
			if js, ok := core.ParseB(line, "B"); ok {
				var c genCell
				if json.Unmarshal([]byte(js), &c) == nil {
					cells = append(cells, c)
				}
			}
		}})
	if err != nil {
		core.Fatal("Genesis cells: %v", err)
	}
	seen := map[string]bool{}
	base := cloneGenesis(g.EmbeddedGenesis)
	extendFusions(base)
	if err := genesis.CheckGenesis(base); err != nil {
		core.Fatal("the lab's base configuration is refused: %v", err)
	}
	// the mock configuration as it is: fusions of one owner share the zero id
	{
		a := cloneGenesis(g.EmbeddedGenesis)
		b := cloneGenesis(g.EmbeddedGenesis)
		n := len(b.PlasmaConfig.Fusions)
		collide := false
		for i := 0; i < n; i++ {
			for j := i + 1; j < n; j++ {
				if b.PlasmaConfig.Fusions[i].Owner == b.PlasmaConfig.Fusions[j].Owner && b.PlasmaConfig.Fusions[i].Id == b.PlasmaConfig.Fusions[j].Id {
					collide = true
				}
			}
		}
		for i, j := 0, n-1; i < j; i, j = i+1, j-1 { // the same entries, listed in reverse
			b.PlasmaConfig.Fusions[i], b.PlasmaConfig.Fusions[j] = b.PlasmaConfig.Fusions[j], b.PlasmaConfig.Fusions[i]
		}
		if collide && genesisFingerprint(a) != genesisFingerprint(b) {
			run.Report("C20:fusions-with-equal-owner-and-id-overwrite-each-other", "listing the fusion entries of the mock configuration (several share owner and id) in reverse order changes the genesis hash", nil)
		}
	}
	verdicts := map[string]string{}
	for _, cell := range cells {
		key := fmt.Sprintf("%s#%d", cell.K, cell.I)
		if seen[key] {
			continue
		}
		seen[key] = true
		c := cloneGenesis(base)
		if !applyGenesisPerturbation(c, cell) {
			core.Fatal("cannot concretise perturbation %s", key)
		}
		err := genesis.CheckGenesis(c)
		got := err == nil
		// the verdict is a function of the configuration: the same cell evaluated again (fresh copy, lists permuted) gets the same one
		pr := rand.New(rand.NewSource(run.Seed + int64(len(seen))))
		for k := 0; k < 12; k++ {
			c2 := cloneGenesis(base)
			applyGenesisPerturbation(c2, cell)
			if k%2 == 1 {
				permuteGenesis(c2, pr)
			}
			if err2 := genesis.CheckGenesis(c2); (err2 == nil) != got {
				run.Report(fmt.Sprintf("C20:perturbation-%s-verdict-varies", cell.K),
					fmt.Sprintf("configuration perturbed by %s (abstract block %d): CheckGenesis says accepted=%v (%v) on one evaluation and accepted=%v (%v) on another of the same configuration", cell.K, cell.I, got, err, err2 == nil, err2),
					map[string]interface{}{"kind": "genesis-perturbation", "cell": cell})
				if err2 == nil {
					got, err = true, nil // an acceptance counts
				}
				break
			}
		}
		verdicts[key] = fmt.Sprintf("accepted=%v", got)
		if got != cell.Accepted {
			run.Report(fmt.Sprintf("C20:perturbation-%s-accepted-%v", cell.K, got),
				fmt.Sprintf("configuration perturbed by %s (abstract block %d): CheckGenesis says accepted=%v (%v), the specification says accepted=%v (consistent=%v)", cell.K, cell.I, got, err, cell.Accepted, cell.Consistent),
				map[string]interface{}{"kind": "genesis-perturbation", "cell": cell})
		}
		run.Traces++
	}
	run.Set("perturbation_cells", verdicts)
	run.AddSample(map[string]interface{}{"perturbation_cells": cells[:3]})

	// determinism: permutations of every list, in this process and in fresh child processes
	want := genesisFingerprint(cloneGenesis(base))
	r := rand.New(rand.NewSource(run.Seed))
	nperm := 25
	if run.Thorough() {
		nperm = 300
	}
	for i := 0; i < nperm; i++ {
		c := cloneGenesis(base)
		permuteGenesis(c, r)
		if got := genesisFingerprint(c); got != want {
			run.Report("C20:genesis-depends-on-list-order", fmt.Sprintf("permuting the configuration's lists changes the genesis (hash/changes %s vs %s)", got, want), map[string]interface{}{"kind": "genesis-permutation", "seed": run.Seed, "permutation": i})
			break
		}
		run.Traces++
	}
	exe, _ := os.Executable()
	children := 3
	for i := 0; i < children; i++ {
		cmd := exec.Command(exe, "C20")
		cmd.Env = append(os.Environ(), "VERIF_CHILD=genesis-hash", fmt.Sprintf("VERIF_CHILD_SEED=%d", run.Seed*100+int64(i)))
		out, err := cmd.Output()
		if err != nil {
			core.Fatal("genesis child: %v", err)
		}
		got := ""
		for _, l := range strings.Split(string(out), "\n") {
			if strings.HasPrefix(l, "FINGERPRINT ") {
				got = strings.TrimPrefix(l, "FINGERPRINT ")
			}
		}
		if got != want {
			run.Report("C20:genesis-differs-across-processes", fmt.Sprintf("a fresh process builds genesis %s, this process %s", got, want), nil)
		}
		run.Traces++
	}
	run.Set("determinism", fmt.Sprintf("%d seeded permutations of all lists and %d fresh processes give the same genesis hash and state-change hash", nperm, children))

	// start-up: a database created under configuration A is refused under a different configuration B
	type variant struct {
		name string
		mod  func(c *genesis.GenesisConfig)
	}
	variants := []variant{
		{"same configuration", func(c *genesis.GenesisConfig) {}},
		{"lists permuted (same genesis)", func(c *genesis.GenesisConfig) { permuteGenesis(c, r) }},
		{"extra data changed", func(c *genesis.GenesisConfig) { c.ExtraData += "!" }},
		{"timestamp +1", func(c *genesis.GenesisConfig) { c.GenesisTimestampSec++ }},
		{"chain identifier changed", func(c *genesis.GenesisConfig) { c.ChainIdentifier++ }},
		{"one unit moved between two accounts", func(c *genesis.GenesisConfig) {
			a, b := genBlockIndex(c, 1), genBlockIndex(c, 2)
			z := types.ZnnTokenStandard
			c.GenesisBlocks.Blocks[a].BalanceList[z].Sub(c.GenesisBlocks.Blocks[a].BalanceList[z], big.NewInt(1))
			c.GenesisBlocks.Blocks[b].BalanceList[z].Add(c.GenesisBlocks.Blocks[b].BalanceList[z], big.NewInt(1))
		}},
	}
	dir, err := os.MkdirTemp(core.Scratch(), "genesis-db-")
	if err != nil {
		core.Fatal("%v", err)
	}
	defer os.RemoveAll(dir)
	{
		mgr := db.NewLevelDBManager(dir)
		ch := chain.NewChain(mgr, genesis.NewGenesis(cloneGenesis(base)))
		if err := ch.Init(); err != nil {
			core.Fatal("creating the database: %v", err)
		}
		ch.Stop()
	}
	for vi, v := range variants {
		c := cloneGenesis(base)
		v.mod(c)
		mgr := db.NewLevelDBManager(dir)
		ch := chain.NewChain(mgr, genesis.NewGenesis(c))
		err := ch.Init()
		ch.Stop()
		wantOK := vi <= 1
		if (err == nil) != wantOK {
			run.Report(fmt.Sprintf("C20:startup-%s", strings.ReplaceAll(v.name, " ", "-")), fmt.Sprintf("database created under the base configuration, node started with %q: Init error = %v", v.name, err), nil)
		}
		run.Traces++
	}
	run.Finish()
}

func c20Child() {
	node.Quiet()
	base := cloneGenesis(g.EmbeddedGenesis)
	extendFusions(base)
	var seed int64
	fmt.Sscan(os.Getenv("VERIF_CHILD_SEED"), &seed)
	permuteGenesis(base, rand.New(rand.NewSource(seed)))
	fmt.Printf("FINGERPRINT %s\n", genesisFingerprint(base))
	os.Exit(0)
}
