package checks

import (
	"encoding/json"
	"fmt"
	"math/big"
	"os"
	"time"

	g "github.com/zenon-network/go-zenon/chain/genesis/mock"
	"github.com/zenon-network/go-zenon/chain/nom"
	"github.com/zenon-network/go-zenon/common/types"
	"github.com/zenon-network/go-zenon/vm/constants"
	"github.com/zenon-network/go-zenon/vm/embedded/definition"
	"github.com/zenon-network/go-zenon/wallet"

	"verif/lab/core"
	"verif/lab/ledger"
	"verif/lab/node"
	"verif/lab/walk"
)

type lockStep struct {
	A     string `json:"a"`
	U     string `json:"u"`
	B     string `json:"b"`
	C     string `json:"c"`
	I     int    `json:"i"`
	Pre   string `json:"pre"`
	Allow bool   `json:"allow"`
	R     string `json:"r"`
	To    string `json:"to"`
	Now   int    `json:"now"`
}
type lockBehaviour struct {
	Steps []lockStep `json:"steps"`
}

const locksCfg = `CONSTANTS
  Users = {"u1","u2"}
  MaxEntries = %d
  MaxTime = 3
  WithHist = %s
INIT Init
NEXT Next
%s
CHECK_DEADLOCK FALSE
`

const (
	lockUnit = 10 // momentums per abstract time unit
	lockD    = 15 // real maturity = height of the creating receive + lockD
)

type lockKind struct {
	name     string
	contract types.Address
}

var lockKinds = []lockKind{{"fusion", types.PlasmaContract}, {"stake", types.StakeContract}, {"htlc", types.HtlcContract}, {"liquidity-stake", types.LiquidityContract}}

type lockEntry struct {
	send  map[string]*nom.AccountBlock // kind -> creating send
	amt   map[string]*big.Int
	pre   []byte
	owner *wallet.KeyPair
	ben   *wallet.KeyPair
}

// locksCheck: model-check Locks.tla, generate behaviours, replay each on one long-running producer for every kind of lock.
func locksCheck(run *core.Run, prop string) []ledgerRun {
	res, err := core.RunTLC(core.TLCOpts{Module: "Locks", CfgText: fmt.Sprintf(locksCfg, 2, "FALSE", "INVARIANTS NotTwice ReleasedOnlyTo PaidImpliesReleased"), Timeout: 10 * time.Minute})
	if err != nil || res.Violated != "" || res.Err != "" {
		core.Fatal("Locks: %v %s %s", err, res.Violated, res.Err)
	}
	run.States += res.Distinct
	run.Transitions += res.Generated
	// behaviours: complete edge cover for one entry; seeded random behaviours for two entries
	var behaviours []*lockBehaviour
	collect := func(args []string, maxEntries int, lastOnly bool) {
		var cur *lockBehaviour
		_, err := core.RunTLC(core.TLCOpts{Module: "Locks", CfgText: fmt.Sprintf(locksCfg, maxEntries, "TRUE", "VIEW GenView\nACTION_CONSTRAINT EmitEdge"), Workers: 1, Args: args, Timeout: 10 * time.Minute,
			OnLine: func(line string) {
				js, ok := core.ParseB(line, "B")
				if !ok {
					return
				}
				var b lockBehaviour
				if json.Unmarshal([]byte(js), &b) != nil {
					return
				}
				if lastOnly {
					if cur != nil && len(b.Steps) <= len(cur.Steps) {
						behaviours = append(behaviours, cur)
					}
					cur = &b
				} else {
					behaviours = append(behaviours, &b)
				}
			}})
		if err != nil {
			core.Fatal("Locks generation: %v", err)
		}
		if lastOnly && cur != nil {
			behaviours = append(behaviours, cur)
		}
	}
	collect(nil, 1, false)
	nEdge := len(behaviours)
	nsim := 25
	if run.Thorough() {
		nsim = 150
	}
	collect([]string{"-simulate", fmt.Sprintf("num=%d", nsim), "-depth", "12", "-seed", fmt.Sprint(run.Seed)}, 2, true)
	// keep only behaviours whose last step is an attempt or that are long (the others are prefixes)
	var keep []*lockBehaviour
	for i, b := range behaviours {
		last := b.Steps[len(b.Steps)-1]
		if i >= nEdge || last.A == "Withdraw" || last.A == "Unlock" {
			keep = append(keep, b)
		}
	}
	run.Set("locks_behaviours", fmt.Sprintf("%d edge-cover behaviours (one entry, complete) of which %d end in a release attempt, %d simulated behaviours (two entries)", nEdge, len(keep)-(len(behaviours)-nEdge), len(behaviours)-nEdge))

	// quick tier: a seeded sample of the edge cover; thorough: all of it
	if !run.Thorough() && len(keep) > 240 {
		var sample []*lockBehaviour
		step := len(keep) / 240
		for i := int(run.Seed) % step; i < len(keep); i += step {
			sample = append(sample, keep[i])
		}
		keep = sample
	}
	run.Set("locks_behaviours_replayed", len(keep))
	st := &locksStats{outcomes: map[string]int64{}}
	var out []ledgerRun
	for from := 0; from < len(keep); from += 120 {
		to := from + 120
		if to > len(keep) {
			to = len(keep)
		}
		out = append(out, locksReplayChunk(run, prop, keep[from:to], from, st))
	}
	run.Traces += int64(len(keep)) - st.skipped
	run.Set("locks_attempts_checked", st.attempts)
	run.Set("locks_attempts_paid", st.paidN)
	run.Set("locks_attempts_refused", st.refusedN)
	run.Set("locks_behaviours_skipped_too_dense", st.skipped)
	run.Set("locks_outcomes", st.outcomes)
	if st.attempts == 0 || st.paidN == 0 || st.refusedN == 0 {
		core.Fatal("vacuity: locks replay exercised attempts=%d paid=%d refused=%d", st.attempts, st.paidN, st.refusedN)
	}
	return out
}

type locksStats struct {
	attempts, paidN, refusedN, skipped int64
	outcomes                           map[string]int64
}

// locksReplayChunk replays a group of behaviours one after the other on one fresh producer, for every kind of lock.
func locksReplayChunk(run *core.Run, prop string, keep []*lockBehaviour, offset int, st *locksStats) ledgerRun {
	walk.LabConstants()
	constants.FuseExpiration = lockD
	constants.StakeTimeUnitSec = int64(lockD * 10)
	constants.StakeTimeMinSec = int64(lockD * 10)
	constants.StakeTimeMaxSec = int64(lockD * 10 * 12)
	cap := ledger.StartCapture()
	defer cap.Stop()
	p, err := node.New("locks", node.Options{Producer: true})
	if err != nil {
		core.Fatal("%v", err)
	}
	defer p.Stop()
	w := walk.New(p, run.Seed)
	id, err := w.ActivateSpork("spork-htlc")
	if err != nil {
		core.Fatal("htlc spork: %v", err)
	}
	setHtlcSpork(id)
	users := map[string]*wallet.KeyPair{"u1": g.User1, "u2": g.User2}
	// the liquidity contract takes stakes of the tokens its administrator listed: a lab token, listed through the two time challenges
	constants.InitialBridgeAdministrator.SetBytes(g.User5.Address.Bytes())
	constants.MinAdministratorDelay, constants.MinSoftDelay, constants.MinGuardians = 4, 2, 4
	lqIssue, err := p.Submit(&nom.AccountBlock{BlockType: nom.BlockTypeUserSend, Address: g.User1.Address, ToAddress: types.TokenContract, TokenStandard: types.ZnnTokenStandard, Amount: constants.TokenIssueAmount,
		Data: definition.ABIToken.PackMethodPanic(definition.IssueMethodName, "locks-liquidity", "LQ", "", unitsOf(2000000), unitsOf(2000000), uint8(8), false, true, false)}, g.User1)
	if err != nil {
		core.Fatal("locks replay: issue refused: %v", err)
	}
	lq := types.NewZenonTokenStandard(lqIssue.Hash.Bytes())
	core.Must(p.ProduceN(3))
	w.ReceivePending(g.User1)
	core.Must(p.ProduceN(1))
	if _, err := p.Submit(&nom.AccountBlock{BlockType: nom.BlockTypeUserSend, Address: g.User1.Address, ToAddress: g.User2.Address, TokenStandard: lq, Amount: unitsOf(1000000)}, g.User1); err != nil {
		core.Fatal("locks replay: sharing the liquidity token refused: %v", err)
	}
	adminCall := func(data []byte, delay int) {
		for k := 0; k < 2; k++ {
			if _, err := p.Submit(&nom.AccountBlock{BlockType: nom.BlockTypeUserSend, Address: g.User5.Address, ToAddress: types.LiquidityContract, TokenStandard: types.ZeroTokenStandard, Amount: big.NewInt(0), Data: data}, g.User5); err != nil {
				core.Fatal("locks replay: liquidity administration refused: %v", err)
			}
			core.Must(p.ProduceN(delay + 4))
		}
	}
	adminCall(definition.ABILiquidity.PackMethodPanic(definition.NominateGuardiansMethodName, []types.Address{g.User1.Address, g.User2.Address, g.User3.Address, g.User4.Address}), int(constants.MinAdministratorDelay))
	adminCall(definition.ABILiquidity.PackMethodPanic(definition.SetTokenTupleMethodName, []string{lq.String()}, []uint32{10000}, []uint32{10000}, []*big.Int{big.NewInt(1000)}), int(constants.MinSoftDelay))
	w.ReceivePending(g.User2)
	core.Must(p.ProduceN(1))
	if li, err := definition.GetLiquidityInfo(p.Chain.GetFrontierMomentumStore().GetAccountStore(types.LiquidityContract).Storage()); err != nil || len(li.TokenTuples) != 1 {
		core.Fatal("locks replay: the liquidity token tuple is not set (%v)", err)
	}
	t0 := time.Now()
	for bi0, b := range keep {
		bi := bi0 + offset
		if os.Getenv("VERIF_DEBUG") != "" && bi%10 == 0 {
			fmt.Fprintf(os.Stderr, "locks behaviour %d/%d height %d elapsed %v\n", bi, len(keep), p.Height(), time.Since(t0))
		}
		// align to a unit boundary
		for p.Height()%lockUnit != 0 {
			if err := p.Produce(0); err != nil {
				core.Fatal("%v", err)
			}
		}
		base := p.Height()
		// feasibility: at most 3 non-tick actions per unit
		cnt := map[int]int{}
		ok := true
		for _, s := range b.Steps {
			if s.A != "Tick" {
				cnt[s.Now]++
				if cnt[s.Now] > 3 {
					ok = false
				}
			}
		}
		if !ok {
			st.skipped++
			continue
		}
		var entries []*lockEntry
		type pending struct {
			step lockStep
			kind string
			send *nom.AccountBlock
			e    *lockEntry
		}
		var pend []pending
		unit := 0
		for si, s := range b.Steps {
			switch s.A {
			case "Tick":
				unit++
				for p.Height() < base+uint64(unit*lockUnit) {
					if err := p.Produce(0); err != nil {
						core.Fatal("%v", err)
					}
				}
				continue
			case "Deposit":
				e := &lockEntry{send: map[string]*nom.AccountBlock{}, amt: map[string]*big.Int{}, owner: users[s.U], ben: users[s.B], pre: []byte(fmt.Sprintf("pre-%d-%d", bi, si))}
				small := big.NewInt(int64(1000*(len(entries)+1) + bi%900))
				amt := new(big.Int).Add(big.NewInt(constants.Decimals), small)                                         // stake, htlc: 1 ZNN + a distinguishing remainder
				fuseAmt := new(big.Int).Mul(big.NewInt(int64(10+len(entries)+1+bi%5)), big.NewInt(constants.Decimals)) // fusion: whole QSR
				exp := p.MomentumAt(base).Timestamp.Unix() + int64((unit+2)*lockUnit-1)*10
				for _, k := range lockKinds {
					var blk *nom.AccountBlock
					switch k.name {
					case "fusion":
						blk, err = p.Submit(&nom.AccountBlock{BlockType: nom.BlockTypeUserSend, Address: e.owner.Address, ToAddress: k.contract, TokenStandard: types.QsrTokenStandard, Amount: fuseAmt,
							Data: definition.ABIPlasma.PackMethodPanic(definition.FuseMethodName, e.ben.Address)}, e.owner)
					case "stake":
						blk, err = p.Submit(&nom.AccountBlock{BlockType: nom.BlockTypeUserSend, Address: e.owner.Address, ToAddress: k.contract, TokenStandard: types.ZnnTokenStandard, Amount: amt,
							Data: definition.ABIStake.PackMethodPanic(definition.StakeMethodName, constants.StakeTimeMinSec)}, e.owner)
					case "htlc":
						blk, err = p.Submit(&nom.AccountBlock{BlockType: nom.BlockTypeUserSend, Address: e.owner.Address, ToAddress: k.contract, TokenStandard: types.ZnnTokenStandard, Amount: amt,
							Data: definition.ABIHtlc.PackMethodPanic(definition.CreateHtlcMethodName, e.ben.Address, exp, uint8(0), uint8(32), types.NewHash(e.pre).Bytes())}, e.owner)
					case "liquidity-stake":
						blk, err = p.Submit(&nom.AccountBlock{BlockType: nom.BlockTypeUserSend, Address: e.owner.Address, ToAddress: k.contract, TokenStandard: lq, Amount: amt,
							Data: definition.ABILiquidity.PackMethodPanic(definition.LiquidityStakeMethodName, constants.StakeTimeMinSec)}, e.owner)
					}
					if err != nil {
						core.Fatal("locks replay: deposit (%s) refused at send time: %v", k.name, err)
					}
					e.send[k.name] = blk
					e.amt[k.name] = amt
					if k.name == "fusion" {
						e.amt[k.name] = fuseAmt
					}
				}
				entries = append(entries, e)
			case "Withdraw", "Unlock":
				if s.I > len(entries) {
					core.Fatal("locks replay: behaviour refers to entry %d of %d", s.I, len(entries))
				}
				e := entries[s.I-1]
				caller := users[s.C]
				for _, k := range lockKinds {
					var data []byte
					switch {
					case s.A == "Withdraw" && k.name == "fusion":
						data = definition.ABIPlasma.PackMethodPanic(definition.CancelFuseMethodName, e.send[k.name].Hash)
					case s.A == "Withdraw" && k.name == "stake":
						data = definition.ABIStake.PackMethodPanic(definition.CancelStakeMethodName, e.send[k.name].Hash)
					case s.A == "Withdraw" && k.name == "htlc":
						data = definition.ABIHtlc.PackMethodPanic(definition.ReclaimHtlcMethodName, e.send[k.name].Hash)
					case s.A == "Withdraw" && k.name == "liquidity-stake":
						data = definition.ABILiquidity.PackMethodPanic(definition.CancelLiquidityStakeMethodName, e.send[k.name].Hash)
					case s.A == "Unlock" && k.name == "htlc":
						pre := e.pre
						if s.Pre == "wrong" {
							pre = []byte("wrong-preimage")
						}
						data = definition.ABIHtlc.PackMethodPanic(definition.UnlockHtlcMethodName, e.send[k.name].Hash, pre)
					default:
						continue
					}
					blk, err := p.Submit(&nom.AccountBlock{BlockType: nom.BlockTypeUserSend, Address: caller.Address, ToAddress: k.contract, Data: data}, caller)
					if err != nil {
						core.Fatal("locks replay: %s (%s) refused at send time: %v", s.A, k.name, err)
					}
					pend = append(pend, pending{s, k.name, blk, e})
				}
			case "SetProxy":
				m := definition.DenyHtlcProxyUnlockMethodName
				if s.Allow {
					m = definition.AllowHtlcProxyUnlockMethodName
				}
				u := users[s.U]
				if _, err := p.Submit(&nom.AccountBlock{BlockType: nom.BlockTypeUserSend, Address: u.Address, ToAddress: types.HtlcContract, Data: definition.ABIHtlc.PackMethodPanic(m)}, u); err != nil {
					core.Fatal("locks replay: SetProxy refused: %v", err)
				}
			}
			if err := p.Produce(0); err != nil {
				core.Fatal("%v", err)
			}
		}
		// let the last receives happen, then compare every attempt with the prediction
		p.ProduceN(3)
		// restore proxy permissions for the next behaviour
		for _, u := range users {
			p.Submit(&nom.AccountBlock{BlockType: nom.BlockTypeUserSend, Address: u.Address, ToAddress: types.HtlcContract, Data: definition.ABIHtlc.PackMethodPanic(definition.AllowHtlcProxyUnlockMethodName)}, u)
		}
		p.ProduceN(2)
		ms := p.Chain.GetFrontierMomentumStore()
		for _, pd := range pend {
			st.attempts++
			rb, err := ms.GetBlockWhichReceives(pd.send.Hash)
			if err != nil || rb == nil {
				run.ReportFor("C09", "C09:call-not-received", fmt.Sprintf("%s %s call %v was never received by the contract", pd.kind, pd.step.A, pd.send.Hash), map[string]interface{}{"kind": "locks", "behaviour": b})
				continue
			}
			var payee *types.Address
			total := new(big.Int)
			for _, d := range rb.DescendantBlocks {
				if d.Amount != nil && d.Amount.Sign() > 0 {
					a := d.ToAddress
					payee = &a
					total.Add(total, d.Amount)
				}
			}
			got := "refused"
			if payee != nil {
				got = "paid"
			}
			st.outcomes[pd.kind+"/"+pd.step.A+"/"+pd.step.R]++
			rep := map[string]interface{}{"kind": "locks", "lock": pd.kind, "behaviour": b, "attempt": pd.step}
			if got != pd.step.R {
				key := fmt.Sprintf("%s:%s-%s-predicted-%s-got-%s", prop, pd.kind, pd.step.A, pd.step.R, got)
				run.ReportFor(prop, key, fmt.Sprintf("%s: %s by %s at abstract time %d: the contract %s, the release rule says %s (behaviour %s)", pd.kind, pd.step.A, pd.step.C, pd.step.Now, got, pd.step.R, core.JSON(b.Steps)), rep)
				continue
			}
			if got == "paid" {
				st.paidN++
				if *payee != users[pd.step.To].Address {
					run.ReportFor(prop, prop+":"+pd.kind+"-paid-to-wrong-party", fmt.Sprintf("%s released to %v, the rule says %s", pd.kind, payee, pd.step.To), rep)
				}
				if total.Cmp(pd.e.amt[pd.kind]) != 0 {
					run.ReportFor(prop, prop+":"+pd.kind+"-paid-wrong-amount", fmt.Sprintf("%s released %v, locked %v", pd.kind, total, pd.e.amt[pd.kind]), rep)
				}
			} else {
				st.refusedN++
			}
		}
		if bi == 3 {
			run.AddSample(map[string]interface{}{"locks_behaviour": b.Steps})
		}
	}
	ids := cap.ChainIDs()
	pr := ledger.NewProjector()
	pr.Observer = ledger.StandardObserver(walk.EpochMomentums)
	if err := cap.Project(ids[0], pr); err != nil {
		core.Fatal("%v", err)
	}
	for _, pb := range p.Problems {
		run.ReportFor("C09", "C09:producer-problem", "producing pillar reported: "+pb, nil)
	}
	return ledgerRun{Name: fmt.Sprintf("locks replay, behaviours %d..%d on one producer", offset, offset+len(keep)-1), Events: pr.Events, Note: pr.Note}
}
