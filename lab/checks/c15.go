package checks

import (
	"bytes"
	"encoding/json"
	"fmt"
	"math/rand"
	"os"
	"os/exec"
	"strings"
	"time"

	"github.com/ethereum/go-ethereum/rlp"

	"github.com/zenon-network/go-zenon/chain/nom"
	"github.com/zenon-network/go-zenon/common/types"
	"github.com/zenon-network/go-zenon/p2p"
	"github.com/zenon-network/go-zenon/p2p/discover"
	"github.com/zenon-network/go-zenon/protocol"

	"verif/lab/core"
	"verif/lab/node"
	"verif/lab/walk"
)

const peerCfg = `CONSTANTS
  Peers = {"p1","p2"}
  MaxMsgs = 3
  WithHist = %s
INIT Init
NEXT Next
%s
CHECK_DEADLOCK FALSE
`

type peerStep struct {
	P     string `json:"p"`
	Code  string `json:"code"`
	Class string `json:"class"`
	K     string `json:"k"`
	Max   int    `json:"max"`
}
type peerBehaviour struct {
	Steps []peerStep `json:"steps"`
}

// C15 — untrusted peers cannot crash, stall or bloat the node.
func C15(run *core.Run) {
	if os.Getenv("VERIF_CHILD") == "peer-session" {
		c15Child()
		return
	}
	run.Assume = []string{
		"message payloads are one or two representatives per class (plus seeded random bytes)",
		"the node runs in a child process so that a crash of a background goroutine is observed as a crash",
	}
	res, err := core.RunTLC(core.TLCOpts{Module: "PeerSession", CfgText: fmt.Sprintf(peerCfg, "FALSE", "INVARIANTS NodeAlive\nPROPERTIES OnlyOffenderDropped"), Timeout: 5 * time.Minute})
	if err != nil || res.Violated != "" || res.Err != "" {
		core.Fatal("PeerSession: %v %s %s", err, res.Violated, res.Err)
	}
	run.States += res.Distinct
	run.Transitions += res.Generated
	var behaviours []string
	_, err = core.RunTLC(core.TLCOpts{Module: "PeerSession", CfgText: fmt.Sprintf(peerCfg, "TRUE", "VIEW GenView\nACTION_CONSTRAINT EmitEdge"), Workers: 1, Timeout: 5 * time.Minute,
		OnLine: func(line string) {
			if js, ok := core.ParseB(line, "B"); ok {
				behaviours = append(behaviours, js)
			}
		}})
	if err != nil {
		core.Fatal("PeerSession generation: %v", err)
	}
	if run.Thorough() {
		// longer sessions: random walks of ten messages over both peers
		long := strings.Replace(peerCfg, "MaxMsgs = 3", "MaxMsgs = 10", 1)
		cur := ""
		curLen := 0
		_, err = core.RunTLC(core.TLCOpts{Module: "PeerSession", CfgText: fmt.Sprintf(long, "TRUE", "VIEW GenView\nACTION_CONSTRAINT EmitEdge"), Workers: 1, Timeout: 10 * time.Minute,
			Args: []string{"-simulate", "num=400", "-depth", "11", "-seed", fmt.Sprint(run.Seed)},
			OnLine: func(line string) {
				if js, ok := core.ParseB(line, "B"); ok {
					n := strings.Count(js, "\"code\"")
					if cur != "" && n <= curLen {
						behaviours = append(behaviours, cur)
					}
					cur, curLen = js, n
				}
			}})
		if err != nil {
			core.Fatal("PeerSession simulation: %v", err)
		}
		if cur != "" {
			behaviours = append(behaviours, cur)
		}
	}
	dir, err := os.MkdirTemp(core.Scratch(), "peers-")
	if err != nil {
		core.Fatal("%v", err)
	}
	defer os.RemoveAll(dir)
	file := dir + "/behaviours.ndjson"
	os.WriteFile(file, []byte(strings.Join(behaviours, "\n")+"\n"), 0o644)
	exe, _ := os.Executable()
	cmd := exec.Command(exe, "C15")
	cmd.Env = append(os.Environ(), "VERIF_CHILD=peer-session", "VERIF_CHILD_FILE="+file, fmt.Sprintf("VERIF_CHILD_SEED=%d", run.Seed))
	out, err := cmd.CombinedOutput()
	s := string(out)
	last := lastMarker(s, "BEHAVIOUR ")
	for _, l := range strings.Split(s, "\n") {
		if strings.HasPrefix(l, "MISMATCH ") {
			parts := strings.SplitN(l, " ", 3)
			key, what := "C15:reaction", l
			if len(parts) == 3 {
				key, what = "C15:"+parts[1], parts[2]
			}
			run.Report(key, what, map[string]interface{}{"kind": "peer-behaviour", "line": l})
		}
	}
	if !strings.Contains(s, "NODE-SURVIVED") {
		idx := 0
		fmt.Sscan(last, &idx)
		b := "?"
		if idx < len(behaviours) {
			b = behaviours[idx]
		}
		reason := "crash"
		if strings.Contains(s, "nil pointer") {
			reason = "nil-pointer"
		}
		lastMsg := lastLine(s, "SENDING ")
		run.Report("C15:node-terminated-"+reason+"-"+lastMsg, fmt.Sprintf("the node process died (%v) while a peer sent %s (behaviour %s): %s", err, lastMsg, b, tail(s, 500)), map[string]interface{}{"kind": "peer-behaviour", "behaviour": b})
	} else {
		var n int
		fmt.Sscan(last, &n)
		run.Traces += int64(n + 1)
	}
	run.Set("peer_behaviours", fmt.Sprintf("%d behaviours (one per transition, <= 3 messages, 2 peers; in the thorough tier also 400 random walks of ten messages) replayed over p2p.MsgPipe against a node with a 600-momentum chain", len(behaviours)))
	if len(behaviours) > 50 {
		var b peerBehaviour
		json.Unmarshal([]byte(behaviours[50]), &b)
		run.AddSample(map[string]interface{}{"peer_behaviour": b.Steps})
	}
	wireCheck(run)
	syncSessCheck(run)
	gossipCheck(run)
	run.Finish()
}

func lastLine(s, prefix string) string {
	out := "?"
	for _, l := range strings.Split(s, "\n") {
		if strings.HasPrefix(l, prefix) {
			out = strings.TrimSpace(strings.TrimPrefix(l, prefix))
		}
	}
	return strings.ReplaceAll(out, " ", "-")
}

// ---- child --------------------------------------------------------------------------------------

type labPeer struct {
	app   *p2p.MsgPipeRW
	in    chan p2p.Msg
	done  chan error
	items chan [2]int // code, number of items
}

func countItems(payload []byte) int {
	content, _, err := rlp.SplitList(payload)
	if err != nil {
		return -1
	}
	n, err := rlp.CountValues(content)
	if err != nil {
		return -1
	}
	return n
}

func newLabPeer(pm *protocol.ProtocolManager, id byte) *labPeer {
	app, net := p2p.MsgPipe()
	lp := &labPeer{app: app, done: make(chan error, 1), items: make(chan [2]int, 64)}
	var nid discover.NodeID
	nid[0] = id
	nid[1] = byte(rand.Intn(250))
	nid[2] = byte(time.Now().UnixNano())
	peer := p2p.NewPeer(nid, fmt.Sprintf("lab-peer-%d", id), nil)
	go func() {
		defer func() {
			if r := recover(); r != nil {
				fmt.Printf("PANIC-IN-SESSION %v\n", r)
				os.Exit(7)
			}
		}()
		err := pm.SubProtocols[0].Run(peer, net)
		net.Close() // as the p2p layer does when a protocol returns
		lp.done <- err
	}()
	go func() {
		for {
			msg, err := app.ReadMsg()
			if err != nil {
				return
			}
			data := make([]byte, msg.Size)
			msg.Payload.Read(data)
			if msg.Size > 0 {
				buf := new(bytes.Buffer)
				buf.Write(data)
			}
			msg.Discard()
			select {
			case lp.items <- [2]int{int(msg.Code), countItems(data)}:
			default:
			}
		}
	}()
	return lp
}

func (lp *labPeer) sendRaw(code uint64, payload []byte) error {
	done := make(chan error, 1)
	go func() {
		done <- lp.app.WriteMsg(p2p.Msg{Code: code, Size: uint32(len(payload)), Payload: bytes.NewReader(payload)})
	}()
	select {
	case err := <-done:
		return err
	case <-time.After(10 * time.Second):
		return fmt.Errorf("write blocked")
	}
}

func (lp *labPeer) send(code uint64, v interface{}) error {
	data, err := rlp.EncodeToBytes(v)
	if err != nil {
		return err
	}
	return lp.sendRaw(code, data)
}

// waitReply waits for a message of the given code; returns the item count
func (lp *labPeer) waitReply(code int, d time.Duration) (int, bool) {
	deadline := time.After(d)
	for {
		select {
		case it := <-lp.items:
			if it[0] == code {
				return it[1], true
			}
		case <-deadline:
			return 0, false
		}
	}
}

func (lp *labPeer) dropped(d time.Duration) bool {
	select {
	case <-lp.done:
		lp.done <- fmt.Errorf("ended")
		return true
	case <-time.After(d):
		return false
	}
}

type statusData struct {
	ProtocolVersion uint32
	NetworkId       uint32
	TD              uint64
	CurrentBlock    types.Hash
	GenesisBlock    types.Hash
}
type getHashes struct {
	Hash   types.Hash
	Amount uint64
}
type getHashesFromNumber struct {
	Number uint64
	Amount uint64
}

func c15Child() {
	walk.LabConstants()
	var seed int64
	fmt.Sscan(os.Getenv("VERIF_CHILD_SEED"), &seed)
	r := rand.New(rand.NewSource(seed))
	p, err := node.New("peer-node", node.Options{Producer: true})
	if err != nil {
		os.Exit(3)
	}
	if err := p.ProduceN(600); err != nil {
		fmt.Println("cannot produce", err)
		os.Exit(3)
	}
	node.Clock.Set(p.Frontier().Timestamp.Add(time.Minute))
	pm := protocol.NewProtocolManager(1, p.Chain.ChainIdentifier(), p.Bridge)
	pm.Start()
	known := p.MomentumAt(300).Hash
	unknown := types.NewHash([]byte("no such momentum"))
	genesisHash := p.Genesis.GetGenesisMomentum().Hash
	garbage := func() []byte {
		b := make([]byte, 1+r.Intn(60))
		r.Read(b)
		return b
	}
	var hashes200 []types.Hash
	for h := uint64(100); h < 300; h++ {
		hashes200 = append(hashes200, p.MomentumAt(h).Hash)
	}
	codeOf := map[string]uint64{"Status": 0, "NewBlockHashes": 1, "Tx": 2, "GetBlockHashes": 3, "BlockHashes": 4, "GetBlocks": 5, "Blocks": 6, "NewBlock": 7, "GetBlockHashesFromNumber": 8, "Unknown": 23, "Any": 3}
	sendStep := func(lp *labPeer, s peerStep) error {
		code := codeOf[s.Code]
		switch s.Code + "/" + s.Class {
		case "Status/valid":
			return lp.send(code, &statusData{61, uint32(p.Chain.ChainIdentifier()), 1, genesisHash, genesisHash})
		case "Status/wrongGenesis":
			return lp.send(code, &statusData{61, uint32(p.Chain.ChainIdentifier()), 1, genesisHash, unknown})
		case "GetBlockHashes/known-small":
			return lp.send(code, &getHashes{known, 5})
		case "GetBlockHashes/known-0":
			return lp.send(code, &getHashes{known, 0})
		case "GetBlockHashes/known-513":
			return lp.send(code, &getHashes{p.Frontier().Hash, 513})
		case "GetBlockHashes/known-2^63":
			return lp.send(code, &getHashes{p.Frontier().Hash, 1 << 63})
		case "GetBlockHashes/known-max":
			return lp.send(code, &getHashes{p.Frontier().Hash, ^uint64(0)})
		case "GetBlockHashes/unknown":
			return lp.send(code, &getHashes{unknown, 10})
		case "GetBlockHashesFromNumber/1-small":
			return lp.send(code, &getHashesFromNumber{1, 5})
		case "GetBlockHashesFromNumber/0-0":
			return lp.send(code, &getHashesFromNumber{0, 0})
		case "GetBlockHashesFromNumber/1-max":
			return lp.send(code, &getHashesFromNumber{1, ^uint64(0)})
		case "GetBlockHashesFromNumber/beyond":
			return lp.send(code, &getHashesFromNumber{100000, 10})
		case "GetBlockHashesFromNumber/max-max":
			return lp.send(code, &getHashesFromNumber{^uint64(0), ^uint64(0)})
		case "GetBlocks/known-1":
			return lp.send(code, []types.Hash{known})
		case "GetBlocks/known-200":
			return lp.send(code, hashes200)
		case "GetBlocks/unknown":
			return lp.send(code, []types.Hash{unknown, unknown})
		case "GetBlocks/empty":
			return lp.send(code, []types.Hash{})
		case "BlockHashes/wellformed":
			return lp.send(code, []types.Hash{unknown})
		case "Blocks/empty":
			return lp.send(code, []*nom.DetailedMomentum{})
		case "Blocks/nil-momentum":
			return lp.sendRaw(code, []byte{0xc2, 0xc1, 0xc0}) // a list holding one entry whose momentum is an empty list
		case "NewBlockHashes/unknown":
			return lp.send(code, []types.Hash{unknown})
		case "NewBlock/nil":
			return lp.sendRaw(code, []byte{0xc0})
		case "NewBlock/nil-momentum":
			return lp.sendRaw(code, []byte{0xc2, 0xc0, 0xc0})
		case "NewBlock/height-inconsistent":
			dm := p.Bridge.GetBlock(p.Frontier().Hash)
			w, _ := node.Wire(dm)
			w.Momentum.Height += 5 // previous hash is known, the height does not fit
			w.Momentum.Hash = w.Momentum.ComputeHash()
			return lp.send(code, w)
		case "Tx/empty":
			return lp.send(code, []*nom.AccountBlock{})
		case "Tx/nil-entry":
			return lp.sendRaw(code, []byte{0xc1, 0xc0})
		case "Tx/invalid-block":
			dm := p.Bridge.GetBlock(p.MomentumAt(1).Hash)
			if len(dm.AccountBlocks) == 0 {
				return lp.send(code, []*nom.AccountBlock{})
			}
			b, _ := node.WireBlock(dm.AccountBlocks[0])
			b.Height += 100
			return lp.send(code, []*nom.AccountBlock{b})
		case "Any/oversized":
			lp.sendRaw(code, make([]byte, 11*1024*1024))
			return nil
		}
		// garbage / unknown code
		return lp.sendRaw(code, garbage())
	}
	probe := func(lp *labPeer) bool {
		if err := lp.send(8, &getHashesFromNumber{1, 1}); err != nil {
			return false
		}
		n, ok := lp.waitReply(4, 5*time.Second)
		return ok && n == 1
	}
	file, err := os.ReadFile(os.Getenv("VERIF_CHILD_FILE"))
	if err != nil {
		os.Exit(3)
	}
	lines := strings.Split(strings.TrimSpace(string(file)), "\n")
	for bi, line := range lines {
		var b peerBehaviour
		if json.Unmarshal([]byte(line), &b) != nil {
			continue
		}
		fmt.Printf("BEHAVIOUR %d\n", bi)
		peers := map[string]*labPeer{}
		state := map[string]string{}
		for si, s := range b.Steps {
			lp := peers[s.P]
			if lp == nil {
				lp = newLabPeer(pm, byte(len(peers)+1))
				peers[s.P] = lp
				state[s.P] = "pre"
			}
			fmt.Printf("SENDING %s/%s\n", s.Code, s.Class)
			if err := sendStep(lp, s); err != nil && s.K != "drop" {
				fmt.Printf("MISMATCH send-failed behaviour %d step %d %s/%s: cannot send: %v\n", bi, si+1, s.Code, s.Class, err)
				break
			}
			replyCode := 4
			if s.Code == "GetBlocks" {
				replyCode = 6
			}
			switch s.K {
			case "reply":
				n, ok := lp.waitReply(replyCode, 8*time.Second)
				if !ok {
					if lp.dropped(100 * time.Millisecond) {
						fmt.Printf("MISMATCH dropped-instead-of-reply-%s-%s behaviour %d step %d: the session ended although %s/%s requires an answer\n", s.Code, s.Class, bi, si+1, s.Code, s.Class)
					} else {
						fmt.Printf("MISMATCH no-reply-%s-%s behaviour %d step %d: no answer to %s/%s within 8s\n", s.Code, s.Class, bi, si+1, s.Code, s.Class)
					}
				} else if n > s.Max {
					fmt.Printf("MISMATCH reply-over-limit-%s-%s behaviour %d step %d: %s/%s answered with %d items, the limit is %d\n", s.Code, s.Class, bi, si+1, s.Code, s.Class, n, s.Max)
				}
			case "drop":
				if !lp.dropped(8 * time.Second) {
					fmt.Printf("MISMATCH not-dropped-%s-%s behaviour %d step %d: the session goes on after %s/%s\n", s.Code, s.Class, bi, si+1, s.Code, s.Class)
				}
				state[s.P] = "dropped"
			case "handshake", "silent":
				if s.K == "handshake" {
					state[s.P] = "active"
				}
				if !probe(lp) {
					fmt.Printf("MISMATCH session-lost-after-%s-%s behaviour %d step %d: after %s/%s (required: %s) the session does not answer a plain request\n", s.Code, s.Class, bi, si+1, s.Code, s.Class, s.K)
				}
			}
		}
		// the other peers are still served
		for name, lp := range peers {
			if state[name] == "active" && !probe(lp) {
				fmt.Printf("MISMATCH other-peer-not-served behaviour %d: peer %s is no longer answered\n", bi, name)
			}
			lp.app.Close()
		}
		time.Sleep(5 * time.Millisecond)
	}
	time.Sleep(500 * time.Millisecond) // let background goroutines (fetcher, downloader) hit whatever they hit
	fmt.Println("NODE-SURVIVED")
	os.Exit(0)
}
