package checks

import (
	"bytes"
	"encoding/json"
	"fmt"
	"math/big"
	"math/rand"
	"os"
	"sort"
	"strconv"
	"strings"
	"time"

	g "github.com/zenon-network/go-zenon/chain/genesis/mock"
	"github.com/zenon-network/go-zenon/chain/nom"
	"github.com/zenon-network/go-zenon/common/types"
	"github.com/zenon-network/go-zenon/consensus"
	"github.com/zenon-network/go-zenon/vm/constants"
	"github.com/zenon-network/go-zenon/wallet"

	"verif/lab/core"
	"verif/lab/node"
	"verif/lab/walk"
)

const electionMCCfg = `CONSTANTS
  MaxP = %d
  NodeCount = 3
  RandCount = 1
  Weights = {0, 1, 2}
INIT Init
NEXT Next
INVARIANTS ExactlyNodeCountSlots EverySlotARegisteredPillar NoDuplicateWhenEnough OrderIndependent AtMostRandCountOutsiders
CHECK_DEADLOCK FALSE
`
const electionTraceCfg = `CONSTANTS
  TraceFile = "trace.ndjson"
INIT TInit
NEXT TNext
CONSTRAINT HighWater
POSTCONDITION Accepted
CHECK_DEADLOCK FALSE
`

type elecD struct {
	Name string `json:"name"`
	Nr   int    `json:"nr"`
	W    int    `json:"w"`
}
type elecPerm struct {
	S int   `json:"s"`
	N int   `json:"n"`
	P []int `json:"p"`
}
type elecEvent struct {
	Ev        string     `json:"ev"`
	Src       string     `json:"src"`
	D         []elecD    `json:"D"`
	NodeCount int        `json:"nodeCount"`
	RandCount int        `json:"randCount"`
	Perms     []elecPerm `json:"perms"`
	Out       []string   `json:"out"`
}

func goPerm(seed int64, n int) []int {
	p := rand.New(rand.NewSource(seed)).Perm(n)
	out := make([]int, n)
	for i, v := range p {
		out[i] = v + 1
	}
	return out
}

// election event for a list of delegations, a seed and the schedule a node reported
func mkElecEvent(src string, ds []*types.PillarDelegation, seed int64, nodeCount, randCount int, out []string) elecEvent {
	names := make([]string, len(ds))
	for i, d := range ds {
		names[i] = d.Name
	}
	sorted := append([]string{}, names...)
	sort.Strings(sorted)
	nr := map[string]int{}
	for i, n := range sorted {
		nr[n] = i + 1
	}
	// dense rank of the weights
	var ws []*big.Int
	for _, d := range ds {
		ws = append(ws, d.Weight)
	}
	sort.Slice(ws, func(i, j int) bool { return ws[i].Cmp(ws[j]) < 0 })
	rank := func(w *big.Int) int {
		r := 0
		var prev *big.Int
		for _, x := range ws {
			if prev == nil || x.Cmp(prev) != 0 {
				r++
				prev = x
			}
			if x.Cmp(w) == 0 {
				return r
			}
		}
		return r
	}
	ev := elecEvent{Ev: "Election", Src: src, NodeCount: nodeCount, RandCount: randCount, Out: out, D: []elecD{}, Perms: []elecPerm{}}
	for _, d := range ds {
		ev.D = append(ev.D, elecD{d.Name, nr[d.Name], rank(d.Weight)})
	}
	k := len(ds)
	na := k
	if k > nodeCount {
		na = nodeCount
	}
	need := map[[2]int]bool{{0, na}: true, {0, nodeCount}: true}
	if k >= nodeCount {
		need[[2]int{1, k - nodeCount + randCount}] = true
	}
	for sn := range need {
		if sn[1] > 0 {
			ev.Perms = append(ev.Perms, elecPerm{sn[0], sn[1], goPerm(seed+int64(sn[0]), sn[1])})
		}
	}
	sort.Slice(ev.Perms, func(i, j int) bool { return ev.Perms[i].S*1000+ev.Perms[i].N < ev.Perms[j].S*1000+ev.Perms[j].N })
	return ev
}

func validateElectionTrace(events []elecEvent) (rejected int, states int64, err error) {
	var buf bytes.Buffer
	for _, e := range events {
		line, _ := json.Marshal(e)
		buf.Write(line)
		buf.WriteByte('\n')
	}
	rej := 0
	res, e := core.RunTLC(core.TLCOpts{Module: "ElectionTrace", CfgText: electionTraceCfg, Workers: 1, Timeout: 20 * time.Minute,
		Files: map[string]string{"trace.ndjson": buf.String()},
		OnLine: func(line string) {
			if m := reRejected.FindStringSubmatch(line); m != nil {
				rej, _ = strconv.Atoi(m[1])
			}
		}})
	if e != nil {
		return 0, 0, e
	}
	if res.Err != "" && rej == 0 {
		os.WriteFile("/tmp/election_fail.ndjson", buf.Bytes(), 0o644)
		return 0, res.Distinct, fmt.Errorf("TLC error in election trace validation: %s | %s", res.Err, strings.Join(res.Tail, " | "))
	}
	return rej, res.Distinct, nil
}

// schedule of the tick containing time t as a node reports it: one producer per slot
func nodeSchedule(n *node.Node, tickStart time.Time, slots int, names map[types.Address]string) ([]string, error) {
	var out []string
	for i := 0; i < slots; i++ {
		p, err := n.Cons.GetMomentumProducer(tickStart.Add(time.Duration(10*i) * time.Second))
		if err != nil {
			return nil, err
		}
		nm, ok := names[*p]
		if !ok {
			nm = "unregistered:" + p.String()
		}
		out = append(out, nm)
	}
	return out, nil
}

// C05 — momentums come only from the elected pillar; the schedule is deterministic.
func C05(run *core.Run) {
	run.Assume = []string{
		"math/rand's permutation enters the specification as data (the tables Go yields for the seeds used), it is not modelled",
		"'not in the future' is exercised with the lab clock one hour ahead / behind",
	}
	maxP := 5
	res, err := core.RunTLC(core.TLCOpts{Module: "ElectionMC", CfgText: fmt.Sprintf(electionMCCfg, maxP), Timeout: 20 * time.Minute})
	if err != nil || res.Violated != "" || res.Err != "" {
		core.Fatal("ElectionMC: %v %s %s", err, res.Violated, res.Err)
	}
	run.States += res.Distinct
	run.Transitions += res.Generated
	run.Set("mc_config", fmt.Sprintf("ElectionMC: every configuration of <= %d pillars with weights 0..2 and every permutation math/rand could yield, NodeCount 3 / RandCount 1: %d configurations", maxP, res.Distinct))

	var events []elecEvent
	// (a) the real SelectProducers on seeded configurations, small and real group sizes
	r := rand.New(rand.NewSource(run.Seed))
	nDirect := 400
	if run.Thorough() {
		nDirect = 4000
	}
	for i := 0; i < nDirect; i++ {
		nc, rc := 3, 1
		if i%2 == 1 {
			nc, rc = int(constants.ConsensusConfig.NodeCount), int(constants.ConsensusConfig.RandCount)
		}
		k := 1 + r.Intn(nc+12)
		var ds []*types.PillarDelegation
		for j := 0; j < k; j++ {
			ds = append(ds, &types.PillarDelegation{Name: fmt.Sprintf("p%02d", j), Producing: g.PillarKeys[j%len(g.PillarKeys)].Address, Weight: big.NewInt(int64(r.Intn(4)))})
		}
		r.Shuffle(len(ds), func(a, b int) { ds[a], ds[b] = ds[b], ds[a] })
		input := make([]*types.PillarDelegation, len(ds))
		copy(input, ds)
		seed := int64(1 + r.Intn(5000))
		ctx := &consensus.Context{Consensus: constants.Consensus{BlockTime: 10, NodeCount: uint8(nc), RandCount: uint8(rc), CountingZTS: types.ZnnTokenStandard}}
		algo := consensus.NewElectionAlgorithm(ctx)
		got := algo.SelectProducers(consensus.NewAlgorithmContext(ds, &types.HashHeight{Height: uint64(seed)}))
		var out []string
		for _, p := range got {
			out = append(out, p.Name)
		}
		events = append(events, mkElecEvent(fmt.Sprintf("SelectProducers #%d", i), input, seed, nc, rc, out))
	}
	direct := len(events)
	// (b) nodes: a history with changing delegations; every tick's schedule on four differently built nodes
	walk.LabConstants()
	node.Clock.Set(time.Unix(1000000000, 0))
	p, err := node.New("producer", node.Options{Producer: true})
	if err != nil {
		core.Fatal("%v", err)
	}
	defer p.Stop()
	w := walk.New(p, run.Seed+11)
	hist := 150
	if run.Thorough() {
		hist = 400
	}
	if err := w.Run(hist); err != nil {
		core.Fatal("C05 walk: %v", err)
	}
	top := p.Height()
	all, err := p.Detailed(2, top)
	if err != nil {
		core.Fatal("%v", err)
	}
	node.Clock.Set(p.Frontier().Timestamp.Add(time.Hour))
	build := func(name string, batches int, restart bool, detour bool) *node.Node {
		f, err := node.New(name, node.Options{})
		if err != nil {
			core.Fatal("%v", err)
		}
		if detour && len(all) > 70 {
			// adopt a competing branch first (built by another producer from height 40), then reorganise onto the main chain
			alt, err := node.New("alt", node.Options{Producer: true})
			if err != nil {
				core.Fatal("%v", err)
			}
			if _, err := alt.InsertChain(wireAll(all[:40])); err != nil {
				core.Fatal("alt: %v", err)
			}
			node.Clock.Set(alt.Frontier().Timestamp.Add(0))
			alt.Produce(2) // skips slots: another proof momentum for later ticks
			alt.ProduceN(24)
			branch, _ := alt.Detailed(42, alt.Height())
			alt.Stop()
			node.Clock.Set(p.Frontier().Timestamp.Add(time.Hour))
			if _, err := f.InsertChain(wireAll(all[:40])); err != nil {
				core.Fatal("detour: %v", err)
			}
			if _, err := f.InsertChain(wireAll(branch)); err != nil {
				core.Fatal("detour branch: %v", err)
			}
			// ask for schedules while on the branch (fills caches)
			for i := 0; i < 6; i++ {
				f.Cons.GetMomentumProducer(f.Frontier().Timestamp.Add(time.Duration(i*100) * time.Second))
			}
		}
		size := (len(all) + batches - 1) / batches
		for from := 0; from < len(all); from += size {
			to := from + size
			if to > len(all) {
				to = len(all)
			}
			if idx, err := f.InsertChain(wireAll(all[from:to])); err != nil {
				run.Report("C05:node-refuses-momentum-of-the-elected-pillar", fmt.Sprintf("%s refuses the producer's chain at momentum %d: %v - its schedule differs from the one the producer (and every fresh node) derives", name, from+idx+2, err),
					map[string]interface{}{"kind": "election-node", "node": name})
				break
			}
			if restart && from == 0 {
				dir := f.Dir
				f.StopKeepDir()
				nf, err := node.New(name+"-restarted", node.Options{Dir: dir})
				if err != nil {
					core.Fatal("%v", err)
				}
				nf.OwnDir()
				f = nf
			}
		}
		return f
	}
	nodes := map[string]*node.Node{"producer (live)": p, "follower (one batch)": build("f1", 1, false, false),
		"follower (7 batches, restarted)": build("f2", 7, true, false), "follower (after a reorganisation across ticks)": build("f3", 1, false, true)}
	defer func() {
		for k, n := range nodes {
			if k != "producer (live)" {
				n.Stop()
			}
		}
	}()
	genesisT := *p.Genesis.GetGenesisMomentum().Timestamp
	tickLen := time.Duration(10*int(constants.ConsensusConfig.NodeCount)) * time.Second
	lastTick := int(p.Frontier().Timestamp.Sub(genesisT) / tickLen)
	ticks := 0
	for tick := 0; tick <= lastTick; tick++ {
		// inputs: the delegations as of the proof momentum, read from the producer's chain
		proofTime := genesisT.Add(time.Second)
		if tick >= 2 {
			proofTime = genesisT.Add(time.Duration(tick-1) * tickLen)
		}
		proof, err := p.Chain.GetFrontierMomentumStore().GetMomentumBeforeTime(&proofTime)
		if err != nil || proof == nil {
			core.Fatal("proof momentum of tick %d: %v", tick, err)
		}
		dd, err := p.Chain.GetMomentumStore(proof.Identifier()).ComputePillarDelegations()
		if err != nil {
			core.Fatal("delegations: %v", err)
		}
		ds := types.ToPillarDelegation(dd)
		names := map[types.Address]string{}
		for _, d := range ds {
			names[d.Producing] = d.Name
		}
		for name, n := range nodes {
			out, err := nodeSchedule(n, genesisT.Add(time.Duration(tick)*tickLen), int(constants.ConsensusConfig.NodeCount), names)
			if err != nil {
				run.Report("C05:schedule-unavailable", fmt.Sprintf("%s cannot compute the schedule of tick %d: %v", name, tick, err), nil)
				continue
			}
			events = append(events, mkElecEvent(fmt.Sprintf("tick %d on %s (proof height %d)", tick, name, proof.Height), ds, int64(proof.Height),
				int(constants.ConsensusConfig.NodeCount), int(constants.ConsensusConfig.RandCount), out))
		}
		ticks++
	}
	// validate; on a rejection drop the event and continue, so that every event is examined
	todo := events
	for len(todo) > 0 {
		rej, states, err := validateElectionTrace(todo)
		if err != nil {
			core.Fatal("%v", err)
		}
		run.States += states
		if rej == 0 {
			break
		}
		bad := todo[rej-1]
		key := "C05:schedule-differs-from-specification"
		if rej-1 >= 0 && len(bad.Src) > 4 && bad.Src[:4] == "tick" {
			key = "C05:node-schedule-differs-from-specification"
		}
		run.Report(key, fmt.Sprintf("%s: reported schedule %v is not Schedule(delegations as of the proof momentum, permutations of seed %v)", bad.Src, bad.Out, bad.Perms), map[string]interface{}{"kind": "election-event", "event": bad})
		todo = append(append([]elecEvent{}, todo[:rej-1]...), todo[rej:]...)
	}
	run.Transitions += int64(len(events))
	run.Traces += int64(len(events))
	run.Set("election_events_validated", fmt.Sprintf("%d calls of the real SelectProducers, %d ticks x %d nodes", direct, ticks, len(nodes)))
	if len(events) > 0 {
		run.AddSample(events[len(events)-1])
	}
	c05Mutations(run, p, all)
	c05OwnProduction(run, p)
	run.Finish()
}

// c05Mutations: every guard of Accept is broken in turn on a valid momentum, re-hashed and re-signed where that is what an attacker would do.
func c05Mutations(run *core.Run, p *node.Node, all []*nom.DetailedMomentum) {
	if len(all) < 20 {
		core.Fatal("history too short for mutations")
	}
	cut := len(all) - 5
	target := all[cut] // the momentum to mutate; the follower holds everything below it
	pillarKey := func(a types.Address) *wallet.KeyPair {
		for _, k := range g.PillarKeys {
			if k.Address == a {
				return k
			}
		}
		return nil
	}
	elected := pillarKey(target.Momentum.Producer())
	var other *wallet.KeyPair
	for _, k := range g.PillarKeys {
		if k != elected {
			other = k
			break
		}
	}
	prev := all[cut-1].Momentum
	type mut struct {
		name   string
		guard  string // the guard of Accept it breaks ("" = still valid)
		apply  func(m *nom.Momentum)
		signer *wallet.KeyPair // nil: keep hash and signature as they are
		clock  time.Duration   // lab clock relative to the momentum's timestamp
		retime bool            // re-signed by whichever pillar is elected for the new timestamp's slot
	}
	hour := time.Hour
	muts := []mut{
		{"unchanged", "", func(m *nom.Momentum) {}, nil, hour, false},
		{"signature bit flipped", "signatureValid", func(m *nom.Momentum) { m.Signature = append([]byte{}, m.Signature...); m.Signature[11] ^= 1 }, nil, hour, false},
		{"re-signed by a non-elected pillar", "signerIsElectedForSlot", func(m *nom.Momentum) {}, other, hour, false},
		{"signed by a user key", "signerIsElectedForSlot", func(m *nom.Momentum) {}, g.User1, hour, false},
		{"timestamp +1s, hash kept", "hashCommitsToContent", func(m *nom.Momentum) { m.TimestampUnix++; t := m.Timestamp.Add(time.Second); m.Timestamp = &t }, nil, hour, false},
		{"timestamp = previous, re-signed by the elected pillar", "timestampAfterPrevious", func(m *nom.Momentum) { m.TimestampUnix = prev.TimestampUnix; t := *prev.Timestamp; m.Timestamp = &t }, pillarKey(prev.Producer()), hour, false},
		{"timestamp before previous, re-signed", "timestampAfterPrevious", func(m *nom.Momentum) {
			m.TimestampUnix = prev.TimestampUnix - 10
			t := prev.Timestamp.Add(-10 * time.Second)
			m.Timestamp = &t
		}, elected, hour, false},
		{"height +1, re-signed", "extendsFrontier", func(m *nom.Momentum) { m.Height++ }, elected, hour, false},
		{"previous hash altered, re-signed", "extendsFrontier", func(m *nom.Momentum) { m.PreviousHash[4] ^= 1 }, elected, hour, false},
		{"changes hash altered, re-signed", "changesHashMatches", func(m *nom.Momentum) { m.ChangesHash[4] ^= 1 }, elected, hour, false},
		{"data added, re-signed", "hashCommitsToContent", func(m *nom.Momentum) { m.Data = []byte{1} }, elected, hour, false},
		{"version altered, re-signed", "hashCommitsToContent", func(m *nom.Momentum) { m.Version = 2 }, elected, hour, false},
		{"chain identifier altered, re-signed", "hashCommitsToContent", func(m *nom.Momentum) { m.ChainIdentifier++ }, elected, hour, false},
		{"timestamp one hour after the wall clock, re-signed", "notInFuture", func(m *nom.Momentum) {
			t := time.Unix(time.Now().Add(hour).Unix()/10*10, 0)
			m.Timestamp, m.TimestampUnix = &t, uint64(t.Unix())
		}, elected, hour, false},
	}
	outcomes := map[string]string{}
	for _, mu := range muts {
		f, err := node.New("mutation-follower", node.Options{})
		if err != nil {
			core.Fatal("%v", err)
		}
		node.Clock.Set(p.Frontier().Timestamp.Add(time.Hour))
		if _, err := f.InsertChain(wireAll(all[:cut])); err != nil {
			core.Fatal("mutation follower: %v", err)
		}
		v, _ := node.Wire(target)
		mu.apply(v.Momentum)
		if mu.signer != nil {
			v.Momentum.Hash = v.Momentum.ComputeHash()
			v.Momentum.PublicKey = mu.signer.Public
			v.Momentum.Signature = mu.signer.Sign(v.Momentum.Hash.Bytes())
		}
		data, _ := v.Momentum.Serialize()
		v.Momentum, _ = nom.DeserializeMomentum(data)
		node.Clock.Set(v.Momentum.Timestamp.Add(mu.clock))
		_, ierr := f.InsertChain([]*nom.DetailedMomentum{v})
		accepted := ierr == nil && f.Height() == uint64(cut+2)
		outcomes[mu.name] = fmt.Sprintf("accepted=%v", accepted)
		if mu.guard == "notInFuture" && ierr != nil && !strings.Contains(ierr.Error(), "future") {
			run.Report("C05:momentum-mutation-notInFuture-wrong-reason", fmt.Sprintf("a momentum dated one hour after the wall clock was refused, but not because it is in the future: %v", ierr), nil)
		}
		if accepted != (mu.guard == "") {
			run.Report("C05:momentum-mutation-"+mu.guard, fmt.Sprintf("momentum mutation %q (breaks guard %q of Accept): accepted=%v (%v)", mu.name, mu.guard, accepted, ierr),
				map[string]interface{}{"kind": "momentum-mutation", "mutation": mu.name})
		}
		run.Traces++
		f.Stop()
	}
	node.Clock.Set(p.Frontier().Timestamp.Add(time.Hour))
	run.Set("momentum_mutations", outcomes)
}

// c05OwnProduction: the acceptance guard holds for what a pillar node produces itself as well. A pillar of the node is handed a
// producer event for a slot it is not elected for (an event stream computed before a reorganisation, a stale tick): the node's
// chain must not grow by a momentum of a pillar that the ledger did not elect for that slot.
func c05OwnProduction(run *core.Run, p *node.Node) {
	tried := 0
	for k := 0; k < 6; k++ {
		prev := p.Frontier()
		t := prev.Timestamp.Add(time.Duration(10*(1+k%2)) * time.Second)
		node.Clock.Set(t)
		elected, err := p.Cons.GetMomentumProducer(t)
		if err != nil || elected == nil {
			core.Fatal("own production: %v", err)
		}
		for _, pl := range p.Pillars {
			if *pl.GetCoinBase() == *elected {
				continue
			}
			tried++
			task := pl.Process(consensus.ProducerEvent{Producer: *pl.GetCoinBase(), StartTime: t, EndTime: t.Add(10 * time.Second)})
			if task != nil {
				task.Wait()
			}
			if fr := p.Frontier(); fr.Hash != prev.Hash {
				run.Report("C05:own-momentum-of-a-pillar-not-elected-for-the-slot-accepted", fmt.Sprintf("pillar %v, handed a producer event for the slot at %v for which the ledger elects %v, produced momentum %d and the node accepted it", pl.GetCoinBase(), t.Unix(), elected, fr.Height),
					map[string]interface{}{"kind": "own-production", "slot": t.Unix()})
				return
			}
			break
		}
		// the elected pillar's momentum is accepted: the chain goes on for the next round
		if err := p.Produce(0); err != nil {
			core.Fatal("own production: %v", err)
		}
	}
	run.Count("own_production_attempts_by_a_pillar_not_elected", int64(tried))
	run.Traces += int64(tried)
}
