package checks

import (
	"bytes"
	"encoding/hex"
	"encoding/json"
	"fmt"
	"os"
	"path/filepath"
	"sort"
	"strings"
	"sync"
	"sync/atomic"
	"time"

	"github.com/syndtr/goleveldb/leveldb"
	"github.com/syndtr/goleveldb/leveldb/util"

	"github.com/zenon-network/go-zenon/common"
	"github.com/zenon-network/go-zenon/common/db"
	"github.com/zenon-network/go-zenon/common/types"

	"verif/lab/core"
)

// ---------------------------------------------------------------------------------------------
// VStore behaviours (spec/VStore.tla) replayed on the real db.Manager implementations.

type vsStep struct {
	A      string   `json:"a"`
	Id     []string `json:"id,omitempty"`
	Parent []string `json:"parent,omitempty"`
	Tag    string   `json:"tag,omitempty"`
	Slot   int      `json:"slot,omitempty"`
	R      string   `json:"r"`
}
type vsView struct {
	Open    bool              `json:"open"`
	Id      []string          `json:"id"`
	Content map[string]string `json:"content"`
	Scan    []string          `json:"scan"`
}
type vsObs struct {
	Chain []string            `json:"chain"`
	Disk  map[string]string   `json:"disk"`
	Redo  []map[string]string `json:"redo"`
	Undo  []map[string]string `json:"undo"`
	Views []vsView            `json:"views"`
}
type vsBehaviour struct {
	Steps []vsStep `json:"steps"`
	Obs   vsObs    `json:"obs"`
}

// A concretisation maps the abstract keys/values of the spec to bytes.
type vsConc struct {
	Name  string
	Keys  map[string][]byte
	Width int // >1: every abstract key stands for Width real keys written together (momentum-sized patches)
	Heavy int // >0: the values of the extra keys are padded by this many bytes (patches of more than a megabyte)
}

var vsConcs = []vsConc{
	{"ascii", map[string][]byte{"k1": []byte("k1"), "k2": []byte("k2")}, 1, 0},
	{"longprefix", map[string][]byte{
		"k1": append(append([]byte{0x10}, bytes.Repeat([]byte{0xab}, 40)...), 0x01),
		"k2": append(append([]byte{0x10}, bytes.Repeat([]byte{0xab}, 40)...), 0x02)}, 1, 0},
	{"bookkeeping-prefixes", map[string][]byte{"k1": {0x00, 0x00}, "k2": {0x02}}, 1, 0},
	{"ff-and-nested", map[string][]byte{"k1": {0xff}, "k2": {0xff, 0xff}}, 1, 0},
}

func vsVal(v string) []byte {
	if v == "eps" {
		return []byte{}
	}
	return []byte("value-" + v)
}
func vsAbs(b []byte) string {
	if len(b) == 0 {
		return "eps"
	}
	return strings.TrimPrefix(string(b), "value-")
}

var vsPatches = map[string]map[string]string{
	"a": {"k1": "a"}, "b": {"k2": "b"}, "c": {"k1": "NONE", "k2": "c"}, "d": {"k1": "d"}, "e": {"k1": "eps"},
}

func vsFillerID(first string, i int) types.HashHeight {
	return types.HashHeight{Height: uint64(1 + i), Hash: types.NewHash([]byte(fmt.Sprintf("filler:%s:%d", first, i)))}
}

type vsFillerCommit struct {
	first string
	i     int
}

func (c *vsFillerCommit) Identifier() types.HashHeight { return vsFillerID(c.first, c.i) }
func (c *vsFillerCommit) Previous() types.HashHeight {
	if c.i == 1 {
		return vsID([]string{c.first})
	}
	return vsFillerID(c.first, c.i-1)
}
func (c *vsFillerCommit) Serialize() ([]byte, error) {
	return []byte(fmt.Sprintf("filler:%s:%d", c.first, c.i)), nil
}

type vsFillerTx struct {
	c *vsFillerCommit
	p db.Patch
}

func (t *vsFillerTx) GetCommits() []db.Commit { return []db.Commit{t.c} }
func (t *vsFillerTx) StealChanges() db.Patch  { p := t.p; t.p = nil; return p }

// real identifier of an abstract path under the tall concretisation
func (t *vsTarget) id(path []string) types.HashHeight {
	if t.tall > 0 && len(path) == 2 {
		return types.HashHeight{Height: uint64(1 + t.tall + 1), Hash: types.NewHash([]byte("id:" + strings.Join(path, "/")))}
	}
	return vsID(path)
}

type vsTallCommit struct {
	t    *vsTarget
	path []string
}

func (c *vsTallCommit) Identifier() types.HashHeight { return c.t.id(c.path) }
func (c *vsTallCommit) Previous() types.HashHeight {
	if len(c.path) == 2 {
		return vsFillerID(c.path[0], c.t.tall)
	}
	return vsID(c.path[:len(c.path)-1])
}
func (c *vsTallCommit) Serialize() ([]byte, error) {
	return []byte("entry:" + strings.Join(c.path, "/")), nil
}

type vsTallTx struct {
	c *vsTallCommit
	p db.Patch
}

func (t *vsTallTx) GetCommits() []db.Commit { return []db.Commit{t.c} }
func (t *vsTallTx) StealChanges() db.Patch  { p := t.p; t.p = nil; return p }

var vsFillerKey = []byte("zz-filler")

func vsID(path []string) types.HashHeight {
	if len(path) == 0 {
		return types.ZeroHashHeight
	}
	return types.HashHeight{Height: uint64(len(path)), Hash: types.NewHash([]byte("id:" + strings.Join(path, "/")))}
}

type vsCommit struct{ path []string }

func (c *vsCommit) Identifier() types.HashHeight { return vsID(c.path) }
func (c *vsCommit) Previous() types.HashHeight   { return vsID(c.path[:len(c.path)-1]) }
func (c *vsCommit) Serialize() ([]byte, error) {
	return []byte("entry:" + strings.Join(c.path, "/")), nil
}

type vsTx struct {
	commit *vsCommit
	patch  db.Patch
}

func (t *vsTx) GetCommits() []db.Commit { return []db.Commit{t.commit} }
func (t *vsTx) StealChanges() db.Patch  { p := t.patch; t.patch = nil; return p }

func vsNewTx(conc vsConc, parent []string, tag string) *vsTx {
	p := db.NewPatch()
	pa := vsPatches[tag]
	ks := []string{"k1", "k2"}
	for _, k := range ks {
		v, ok := pa[k]
		if !ok {
			continue
		}
		if v == "NONE" {
			p.Delete(conc.Keys[k])
		} else {
			p.Put(conc.Keys[k], vsVal(v))
		}
		for i := 1; i < conc.Width; i++ {
			sub := append(append([]byte{}, conc.Keys[k]...), []byte(fmt.Sprintf("#%04d", i))...)
			if v == "NONE" {
				p.Delete(sub)
			} else if conc.Heavy > 0 {
				p.Put(sub, append(vsVal(v), bytes.Repeat([]byte{byte(i)}, conc.Heavy)...))
			} else {
				p.Put(sub, vsVal(v))
			}
		}
	}
	path := append(append([]string{}, parent...), tag)
	return &vsTx{commit: &vsCommit{path: path}, patch: p}
}

// vsWriteThroughView makes the writes of a tag through a view opened at the parent, checks that the view (and only it)
// sees them, and returns the change set the view reports - the patch a commit is made from in the real node.
func (t *vsTarget) vsWriteThroughView(conc vsConc, parent []string, tag string) (db.Patch, bool) {
	v := t.m.Get(t.id(parent))
	if v == nil {
		return nil, false
	}
	type w struct {
		k   []byte
		val []byte
		del bool
	}
	var ws []w
	pa := vsPatches[tag]
	for _, k := range []string{"k1", "k2"} {
		val, ok := pa[k]
		if !ok {
			continue
		}
		keys := [][]byte{conc.Keys[k]}
		for i := 1; i < conc.Width; i++ {
			keys = append(keys, append(append([]byte{}, conc.Keys[k]...), []byte(fmt.Sprintf("#%04d", i))...))
		}
		for _, key := range keys {
			if val == "NONE" {
				ws = append(ws, w{k: key, del: true})
			} else {
				ws = append(ws, w{k: key, val: vsVal(val)})
			}
		}
	}
	// what a sibling sees before and must still see afterwards
	before := map[string][2]interface{}{}
	sib := t.m.Get(t.id(parent))
	for _, x := range ws {
		g, _ := sib.Get(x.k)
		h, _ := sib.Has(x.k)
		before[string(x.k)] = [2]interface{}{string(g), h}
	}
	for _, x := range ws {
		var err error
		if x.del {
			err = v.Delete(x.k)
		} else {
			err = v.Put(x.k, x.val)
		}
		if err != nil {
			t.extra = append(t.extra, vsMismatch{"view-write-error", fmt.Sprintf("write through a view at %v failed: %v", parent, err)})
		}
	}
	for _, x := range ws {
		g, _ := v.Get(x.k)
		h, _ := v.Has(x.k)
		if x.del && (h || len(g) != 0) {
			t.extra = append(t.extra, vsMismatch{"view-own-write-invisible", fmt.Sprintf("a key deleted through a view at %v is still there in that view (Has=%v, Get=%x)", parent, h, g)})
		}
		if !x.del && (!h || string(g) != string(x.val)) {
			t.extra = append(t.extra, vsMismatch{"view-own-write-invisible", fmt.Sprintf("a value written through a view at %v is not what the view returns (Has=%v, Get=%x, written %x)", parent, h, g, x.val)})
		}
		sg, _ := sib.Get(x.k)
		sh, _ := sib.Has(x.k)
		if b := before[string(x.k)]; b[0].(string) != string(sg) || b[1].(bool) != sh {
			t.extra = append(t.extra, vsMismatch{"view-write-leaks", fmt.Sprintf("a write through one view at %v is visible in another view of the same commit", parent)})
		}
	}
	p, err := v.Changes()
	if err != nil {
		t.extra = append(t.extra, vsMismatch{"view-changes-error", fmt.Sprintf("Changes() of a view at %v: %v", parent, err)})
		return nil, false
	}
	return p, true
}

func isBookkeeping(k []byte) bool {
	if len(k) == 1 && k[0] == 0 {
		return true
	}
	if len(k) == 33 && k[0] == 1 {
		return true
	}
	if len(k) == 9 && k[0] == 2 {
		return true
	}
	return false
}

// readView reads a view completely through the public DB interface and returns
// content per abstract key (value | NONE) as seen by Get, by Has, and the scan results per prefix.
type vsRead struct {
	Get   map[string]string
	Has   map[string]bool
	Scans map[string][]string // hex(prefix) -> ["hexkey=abs", ...] in iteration order
}

func vsReadView(conc vsConc, v db.DB) (vsRead, error) {
	r := vsRead{Get: map[string]string{}, Has: map[string]bool{}, Scans: map[string][]string{}}
	for name, k := range conc.Keys {
		val, err := v.Get(k)
		if err == leveldb.ErrNotFound {
			r.Get[name] = "NONE"
		} else if err != nil {
			return r, err
		} else {
			r.Get[name] = vsAbs(val)
		}
		has, err := v.Has(k)
		if err != nil {
			return r, err
		}
		r.Has[name] = has
	}
	for _, pre := range vsPrefixes(conc) {
		it := v.NewIterator(pre)
		var out []string
		for it.Next() {
			if it.Value() == nil {
				continue
			}
			key := append([]byte{}, it.Key()...)
			if isBookkeeping(key) || bytes.Equal(key, vsFillerKey) {
				continue
			}
			out = append(out, hex.EncodeToString(key)+"="+vsAbs(it.Value()))
		}
		if err := it.Error(); err != nil {
			it.Release()
			return r, err
		}
		it.Release()
		r.Scans[hex.EncodeToString(pre)] = out
	}
	return r, nil
}

func vsPrefixes(conc vsConc) [][]byte {
	seen := map[string]bool{}
	var out [][]byte
	add := func(p []byte) {
		if !seen[string(p)] {
			seen[string(p)] = true
			out = append(out, append([]byte{}, p...))
		}
	}
	add([]byte{})
	for _, k := range conc.Keys {
		for i := 1; i <= len(k); i++ {
			if i == 1 || i == len(k) || i == len(k)-1 {
				add(k[:i])
			}
		}
	}
	sort.Slice(out, func(i, j int) bool { return bytes.Compare(out[i], out[j]) < 0 })
	return out
}

// expected scans for a content map and the set of keys the spec says a scan shows
func vsExpectScans(conc vsConc, content map[string]string, scan []string) map[string][]string {
	type kv struct {
		k []byte
		v string
	}
	var items []kv
	for _, name := range scan {
		items = append(items, kv{conc.Keys[name], content[name]})
	}
	sort.Slice(items, func(i, j int) bool { return bytes.Compare(items[i].k, items[j].k) < 0 })
	out := map[string][]string{}
	for _, pre := range vsPrefixes(conc) {
		var l []string
		for _, it := range items {
			if bytes.HasPrefix(it.k, pre) {
				l = append(l, hex.EncodeToString(it.k)+"="+it.v)
			}
		}
		out[hex.EncodeToString(pre)] = l
	}
	return out
}

type vsMismatch struct {
	Key  string
	What string
}

// compareView compares what was read with the spec's prediction; returns mismatches.
func vsCompareView(conc vsConc, label string, rd vsRead, content map[string]string, scan []string, historical bool) []vsMismatch {
	var mm []vsMismatch
	for name := range conc.Keys {
		if rd.Get[name] != content[name] {
			mm = append(mm, vsMismatch{"view-get", fmt.Sprintf("%s: Get(%s) = %s, specification says %s", label, name, rd.Get[name], content[name])})
		}
		if rd.Has[name] != (content[name] != "NONE") {
			mm = append(mm, vsMismatch{"view-has", fmt.Sprintf("%s: Has(%s) = %v, specification says content %s", label, name, rd.Has[name], content[name])})
		}
	}
	exp := vsExpectScans(conc, content, scan)
	// the same scans if keys holding the empty value were hidden (F16 shape)
	var scanNoEps []string
	for _, k := range scan {
		if content[k] != "eps" {
			scanNoEps = append(scanNoEps, k)
		}
	}
	expNoEps := vsExpectScans(conc, content, scanNoEps)
	for pre, want := range exp {
		got := rd.Scans[pre]
		if strings.Join(got, ",") == strings.Join(want, ",") {
			continue
		}
		if historical && strings.Join(got, ",") == strings.Join(expNoEps[pre], ",") {
			mm = append(mm, vsMismatch{"empty-value-hidden-in-historical-scan", fmt.Sprintf("%s: scan(%s) = %v, specification says %v", label, pre, got, want)})
			continue
		}
		mm = append(mm, vsMismatch{"view-scan", fmt.Sprintf("%s: scan(%s) = %v, specification says %v", label, pre, got, want)})
	}
	return mm
}

// decodePatchUser turns a stored patch into abstract key -> value|NONE for the user keys it mentions.
type patchCollector struct {
	conc vsConc
	m    map[string]string
	bk   int
	odd  []string
}

func (pc *patchCollector) name(key []byte) (string, bool) {
	for n, k := range pc.conc.Keys {
		if bytes.Equal(k, key) {
			return n, true
		}
	}
	return "", false
}
func (pc *patchCollector) Put(key, value []byte) {
	if n, ok := pc.name(key); ok {
		pc.m[n] = vsAbs(value)
	} else if isBookkeeping(key) {
		pc.bk++
	} else {
		pc.odd = append(pc.odd, hex.EncodeToString(key))
	}
}
func (pc *patchCollector) Delete(key []byte) {
	if n, ok := pc.name(key); ok {
		pc.m[n] = "NONE"
	} else if isBookkeeping(key) {
		pc.bk++
	} else {
		pc.odd = append(pc.odd, hex.EncodeToString(key))
	}
}

func vsDecodePatch(conc vsConc, p db.Patch) (map[string]string, []string) {
	pc := &patchCollector{conc: conc, m: map[string]string{}}
	if p != nil {
		p.Replay(pc)
	}
	return pc.m, pc.odd
}

func vsLayerEq(got map[string]string, want map[string]string) bool {
	for _, k := range []string{"k1", "k2"} {
		w := want[k]
		g, ok := got[k]
		if w == "UNSET" {
			if ok {
				return false
			}
		} else if !ok || g != w {
			return false
		}
	}
	return true
}

// rawDump opens a leveldb directory directly and returns the normalised key space:
// hexkey -> hexvalue, with tombstones of the frontier key space (0x55‖k ↦ "") dropped.
func rawDump(dir string) (map[string]string, error) {
	ldb, err := leveldb.OpenFile(dir, nil)
	if err != nil {
		return nil, err
	}
	defer ldb.Close()
	out := map[string]string{}
	it := ldb.NewIterator(&util.Range{}, nil)
	defer it.Release()
	for it.Next() {
		k := it.Key()
		v := it.Value()
		if len(k) > 0 && k[0] == 85 && len(v) == 0 {
			continue
		}
		out[hex.EncodeToString(k)] = hex.EncodeToString(v)
	}
	return out, it.Error()
}

// vsCheckRaw compares the raw key space of a closed store with the specification's state.
func vsCheckRaw(conc vsConc, dir string, obs vsObs) ([]vsMismatch, error) {
	dump, err := rawDump(dir)
	if err != nil {
		return nil, err
	}
	var mm []vsMismatch
	h := len(obs.Chain)
	expect := map[string]string{}
	put := func(k, v []byte) { expect[hex.EncodeToString(k)] = hex.EncodeToString(v) }
	// frontier key space: user keys
	for name, k := range conc.Keys {
		if v := obs.Disk[name]; v != "NONE" {
			put(common.JoinBytes([]byte{85}, k), common.JoinBytes([]byte{0}, vsVal(v)))
		}
	}
	// bookkeeping keys
	if h > 0 {
		fid := vsID(obs.Chain)
		put([]byte{85, 0}, common.JoinBytes([]byte{0}, fid.Serialize()))
	}
	for i := 1; i <= h; i++ {
		id := vsID(obs.Chain[:i])
		put(common.JoinBytes([]byte{85, 1}, id.Hash.Bytes()), common.JoinBytes([]byte{0}, common.Uint64ToBytes(uint64(i))))
		data, _ := (&vsCommit{path: obs.Chain[:i]}).Serialize()
		put(common.JoinBytes([]byte{85, 2}, common.Uint64ToBytes(uint64(i))), common.JoinBytes([]byte{0}, data))
	}
	for k, v := range dump {
		kb, _ := hex.DecodeString(k)
		switch kb[0] {
		case 85:
			if expect[k] != v {
				mm = append(mm, vsMismatch{"raw-frontier", fmt.Sprintf("raw key %s = %s, specification says %q", k, v, expect[k])})
			}
		case 102, 119:
			height := int(common.BytesToUint64(kb[1:]))
			if height < 1 || height > h {
				mm = append(mm, vsMismatch{"raw-patch-leftover", fmt.Sprintf("stored patch %s for height %d beyond frontier height %d", k[:2], height, h)})
				continue
			}
			vb, _ := hex.DecodeString(v)
			p, err := db.NewPatchFromDump(vb)
			if err != nil {
				mm = append(mm, vsMismatch{"raw-patch-corrupt", fmt.Sprintf("stored patch %s unreadable: %v", k, err)})
				continue
			}
			got, odd := vsDecodePatch(conc, p)
			want := obs.Redo[height-1]
			kind := "redo"
			if kb[0] == 119 {
				want = obs.Undo[height-1]
				kind = "undo"
			}
			if !vsLayerEq(got, want) || len(odd) > 0 {
				mm = append(mm, vsMismatch{"raw-" + kind, fmt.Sprintf("stored %s patch of height %d = %v (other keys %v), specification says %v", kind, height, got, odd, want)})
			}
		default:
			mm = append(mm, vsMismatch{"raw-unknown-key", "unexpected raw key " + k})
		}
	}
	for k, v := range expect {
		if _, ok := dump[k]; !ok {
			mm = append(mm, vsMismatch{"raw-frontier", fmt.Sprintf("raw key %s missing, specification says %s", k, v)})
		}
	}
	for i := 1; i <= h; i++ {
		for _, pb := range []byte{102, 119} {
			k := hex.EncodeToString(common.JoinBytes([]byte{pb}, common.Uint64ToBytes(uint64(i))))
			if _, ok := dump[k]; !ok {
				mm = append(mm, vsMismatch{"raw-patch-missing", fmt.Sprintf("no stored patch %s for height %d", k[:2], i)})
			}
		}
	}
	return mm, nil
}

type vsTarget struct {
	tall int // >0: "tall" concretisation - `tall` filler commits (touching an unrelated key) sit between abstract height 1 and 2,
	// so that views of height 1 are far behind the frontier (the store's second-level view cache)
	kind  string // "ldb" | "mem"
	dir   string
	m     db.Manager
	views []db.DB
	vhist []bool // view i is a historical view (opened below the frontier)
	via   bool   // commits are made from the change set of a view that the writes went through
	extra []vsMismatch
}

func (t *vsTarget) open() {
	if t.kind == "ldb" {
		t.m = db.NewLevelDBManager(t.dir)
	} else {
		t.m = db.NewMemDBManager(db.NewMemDB())
	}
}

// vsExec executes one step; returns the observed result class.
func (t *vsTarget) exec(conc vsConc, s vsStep) (string, error) {
	switch s.A {
	case "OpenView":
		before := db.GetFrontierIdentifier(t.m.Frontier())
		v := t.m.Get(t.id(s.Id))
		if v == nil {
			return "nil", nil
		}
		for len(t.views) < s.Slot {
			t.views = append(t.views, nil)
			t.vhist = append(t.vhist, false)
		}
		t.views[s.Slot-1] = v
		t.vhist[s.Slot-1] = t.kind == "ldb" && t.id(s.Id) != before && len(s.Id) > 0
		return "ok", nil
	case "CloseView":
		t.views[s.Slot-1] = nil
		return "ok", nil
	case "Commit":
		before := db.GetFrontierIdentifier(t.m.Frontier())
		var err error
		if t.tall > 0 {
			tx := vsNewTx(conc, s.Parent, s.Tag)
			err = t.m.Add(&vsTallTx{&vsTallCommit{t, tx.commit.path}, tx.patch})
			if err == nil && len(s.Parent) == 0 && db.GetFrontierIdentifier(t.m.Frontier()) == vsID([]string{s.Tag}) {
				for i := 1; i <= t.tall; i++ { // the filler commits on top of abstract height 1
					p := db.NewPatch()
					p.Put(vsFillerKey, []byte(fmt.Sprintf("f%d", i)))
					if e := t.m.Add(&vsFillerTx{&vsFillerCommit{s.Tag, i}, p}); e != nil {
						return "", e
					}
				}
				return "frontier-moved", nil
			}
		} else {
			tx := vsNewTx(conc, s.Parent, s.Tag)
			if t.via {
				// the patch comes from a view's change set, as in the node, instead of being built directly
				if p, ok := t.vsWriteThroughView(conc, s.Parent, s.Tag); ok {
					tx.patch = p
				}
			}
			err = t.m.Add(tx)
		}
		after := db.GetFrontierIdentifier(t.m.Frontier())
		if err != nil {
			if after != before {
				return "error-but-frontier-moved", nil
			}
			return "error", nil
		}
		if after == before {
			return "silent-nochange", nil
		}
		if after == t.id(append(append([]string{}, s.Parent...), s.Tag)) {
			return "frontier-moved", nil
		}
		return "frontier-elsewhere", nil
	case "Pop":
		if t.tall > 0 && db.GetFrontierIdentifier(t.m.Frontier()).Height == uint64(1+t.tall) {
			for i := 0; i < t.tall; i++ { // abstract height 1 -> 0: the fillers go first
				if err := t.m.Pop(); err != nil {
					return "error", nil
				}
			}
		}
		if err := t.m.Pop(); err != nil {
			return "error", nil
		}
		return "ok", nil
	case "Restart":
		if t.kind != "ldb" {
			return "", fmt.Errorf("restart on mem target")
		}
		if err := t.m.Stop(); err != nil {
			return "", err
		}
		t.views = nil
		t.vhist = nil
		t.open()
		return "ok", nil
	}
	return "", fmt.Errorf("unknown action %s", s.A)
}

// class of results the specification's r corresponds to, per target
func vsResultOK(kind, a, want, got string, parentIsFrontier bool) bool {
	switch a {
	case "Commit":
		switch want {
		case "ok":
			return got == "frontier-moved"
		case "refused":
			if kind == "mem" {
				return got == "error"
			}
			return got == "silent-nochange" || got == "error"
		case "noprev":
			return got == "error"
		}
		return false
	default:
		return want == got
	}
}

type vsOutcome struct {
	Mismatches []vsMismatch
	Steps      int
}

// vsReplay runs one behaviour on a fresh store of the given kind and compares.
func vsReplay(kind string, conc vsConc, b *vsBehaviour, scratch string) (out vsOutcome, err error) {
	return vsReplayT(kind, 0, conc, b, scratch)
}

func vsReplayT(kind string, tall int, conc vsConc, b *vsBehaviour, scratch string) (out vsOutcome, err error) {
	defer func() {
		if r := recover(); r != nil {
			out.Mismatches = append(out.Mismatches, vsMismatch{"panic", fmt.Sprintf("panic during replay: %v", r)})
		}
	}()
	dir, e := os.MkdirTemp(scratch, "vs-")
	if e != nil {
		return out, e
	}
	defer os.RemoveAll(dir)
	t := &vsTarget{kind: kind, dir: dir, tall: tall, via: tall == 0 && len(b.Steps)%2 == 0}
	t.open()
	defer func() { out.Mismatches = append(out.Mismatches, t.extra...) }()
	stopped := false
	defer func() {
		if !stopped && t.m != nil {
			t.m.Stop()
		}
	}()
	chain := []string{}
	for i, s := range b.Steps {
		got, e := t.exec(conc, s)
		if e != nil {
			return out, e
		}
		out.Steps++
		if !vsResultOK(kind, s.A, s.R, got, false) {
			key := "result-" + s.A + "-" + s.R + "-got-" + got
			out.Mismatches = append(out.Mismatches, vsMismatch{key, fmt.Sprintf("step %d %s: real store answered %q, specification says %q", i+1, s.A, got, s.R)})
			return out, nil // the rest of the behaviour is not meaningful
		}
		_ = chain
	}
	obs := b.Obs
	// frontier
	fid := db.GetFrontierIdentifier(t.m.Frontier())
	wantFid := t.id(obs.Chain)
	if tall > 0 && len(obs.Chain) == 1 {
		wantFid = vsFillerID(obs.Chain[0], tall)
	}
	if fid != wantFid {
		out.Mismatches = append(out.Mismatches, vsMismatch{"frontier-id", fmt.Sprintf("frontier identifier is %v, specification says path %v", fid, obs.Chain)})
	}
	var allKeys []string
	for _, k := range []string{"k1", "k2"} {
		if obs.Disk[k] != "NONE" {
			allKeys = append(allKeys, k)
		}
	}
	rd, e := vsReadView(conc, t.m.Frontier())
	if e != nil {
		return out, e
	}
	out.Mismatches = append(out.Mismatches, vsCompareView(conc, "frontier", rd, obs.Disk, allKeys, false)...)
	for i, v := range obs.Views {
		if !v.Open {
			continue
		}
		if i >= len(t.views) || t.views[i] == nil {
			out.Mismatches = append(out.Mismatches, vsMismatch{"view-missing", fmt.Sprintf("view slot %d not open", i+1)})
			continue
		}
		rd, e := vsReadView(conc, t.views[i])
		if e != nil {
			return out, e
		}
		out.Mismatches = append(out.Mismatches, vsCompareView(conc, fmt.Sprintf("view#%d@%v", i+1, v.Id), rd, v.Content, v.Scan, t.vhist[i])...)
	}
	// a view opened now at every findable identifier
	for h := 0; h <= len(obs.Chain); h++ {
		_ = h
	}
	if tall > 0 {
		return out, nil // heights are scaled: the stored patches are compared in the plain concretisations
	}
	// redo patches through the public API
	for h := 1; h <= len(obs.Chain); h++ {
		p := t.m.GetPatch(vsID(obs.Chain[:h]))
		if p == nil {
			out.Mismatches = append(out.Mismatches, vsMismatch{"getpatch-nil", fmt.Sprintf("GetPatch(height %d) = nil", h)})
			continue
		}
		got, odd := vsDecodePatch(conc, p)
		if !vsLayerEq(got, obs.Redo[h-1]) || len(odd) > 0 {
			out.Mismatches = append(out.Mismatches, vsMismatch{"getpatch", fmt.Sprintf("GetPatch(height %d) = %v (other keys %v), specification says %v", h, got, odd, obs.Redo[h-1])})
		}
	}
	if kind == "ldb" {
		if e := t.m.Stop(); e != nil {
			return out, e
		}
		stopped = true
		mm, e := vsCheckRaw(conc, dir, obs)
		if e != nil {
			return out, e
		}
		out.Mismatches = append(out.Mismatches, mm...)
	}
	return out, nil
}

// ---------------------------------------------------------------------------------------------

type vsGenStats struct {
	Behaviours, Replays, Steps int64
	Actions                    map[string]int64
	Results                    map[string]int64
}

// vsGenerateAndReplay runs TLC with the given Gen cfg and replays every emitted behaviour with `fn`.
func vsGenerateAndReplayText(run *core.Run, module, cfgText string, tlcArgs []string,
	fn func(b *vsBehaviour, n int64, scratch string)) (*core.TLCResult, *vsGenStats) {
	scratch, err := os.MkdirTemp(core.Scratch(), "vsreplay-")
	core.Must(err)
	defer os.RemoveAll(scratch)
	st := &vsGenStats{Actions: map[string]int64{}, Results: map[string]int64{}}
	var mu sync.Mutex
	ch := make(chan string, 4096)
	var wg sync.WaitGroup
	var n int64
	for w := 0; w < 16; w++ {
		wg.Add(1)
		go func() {
			defer wg.Done()
			for js := range ch {
				var b vsBehaviour
				if err := json.Unmarshal([]byte(js), &b); err != nil {
					core.Fatal("cannot parse behaviour: %v: %.200s", err, js)
				}
				id := atomic.AddInt64(&n, 1)
				mu.Lock()
				for _, s := range b.Steps[len(b.Steps)-1:] {
					st.Actions[s.A]++
					st.Results[s.A+"/"+s.R]++
				}
				mu.Unlock()
				fn(&b, id, scratch)
			}
		}()
	}
	res, err := core.RunTLC(core.TLCOpts{Module: module, CfgText: cfgText, Workers: 1, Args: tlcArgs, Timeout: 60 * time.Minute,
		OnLine: func(line string) {
			if js, ok := core.ParseB(line, "B"); ok {
				ch <- js
			}
		}})
	close(ch)
	wg.Wait()
	if err != nil {
		core.Fatal("TLC generation failed: %v", err)
	}
	if res.Err != "" || res.Violated != "" {
		core.Fatal("TLC generation run reported: %s %s", res.Violated, res.Err)
	}
	st.Behaviours = n
	return res, st
}

func vsReportMismatches(run *core.Run, prop string, kind string, conc vsConc, b *vsBehaviour, mm []vsMismatch) {
	for _, m := range mm {
		key := prop + ":" + m.Key
		if m.Key == "empty-value-hidden-in-historical-scan" {
			key = "C07:empty-value-hidden-in-historical-scan"
		}
		run.ReportFor(prop, key, fmt.Sprintf("[%s store, keys %s] %s", kind, conc.Name, m.What),
			map[string]interface{}{"kind": "vstore-behaviour", "target": kind, "concretisation": conc.Name, "behaviour": b})
	}
}

func copyDir(src, dst string) error {
	if err := os.MkdirAll(dst, 0o755); err != nil {
		return err
	}
	ents, err := os.ReadDir(src)
	if err != nil {
		return err
	}
	for _, e := range ents {
		if e.IsDir() {
			continue
		}
		data, err := os.ReadFile(filepath.Join(src, e.Name()))
		if err != nil {
			return err
		}
		if err := os.WriteFile(filepath.Join(dst, e.Name()), data, 0o644); err != nil {
			return err
		}
	}
	return nil
}
