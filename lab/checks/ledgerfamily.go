package checks

import (
	"encoding/json"
	"fmt"
	"math/big"
	"strings"
	"sync"
	"time"

	g "github.com/zenon-network/go-zenon/chain/genesis/mock"
	"github.com/zenon-network/go-zenon/common/types"

	"github.com/zenon-network/go-zenon/verifier"

	"verif/lab/core"
	"verif/lab/ledger"
	"verif/lab/node"
	"verif/lab/walk"
)

const ledgerMCCfg = `CONSTANTS
  NAdd <- IntAdd
  NSub <- IntSub
  NLeq <- IntLeq
  NZero = 0
  Contracts = {"tok", "stk"}
  TokenContract = "tok"
  MaxAmt = 2
  MaxSends = %d
  Legacy = %s
  StrictFifo = %s
INIT Init
NEXT Next
INVARIANTS %s
%s
CHECK_DEADLOCK FALSE
`

const ledgerMCInvs = "Conservation AtMostOnce FIFO NonNegative OnlyAddressee FifoObserved InboxLive"

// ledgerModelCheck: exhaustive check of the abstract ledger and the negative controls.
func ledgerModelCheck(run *core.Run) {
	maxSends := 3
	if run.Thorough() {
		maxSends = 4
	}
	res, err := core.RunTLC(core.TLCOpts{Module: "LedgerMC", CfgText: fmt.Sprintf(ledgerMCCfg, maxSends, "FALSE", "TRUE", ledgerMCInvs, "PROPERTIES SupplyOnlyByTokenContract"), Timeout: 30 * time.Minute})
	if err != nil || res.Violated != "" || res.Err != "" {
		core.Fatal("LedgerMC: %v %s %s", err, res.Violated, res.Err)
	}
	run.States += res.Distinct
	run.Transitions += res.Generated
	run.Set("mc_config", fmt.Sprintf("LedgerMC: 2 users, token + stake-like contract, amounts 0..2, <= %d send blocks, all confirmation orders: %d distinct states, %d transitions, depth %d", maxSends, res.Distinct, res.Generated, res.Depth))
	var controls []string
	for _, c := range []struct{ name, legacy, fifo string }{
		{"receive by a non-addressee (code below the enforcement height, F12)", "TRUE", "TRUE"},
		{"contract takes any confirmed send instead of the inbox head", "FALSE", "FALSE"},
	} {
		r, err := core.RunTLC(core.TLCOpts{Module: "LedgerMC", CfgText: fmt.Sprintf(ledgerMCCfg, 3, c.legacy, c.fifo, ledgerMCInvs, ""), Timeout: 10 * time.Minute})
		if err != nil {
			core.Fatal("negative control: %v", err)
		}
		if r.Violated == "" {
			core.Fatal("negative control %q not refuted", c.name)
		}
		controls = append(controls, c.name+" -> TLC refutes "+r.Violated)
	}
	run.Set("negative_controls", controls)
}

type walkResult struct {
	Run      ledgerRun
	Drained  bool
	Problems []string
	Methods  map[string]int
	Stats    string
}

type walkArg struct {
	Seed      int64
	Momentums int
	Htlc      bool
	Enforced  bool
	Stalls    bool
	LongStall bool // half way through, no momentum for eleven epochs: more pending epochs than one update may pay
	Tight     bool // ZNN and QSR maximum supplies just above the genesis supplies: reward mints run into the cap
}

func init() {
	core.RegisterChild("ledger-walk", func(arg json.RawMessage) (interface{}, error) {
		var a walkArg
		if err := json.Unmarshal(arg, &a); err != nil {
			return nil, err
		}
		node.Quiet()
		return labWalk(a.Seed, a.Momentums, a.Htlc, a.Enforced, a.Stalls, a.Tight, a.LongStall)
	})
}

// labWalks runs the walks in child processes (a panic in one of the node's own goroutines ends the process: that is a
// verdict about the code, C09, not the end of the check), several at a time.
func labWalks(run *core.Run, args []walkArg) []*walkResult {
	out := make([]*walkResult, len(args))
	crashes := make([]*core.Crash, len(args))
	errs := make([]error, len(args))
	sem := make(chan struct{}, 8)
	var wg sync.WaitGroup
	for i := range args {
		wg.Add(1)
		go func(i int) {
			defer wg.Done()
			sem <- struct{}{}
			defer func() { <-sem }()
			var r walkResult
			crashes[i], errs[i] = core.Child("ledger-walk", args[i], &r, 20*time.Minute)
			if crashes[i] == nil && errs[i] == nil {
				out[i] = &r
			}
		}(i)
	}
	wg.Wait()
	var res []*walkResult
	for i := range args {
		if errs[i] != nil {
			core.Fatal("%v", errs[i])
		}
		if c := crashes[i]; c != nil {
			run.ReportFor("C09", "C09:"+c.Key(), fmt.Sprintf("the node process went down during lab walk %+v: %s", args[i], c.String()), map[string]interface{}{"kind": "walk", "arg": args[i], "stderr_tail": c.Text})
			continue
		}
		res = append(res, out[i])
	}
	return res
}

// labWalk runs one seeded walk on a fresh producer and returns its projected trace.
func labWalk(seed int64, momentums int, htlc bool, enforced bool, stalls bool, tight bool, longStall bool) (*walkResult, error) {
	ledger.LegacyLiquidity = !htlc
	walk.LabConstants()
	if enforced {
		verifier.ReceiverMismatchEnforcementHeight = 1
	} else {
		verifier.ReceiverMismatchEnforcementHeight = 10109240
	}
	cap := ledger.StartCapture()
	defer cap.Stop()
	opts := node.Options{Producer: true}
	if tight {
		cfg := cloneGenesis(g.EmbeddedGenesis)
		for _, t := range cfg.TokenConfig.Tokens {
			if t.TokenStandard == types.ZnnTokenStandard {
				t.MaxSupply = new(big.Int).Add(t.TotalSupply, big.NewInt(40*100000000))
			}
			if t.TokenStandard == types.QsrTokenStandard {
				t.MaxSupply = new(big.Int).Add(t.TotalSupply, big.NewInt(400*100000000))
			}
		}
		opts.Genesis = cfg
	}
	p, err := node.New(fmt.Sprintf("walk-%d", seed), opts)
	if err != nil {
		return nil, err
	}
	defer p.Stop()
	w := walk.New(p, seed)
	w.Stalls = stalls
	if htlc {
		if id, err := w.ActivateSpork("spork-htlc"); err != nil {
			return nil, err
		} else {
			setHtlcSpork(id)
			w.HtlcOn = true
		}
	}
	if longStall {
		if err := w.Run(momentums / 2); err != nil {
			return nil, fmt.Errorf("walk seed %d: %v (problems %v)", seed, err, p.Problems)
		}
		if err := p.Produce(11*walk.EpochMomentums + 20); err != nil {
			return nil, fmt.Errorf("walk seed %d (long stall): %v", seed, err)
		}
		momentums -= momentums / 2
	}
	if err := w.Run(momentums); err != nil {
		return nil, fmt.Errorf("walk seed %d: %v (problems %v)", seed, err, p.Problems)
	}
	drained, err := w.Drain(60)
	if err != nil {
		return nil, fmt.Errorf("walk seed %d drain: %v", seed, err)
	}
	ids := cap.ChainIDs()
	if len(ids) != 1 {
		return nil, fmt.Errorf("expected one chain in capture, got %v", ids)
	}
	pr := ledger.NewProjector()
	pr.Observer = ledger.StandardObserver(walk.EpochMomentums)
	if err := cap.Project(ids[0], pr); err != nil {
		return nil, err
	}
	name := fmt.Sprintf("lab walk seed=%d momentums=%d htlc=%v enforced=%v stalls=%v tight-supply=%v long-stall=%v", seed, momentums, htlc, enforced, stalls, tight, longStall)
	return &walkResult{Run: ledgerRun{Name: name, Events: pr.Events, Note: pr.Note}, Drained: drained, Problems: p.Problems, Methods: w.Methods,
		Stats: fmt.Sprintf("%s: %d blocks submitted, %d refused at send time, %d accepted, %d momentums, %d stalls", name, w.Submitted, w.RejectedAtSend, pr.Blocks, pr.Momentums, w.StallCount)}, nil
}

type ledgerFamilyOpts struct {
	locks       bool // also replay the Locks.tla behaviours (C10)
	bridge      bool // also replay the Bridge.tla behaviours (C10, C09)
	tokens      bool // also replay the Token.tla behaviours (C01)
	prop        string
	invariants  string // invariants of LedgerTrace evaluated at every event
	repoPattern string // tests of vm/embedded/tests traced in the quick tier
	walks       int
	walkLen     int
	tight       bool                       // one more walk with tight ZNN / QSR maximum supplies
	longStall   bool                       // one more walk (no sporks) with an eleven-epoch silence in the middle
	reorgs      int                        // reorganisation scenarios (reorg.go)
	dust        bool                       // dust-backers scenarios (dust.go)
	cells       int                        // batches of CallCells.tla cells (cells.go)
	relevant    func(v ledgerVerdict) bool // is this rejection about this property?
}

func classifyLedgerVerdict(v ledgerVerdict) (key, what string) {
	ev, _ := v.Event["ev"].(string)
	if ev == "MisRecv" && strings.Contains(v.Run, "enforced=true") {
		return "receive-by-non-addressee-in-the-enforced-regime",
			fmt.Sprintf("with the addressee rule enforced a send was received by an account it was not addressed to (%s)", v.Run)
	}
	if ev == "MisRecv" {
		return "receiver-mismatch-below-enforcement-height",
			fmt.Sprintf("a send was received by an account it was not addressed to (%s): value created, send receivable again by its addressee", v.Run)
	}
	reason := "no action of LedgerTrace.tla matches the event in the state reached (the code did something the specification does not allow)"
	if v.Inv != "" {
		reason = "invariant " + v.Inv + " violated"
	}
	return "trace-rejected-" + ev + "-" + v.Inv, fmt.Sprintf("%s at event %d (%s) of %s", reason, v.Line, ev, v.Run)
}

func ledgerFamily(run *core.Run, o ledgerFamilyOpts) {
	ledgerModelCheck(run)
	var runs []ledgerRun
	// (a) the repository's own tests, traced through the hooks
	pattern := o.repoPattern
	if run.Thorough() || pattern == "" {
		pattern = "."
	}
	rr, stats, err := traceRepoTests("./vm/embedded/tests/", pattern, func(p *ledger.Projector) { p.Observer = ledger.StandardObserver(0) })
	if err != nil {
		core.Fatal("%v", err)
	}
	runs = append(runs, rr...)
	run.Set("repo_tests_traced", stats)
	// (b) lab walks
	nw, wl := o.walks, o.walkLen
	if run.Thorough() {
		nw, wl = o.walks*4, o.walkLen*2
	}
	var walkStats []string
	methods := map[string]int{}
	var wargs []walkArg
	for i := 0; i < nw; i++ {
		enforced := i != 1 || (o.prop != "C01" && o.prop != "C04") // C01/C04: one walk in the default (legacy) regime
		wargs = append(wargs, walkArg{Seed: run.Seed*1000 + int64(i), Momentums: wl, Htlc: i%2 == 0, Enforced: enforced, Stalls: i%4 >= 2})
	}
	if o.tight {
		wargs = append(wargs, walkArg{Seed: run.Seed*1000 + 500, Momentums: wl, Htlc: false, Enforced: true, Tight: true})
	}
	if o.longStall {
		wargs = append(wargs, walkArg{Seed: run.Seed*1000 + 600, Momentums: wl / 2, Htlc: false, Enforced: true, LongStall: true})
	}
	for _, wr := range labWalks(run, wargs) {
		runs = append(runs, wr.Run)
		walkStats = append(walkStats, wr.Stats)
		for k, v := range wr.Methods {
			methods[k] += v
		}
		if !wr.Drained {
			run.ReportFor("C09", "C09:inbox-not-drained", "after 60 further momentums a contract inbox still holds a confirmed send: "+wr.Run.Name, map[string]interface{}{"kind": "walk", "run": wr.Run.Name})
		}
		for _, pb := range wr.Problems {
			run.ReportFor("C09", "C09:producer-problem", "producing pillar reported: "+pb+" in "+wr.Run.Name, map[string]interface{}{"kind": "walk", "run": wr.Run.Name})
		}
	}
	if o.dust {
		runs = append(runs, dustRuns(run, o.prop)...)
	}
	if o.cells > 0 {
		runs = append(runs, cellRuns(run, o.cells)...)
	}
	if o.reorgs > 0 {
		n := o.reorgs
		if run.Thorough() {
			n *= 4
		}
		runs = append(runs, reorgRuns(run, o.prop, n)...)
	}
	if o.locks {
		runs = append(runs, locksCheck(run, o.prop)...)
	}
	if o.bridge {
		runs = append(runs, bridgeCheck(run, o.prop)...)
	}
	if o.tokens {
		runs = append(runs, tokenCheck(run, o.prop)...)
		swapCheck(run, o.prop)
	}
	if o.tokens || o.bridge {
		br, err := bridgeTracedRun()
		if err != nil {
			core.Fatal("%v", err)
		}
		runs = append(runs, *br)
	}
	run.Set("lab_walks", walkStats)
	run.Set("lab_walk_methods_accepted", methods)
	events := 0
	released := map[string]int{}
	for _, r := range runs {
		events += len(r.Events)
		for _, ev := range r.Events {
			if rel, ok := ev["rel"]; ok {
				js, _ := json.Marshal(rel)
				var list []struct {
					Kind string `json:"kind"`
				}
				if json.Unmarshal(js, &list) == nil {
					for _, x := range list {
						released[x.Kind]++
					}
				}
			}
		}
	}
	run.Set("locked_entries_released_in_the_validated_traces_by_kind", released)
	collections := 0
	for _, r := range runs {
		for _, ev := range r.Events {
			rw, ok := ev["rew"]
			if !ok {
				continue
			}
			js, _ := json.Marshal(rw)
			var list []struct {
				MintZnn []int `json:"mintZnn"`
				MintQsr []int `json:"mintQsr"`
			}
			if json.Unmarshal(js, &list) == nil {
				for _, x := range list {
					if len(x.MintZnn) > 0 || len(x.MintQsr) > 0 {
						collections++
					}
				}
			}
		}
	}
	run.Set("momentums_with_reward_collections_in_the_validated_traces", collections)
	if strings.Contains(o.invariants, "CollectedRight") && collections == 0 {
		core.Fatal("vacuity: no reward collection in any validated trace")
	}
	verdicts, states, err := validateLedgerRuns(runs, o.invariants)
	if err != nil {
		core.Fatal("%v", err)
	}
	run.States += states
	run.Transitions += int64(events)
	run.Traces += int64(len(runs))
	run.Set("trace_events_validated", events)
	for _, v := range verdicts {
		key, what := classifyLedgerVerdict(v)
		prop := o.prop
		if key == "receiver-mismatch-below-enforcement-height" && prop != "C01" && prop != "C04" {
			run.Count("runs_ending_at_a_legacy_mismatch_receive(C01/C04 finding)", 1)
			continue
		}
		run.ReportFor(prop, prop+":"+key, what, map[string]interface{}{"kind": "ledger-trace", "run": v.Run, "event_index": v.Line, "event": v.Event})
	}
	if len(runs) > 0 {
		r := runs[len(runs)-1]
		n := len(r.Events)
		if n > 6 {
			n = 6
		}
		run.AddSample(map[string]interface{}{"run": r.Name, "first_events": r.Events[:n], "events": len(r.Events)})
	}
	_ = strings.Join
}
