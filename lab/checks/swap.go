package checks

import (
	"encoding/base64"
	"encoding/json"
	"fmt"
	"math/big"
	"os"
	"os/exec"
	"time"

	g "github.com/zenon-network/go-zenon/chain/genesis/mock"
	"github.com/zenon-network/go-zenon/chain/nom"
	"github.com/zenon-network/go-zenon/common/types"
	"github.com/zenon-network/go-zenon/vm/constants"
	"github.com/zenon-network/go-zenon/vm/embedded/definition"
	"github.com/zenon-network/go-zenon/vm/embedded/implementation"
	"github.com/zenon-network/go-zenon/wallet"

	"verif/lab/core"
	"verif/lab/node"
	"verif/lab/walk"
)

// Swap.tla replayed on a real producing node. The fixture is a chain that has reached an epoch just short of a decay boundary
// (or in the middle of a period, by seed); every behaviour starts from a copy of it; a Decay step is one momentum thirty
// epochs later.

type swapStep struct {
	A    string          `json:"a"`
	C    string          `json:"c"`
	K    string          `json:"k"`
	Sig  string          `json:"sig"`
	R    string          `json:"r"`
	Pct  int64           `json:"pct"`
	Left map[string]bool `json:"left"`
	D    int             `json:"d"`
}
type swapBehaviour struct {
	Steps []swapStep `json:"steps"`
}

const swapCfg = `CONSTANTS
  Keys = {"k1","k2"}
  Users = {"u1","u2"}
  MaxDecay = 11
  WithHist = %s
INIT Init
NEXT Next
%s
CHECK_DEADLOCK FALSE
`

type swapKey struct {
	prv      []byte
	pub      string
	znn, qsr *big.Int
}

func swapCheck(run *core.Run, prop string) {
	inv := "INVARIANTS NotTwice ConsumedOnce NeverMoreThanRecorded\nPROPERTIES PctOnlyFalls\nVIEW GenView"
	res, err := core.RunTLC(core.TLCOpts{Module: "Swap", CfgText: fmt.Sprintf(swapCfg, "FALSE", inv), Timeout: 5 * time.Minute})
	if err != nil || res.Violated != "" || res.Err != "" {
		core.Fatal("Swap: %v %s %s", err, res.Violated, res.Err)
	}
	run.States += res.Distinct
	run.Transitions += res.Generated
	every := int64(3)
	if run.Thorough() {
		every = 1
	}
	var behaviours []*swapBehaviour
	var total int64
	_, err = core.RunTLC(core.TLCOpts{Module: "Swap", CfgText: fmt.Sprintf(swapCfg, "TRUE", "VIEW GenView\nACTION_CONSTRAINT EmitEdge"), Workers: 1, Timeout: 5 * time.Minute,
		OnLine: func(line string) {
			js, ok := core.ParseB(line, "B")
			if !ok {
				return
			}
			total++
			if (total+run.Seed)%every != 0 {
				return
			}
			var b swapBehaviour
			if json.Unmarshal([]byte(js), &b) == nil && b.Steps[len(b.Steps)-1].A == "Retrieve" {
				behaviours = append(behaviours, &b)
			}
		}})
	if err != nil || len(behaviours) == 0 {
		core.Fatal("Swap generation: %v (%d behaviours)", err, len(behaviours))
	}
	walk.LabConstants()
	node.Clock.Set(time.Unix(1000000000, 0))
	// a second legacy entry next to the mock configuration's one
	cfg := cloneGenesis(g.EmbeddedGenesis)
	keys := map[string]*swapKey{
		"k1": {prv: g.Secp1PrvKey, pub: g.Secp1PubKeyB64},
		"k2": {prv: g.Secp2PrvKey, pub: g.Secp2PubKeyB64, znn: big.NewInt(3*100000000 + 7), qsr: big.NewInt(99)},
	}
	keys["k1"].znn, keys["k1"].qsr = new(big.Int).Set(cfg.SwapConfig.Entries[0].Znn), new(big.Int).Set(cfg.SwapConfig.Entries[0].Qsr)
	pub2, err := decodeB64(keys["k2"].pub)
	if err != nil {
		core.Fatal("%v", err)
	}
	cfg.SwapConfig.Entries = append(cfg.SwapConfig.Entries, &definition.SwapAssets{KeyIdHash: implementation.PubKeyToKeyIdHash(pub2), Znn: new(big.Int).Set(keys["k2"].znn), Qsr: new(big.Int).Set(keys["k2"].qsr)})
	// the epoch a behaviour starts in: just short of the first decay boundary, in the middle of a period, or at a period's last epoch
	startEpochs := []int{89, 100, 118}
	epochSlots := walk.EpochMomentums
	epochOf := func(n *node.Node) int {
		return int(n.Cons.FrontierPillarReader().EpochTicker().ToTick(*n.Frontier().Timestamp))
	}
	type swapFixture struct {
		dir    string
		height uint64
	}
	var fixtures []swapFixture
	for _, se := range startEpochs {
		p, err := node.New("swap-fixture", node.Options{Producer: true, Genesis: cfg})
		if err != nil {
			core.Fatal("swap fixture: %v", err)
		}
		core.Must(p.Produce(se*epochSlots - 1))
		core.Must(p.ProduceN(2))
		if e := epochOf(p); e != se {
			core.Fatal("swap fixture: at epoch %d, wanted %d", e, se)
		}
		fixtures = append(fixtures, swapFixture{p.Dir, p.Height()})
		p.StopKeepDir()
		defer os.RemoveAll(p.Dir)
	}
	users := map[string]*wallet.KeyPair{"u1": g.User1, "u2": g.User2}
	outcomes := map[string]int{}
	for bi, b := range behaviours {
		fi := (bi + int(run.Seed)) % len(fixtures)
		fxDir, fxHeight, startEpoch := fixtures[fi].dir, fixtures[fi].height, startEpochs[fi]
		dir := fmt.Sprintf("%s-b%d", fxDir, bi)
		if out, err := exec.Command("cp", "-r", fxDir, dir).CombinedOutput(); err != nil {
			core.Fatal("copying the swap fixture: %v %s", err, out)
		}
		func() {
			defer os.RemoveAll(dir)
			n, err := node.New("swap", node.Options{Producer: true, Dir: dir, Genesis: cfg})
			if err != nil {
				core.Fatal("%v", err)
			}
			defer n.Stop()
			if n.Height() != fxHeight {
				core.Fatal("swap replay: the copied fixture opens at height %d, built at %d", n.Height(), fxHeight)
			}
			js, _ := json.Marshal(b.Steps)
			rep := func(key, what string) {
				run.ReportFor(prop, prop+":swap-"+key, what+fmt.Sprintf(" (start epoch %d; behaviour %s)", startEpoch, tail(string(js), 900)), map[string]interface{}{"kind": "swap-behaviour", "behaviour": b, "start_epoch": startEpoch})
			}
			bal := func(a types.Address, t types.ZenonTokenStandard) *big.Int {
				v, _ := n.Chain.GetFrontierAccountStore(a).GetBalance(t)
				if v == nil {
					v = big.NewInt(0)
				}
				sum := new(big.Int).Set(v)
				hashes, _ := n.Chain.GetFrontierMomentumStore().GetAccountMailbox(a).GetUnreceivedAccountBlockHashes(500)
				for _, h := range hashes {
					if blk, err := n.Chain.GetFrontierMomentumStore().GetAccountBlockByHash(h); err == nil && blk != nil && blk.TokenStandard == t {
						sum.Add(sum, blk.Amount)
					}
				}
				return sum
			}
			for si, s := range b.Steps {
				if s.A == "Decay" {
					if err := n.Produce(constants.SwapAssetDecayTickEpochs*epochSlots - 1); err != nil {
						core.Fatal("swap replay: %v", err)
					}
					continue
				}
				u, k := users[s.C], keys[s.K]
				signer := u.Address
				if s.Sig == "for-other" {
					signer = g.User3.Address
				}
				sig, err := implementation.SignRetrieveAssetsMessage(signer, k.prv, k.pub)
				if err != nil {
					core.Fatal("swap replay: signing: %v", err)
				}
				if s.Sig == "garbage" {
					sig = sig65(bi + si)
				}
				z0, q0 := bal(u.Address, types.ZnnTokenStandard), bal(u.Address, types.QsrTokenStandard)
				blk, err := n.Submit(&nom.AccountBlock{BlockType: nom.BlockTypeUserSend, Address: u.Address, ToAddress: types.SwapContract, TokenStandard: types.ZeroTokenStandard, Amount: big.NewInt(0),
					Data: definition.ABISwap.PackMethodPanic(definition.RetrieveAssetsMethodName, k.pub, sig)}, u)
				outcomes[s.Sig+"/"+s.R]++
				if (err != nil) != (s.R == "rejected") {
					rep("send-outcome-differs", fmt.Sprintf("step %d: sending the call gives %v, the specification says %s", si+1, err, s.R))
					return
				}
				if err != nil {
					continue
				}
				core.Must(n.ProduceN(4)) // the call, the swap contract's receive, the token contract's two mints
				rb, err := n.Chain.GetFrontierMomentumStore().GetBlockWhichReceives(blk.Hash)
				if err != nil || rb == nil {
					run.ReportFor("C09", "C09:swap-call-not-received", "a RetrieveAssets call was not received within four momentums", map[string]interface{}{"kind": "swap-behaviour", "behaviour": b})
					return
				}
				if ok := len(rb.Data) == 8 && rb.Data[7] == 1; ok != (s.R == "ok") {
					rep("receive-outcome-differs", fmt.Sprintf("step %d: the contract's receive reports success=%v, the specification says %s", si+1, ok, s.R))
					return
				}
				wantZ, wantQ := new(big.Int), new(big.Int)
				if s.R == "ok" {
					wantZ.Div(new(big.Int).Mul(k.znn, big.NewInt(s.Pct)), big.NewInt(100))
					wantQ.Div(new(big.Int).Mul(k.qsr, big.NewInt(s.Pct)), big.NewInt(100))
				}
				gotZ, gotQ := new(big.Int).Sub(bal(u.Address, types.ZnnTokenStandard), z0), new(big.Int).Sub(bal(u.Address, types.QsrTokenStandard), q0)
				if gotZ.Cmp(wantZ) != 0 || gotQ.Cmp(wantQ) != 0 {
					rep("paid-amount-differs", fmt.Sprintf("step %d: %s by %s (epoch %d): the caller gets %v ZNN / %v QSR, the specification says %d %% of %v / %v = %v / %v", si+1, s.K, s.C, epochOf(n), gotZ, gotQ, s.Pct, k.znn, k.qsr, wantZ, wantQ))
					return
				}
				// what the swap contract asks the token contract to mint is exactly what is paid (other contracts mint rewards in the
				// same momentums, so the supplies themselves say nothing here)
				dz, dq := new(big.Int), new(big.Int)
				for _, d := range rb.DescendantBlocks {
					param := new(definition.MintParam)
					if d.ToAddress != types.TokenContract || definition.ABIToken.UnpackMethod(param, definition.MintMethodName, d.Data) != nil {
						rep("unexpected-descendant", fmt.Sprintf("step %d: the swap contract's receive sends something other than a mint request: to %v", si+1, d.ToAddress))
						return
					}
					if param.ReceiveAddress != u.Address {
						rep("minted-for-another-address", fmt.Sprintf("step %d: the swap contract asks for a mint to %v, the caller is %v", si+1, param.ReceiveAddress, u.Address))
						return
					}
					if param.TokenStandard == types.ZnnTokenStandard {
						dz.Add(dz, param.Amount)
					} else if param.TokenStandard == types.QsrTokenStandard {
						dq.Add(dq, param.Amount)
					}
				}
				if dz.Cmp(wantZ) != 0 || dq.Cmp(wantQ) != 0 {
					rep("mint-requests-differ-from-what-is-paid", fmt.Sprintf("step %d: the swap contract asks for %v ZNN / %v QSR to be minted while %v / %v are due", si+1, dz, dq, wantZ, wantQ))
					return
				}
				// the entry afterwards
				for name, kk := range keys {
					pubBytes, _ := decodeB64(kk.pub)
					e, err := definition.GetSwapAssetsByKeyIdHash(n.Chain.GetFrontierMomentumStore().GetAccountStore(types.SwapContract).Storage(), implementation.PubKeyToKeyIdHash(pubBytes))
					has := err == nil && e != nil && (e.Znn.Sign() > 0 || e.Qsr.Sign() > 0)
					if has != s.Left[name] {
						rep("entry-state-differs", fmt.Sprintf("after step %d the entry of %s is still there = %v, the specification says %v", si+1, name, has, s.Left[name]))
						return
					}
				}
			}
			for _, pb := range n.Problems {
				run.ReportFor("C09", "C09:producer-problem", "producing pillar reported: "+pb+" (swap replay)", nil)
			}
			run.Traces++
		}()
	}
	run.Set("swap_behaviours", fmt.Sprintf("%d transitions in the edge cover of Swap.tla (2 entries, 2 callers, 3 classes of signature, 0..11 decay periods), every %d-th one that ends in a retrieval replayed from a copy of a chain at epoch 89, 100 or 118 (in turn): %d behaviours; paid amounts, the swap contract's mint requests and the entries compared", total, every, len(behaviours)))
	run.Set("swap_outcomes", outcomes)
	if outcomes["for-caller/ok"] == 0 || outcomes["for-caller/refund"] == 0 || outcomes["for-other/rejected"] == 0 {
		core.Fatal("vacuity: swap replay outcomes %v", outcomes)
	}
}

func decodeB64(s string) ([]byte, error) { return base64.StdEncoding.DecodeString(s) }
