package checks

import (
	"crypto/sha256"
	"encoding/json"
	"fmt"
	"math/big"
	"strings"
	"sync"
	"time"

	g "github.com/zenon-network/go-zenon/chain/genesis/mock"
	"github.com/zenon-network/go-zenon/chain/nom"
	"github.com/zenon-network/go-zenon/common/types"
	"github.com/zenon-network/go-zenon/wallet"

	"verif/lab/core"
	"verif/lab/node"
	"verif/lab/walk"
)

// ---------------------------------------------------------------------------------------------
// Sync.tla behaviours replayed on real nodes.

type syncStep struct {
	S     []string `json:"s"`
	Ts    []string `json:"ts"`
	Idx   int      `json:"idx"`
	Err   string   `json:"err"`
	Chain []string `json:"chain"`
}
type syncBehaviour struct {
	Steps []syncStep `json:"steps"`
}

const syncCfg = `CONSTANTS
  Tags = {"a","b","x","="}
  MaxH = %d
  MaxBatch = %d
  MaxRollback = %d
  WithHist = %s
  NilCheck = %s
INIT Init
NEXT Next
%s
CHECK_DEADLOCK FALSE
`

// momTree builds and caches the real momentums of the abstract tree. One abstract element is a
// SEGMENT of `unit` real momentums: the first carries the distinguishing content, the others are empty.
type momTree struct {
	prefix []*nom.DetailedMomentum // common prefix every node adopts first (may be empty)
	unit   int
	gap    int // slots nobody produces in before every element (more than an election period: forks reach across several)
	mu     sync.Mutex
	segs   map[string][]*nom.DetailedMomentum // path -> the unit momentums of its last element
	dumps  map[string]string                  // path -> frontier dump of a node that only ever saw this path
	prods  map[string]string                  // path -> producers of the next slots as computed by that node
	pools  map[string]int
	builds int
}

func newMomTree(unit int) *momTree {
	t := &momTree{unit: unit, segs: map[string][]*nom.DetailedMomentum{}, dumps: map[string]string{}, prods: map[string]string{}, pools: map[string]int{}}
	return t
}

func pkey(p []string) string { return strings.Join(p, "") }

var syncVariantUsers = map[string][2]*wallet.KeyPair{"a": {g.User1, g.User2}, "b": {g.User3, g.User4}, "x": {g.User5, g.User6}}

// ensure builds the segment of every prefix of path (valid tags only, except that the LAST tag may be
// "x": its segment is built valid here and corrupted at delivery time).
func (t *momTree) ensure(path []string) error {
	t.mu.Lock()
	defer t.mu.Unlock()
	return t.ensureLocked(path)
}

func (t *momTree) ensureLocked(path []string) error {
	if len(path) == 0 {
		return nil
	}
	if _, ok := t.segs[pkey(path)]; ok {
		return nil
	}
	parent := path[:len(path)-1]
	if err := t.ensureLocked(parent); err != nil {
		return err
	}
	n, err := node.New("builder-"+pkey(path), node.Options{Producer: true})
	if err != nil {
		return err
	}
	defer n.Stop()
	t.builds++
	if len(parent) > 0 || len(t.prefix) > 0 {
		if idx, err := n.InsertChain(t.chainLocked(parent)); err != nil {
			return &honestRefusal{fmt.Sprintf("a fresh node refuses the chain %v that honest lab producers built one on top of the other (index %d): %v", parent, idx, err)}
		}
	}
	us := syncVariantUsers[path[len(path)-1]]
	if _, err := n.Submit(&nom.AccountBlock{BlockType: nom.BlockTypeUserSend, Address: us[0].Address, ToAddress: us[1].Address,
		TokenStandard: types.ZnnTokenStandard, Amount: big.NewInt(int64(100 + len(path)))}, us[0]); err != nil {
		return fmt.Errorf("builder submit: %v", err)
	}
	from := n.Height() + 1
	skip := t.gap
	if path[len(path)-1] == "b" {
		skip++ // the "b" variant misses a slot: the branches differ in the consensus statistics, too
	}
	if err := n.Produce(skip); err != nil {
		return err
	}
	if err := n.ProduceN(t.unit - 1); err != nil {
		return err
	}
	seg, err := n.Detailed(from, n.Height())
	if err != nil {
		return err
	}
	if len(seg[0].AccountBlocks) == 0 {
		return fmt.Errorf("builder: first momentum of segment %v carries no block", path)
	}
	t.segs[pkey(path)] = seg
	t.dumps[pkey(path)] = n.Dump()
	t.pools[pkey(path)] = len(n.Chain.GetAllUncommittedAccountBlocks())
	t.prods[pkey(path)] = nextProducers(n, 12) + consStats(n)
	return nil
}

// consStats renders the consensus statistics a node serves: per-epoch pillar statistics, weights, delegations.
func consStats(n *node.Node) (out string) {
	defer func() {
		if r := recover(); r != nil {
			out += fmt.Sprintf(" PANIC:%v", r)
		}
	}()
	reader := n.Cons.FrontierPillarReader()
	tick := reader.EpochTicker().ToTick(*n.Frontier().Timestamp)
	var sb strings.Builder
	for e := uint64(0); e <= tick; e++ {
		st, err := reader.EpochStats(e)
		js, _ := json.Marshal(st)
		fmt.Fprintf(&sb, " epoch%d:%s/%v", e, js, err)
		d, err := reader.GetPillarDelegationsByEpoch(e)
		js, _ = json.Marshal(d)
		fmt.Fprintf(&sb, " deleg%d:%x/%v", e, sha256.Sum256(js), err)
	}
	w, err := reader.GetPillarWeights()
	js, _ := json.Marshal(w)
	fmt.Fprintf(&sb, " weights:%s/%v", js, err)
	return sb.String()
}

func nextProducers(n *node.Node, k int) string {
	var sb strings.Builder
	ts := n.Frontier().Timestamp
	for i := 1; i <= k; i++ {
		p, err := n.Cons.GetMomentumProducer(ts.Add(time.Duration(10*i) * time.Second))
		if err != nil || p == nil {
			sb.WriteString("?;")
		} else {
			sb.WriteString(p.String()[:10] + ";")
		}
	}
	return sb.String()
}

// buildAll builds every element a behaviour can refer to. The "x" variant is built as a valid third variant
// (so that batches can continue after it, as a peer's fabricated chain would) and corrupted at delivery time.
func (t *momTree) buildAll(maxH int) error {
	var rec func(p []string) error
	rec = func(p []string) error {
		if len(p) >= maxH {
			return nil
		}
		for _, tg := range []string{"a", "b", "x"} {
			c := append(append([]string{}, p...), tg)
			if err := t.ensure(c); err != nil {
				return err
			}
			if err := rec(c); err != nil {
				return err
			}
		}
		return nil
	}
	return rec(nil)
}

func (t *momTree) wirePrefix() []*nom.DetailedMomentum {
	var out []*nom.DetailedMomentum
	for _, dm := range t.prefix {
		c, _ := node.Wire(dm)
		out = append(out, c)
	}
	return out
}

func (t *momTree) chainLocked(path []string) []*nom.DetailedMomentum {
	out := t.wirePrefix()
	for i := 1; i <= len(path); i++ {
		for _, dm := range t.segs[pkey(path[:i])] {
			c, _ := node.Wire(dm)
			out = append(out, c)
		}
	}
	return out
}

func (t *momTree) segment(path []string) []*nom.DetailedMomentum {
	t.mu.Lock()
	defer t.mu.Unlock()
	var out []*nom.DetailedMomentum
	for _, dm := range t.segs[pkey(path)] {
		c, _ := node.Wire(dm)
		out = append(out, c)
	}
	return out
}

// corrupt turns the first momentum of a (valid) segment into one that must fail verification.
var corruptKinds = []string{"bad-signature", "wrong-producer", "wrong-changes-hash", "missing-account-block", "corrupt-account-block", "extra-content-entry"}

func corrupt(seg []*nom.DetailedMomentum, kind string) {
	m := seg[0].Momentum
	resign := func(key *wallet.KeyPair) {
		m.Hash = m.ComputeHash()
		m.PublicKey = key.Public
		m.Signature = key.Sign(m.Hash.Bytes())
	}
	producerKey := func() *wallet.KeyPair {
		for _, k := range g.PillarKeys {
			if k.Address == m.Producer() {
				return k
			}
		}
		return nil
	}
	switch kind {
	case "bad-signature":
		m.Signature = append([]byte{}, m.Signature...)
		m.Signature[5] ^= 0x40
	case "wrong-producer":
		own := producerKey()
		for _, k := range g.PillarKeys {
			if k != own {
				resign(k)
				break
			}
		}
	case "wrong-changes-hash":
		own := producerKey()
		h := m.ChangesHash
		h[3] ^= 0x01
		m.ChangesHash = h
		resign(own)
	case "missing-account-block":
		seg[0].AccountBlocks = seg[0].AccountBlocks[1:]
	case "corrupt-account-block":
		b := seg[0].AccountBlocks[0]
		b.Signature = append([]byte{}, b.Signature...)
		b.Signature[7] ^= 0x10
	case "extra-content-entry":
		// the momentum lists a block nobody delivered: content changes, hash and signature redone by the elected pillar
		own := producerKey()
		extra := *m.Content[0]
		extra.Height += 1000
		m.Content = append(m.Content, &extra)
		resign(own)
	}
	// the corrupted momentum must not carry a cached producer address
	data, _ := m.Serialize()
	if c, err := nom.DeserializeMomentum(data); err == nil {
		seg[0].Momentum = c
	}
}

func classifySyncErr(err error) string {
	if err == nil {
		return "ok"
	}
	s := err.Error()
	switch {
	case strings.HasPrefix(s, "PANIC"):
		return "crash"
	case strings.Contains(s, "can't link momentums"):
		return "nolink"
	case strings.Contains(s, "Too far"):
		return "toofar"
	case strings.Contains(s, "not longer"):
		return "notlonger"
	}
	return "invalid"
}

type syncStats struct {
	mu                              sync.Mutex
	deliveries, shorter, behaviours int64
	byErr                           map[string]int64
	byKind                          map[string]int64
	dumpsCompared, histCompared     int64
	restarts, gossiped, localBlocks int64
	rivals                          int64
}

// syncReplay replays one behaviour on a fresh follower and compares after every delivery.
type syncOpts struct {
	label     string // prefix of the evidence keys of this pass
	warmViews bool   // request historical views of every element before each delivery (C06: views requested before the switch)
	gossip    bool   // the account blocks of the batch reach the pool before the batch (C02)
	restart   bool   // the node is stopped and reopened between deliveries (C02: cold caches, across restarts)
	rival     bool   // before a delivery the node pools a RIVAL of the batch's first user block (same account, same height, other content)
	local     bool   // before a delivery the node pools a block of an otherwise idle account that acknowledges its current frontier
	gap       int    // every element of the tree follows a silence of this many slots (see momTree.gap)
}

// honestRefusal: a lab node refused momentums that other honest lab nodes produced and accepted.
type honestRefusal struct{ what string }

func (h *honestRefusal) Error() string { return h.what }

func syncReplay(run *core.Run, tree *momTree, b *syncBehaviour, n int64, st *syncStats, o syncOpts) {
	report := func(prop, key, what string) {
		run.ReportFor(prop, prop+":"+key, what, map[string]interface{}{"kind": "sync-behaviour", "unit": tree.unit, "behaviour": b})
	}
	f, err := node.New(fmt.Sprintf("follower-%d", n), node.Options{})
	if err != nil {
		core.Fatal("%v", err)
	}
	defer func() { f.Stop() }()
	if len(tree.prefix) > 0 {
		if idx, err := f.InsertChain(tree.wirePrefix()); err != nil {
			report("C02", "honestly-produced-prefix-refused", fmt.Sprintf("a fresh follower refuses the common prefix produced by an honest lab producer (index %d): %v", idx, err))
			return
		}
	}
	prevLen := 0
	var curChain []string
	for si, s := range b.Steps {
		if o.warmViews && si > 0 {
			for k := 1; k <= len(curChain); k++ {
				seg := tree.segment(curChain[:k])
				f.DumpAt(seg[len(seg)-1].Momentum.Identifier())
				f.DumpAt(seg[0].Momentum.Identifier())
			}
		}
		if o.restart && si > 0 && (n+int64(si))%2 == 0 {
			dir := f.Dir
			f.StopKeepDir()
			nf, err := node.New(f.Name+"r", node.Options{Dir: dir})
			if err != nil {
				core.Fatal("restart: %v", err)
			}
			nf.OwnDir()
			f = nf
			st.mu.Lock()
			st.restarts++
			st.mu.Unlock()
		}
		// concretise the batch
		var batch []*nom.DetailedMomentum
		kind := corruptKinds[int(n+int64(si)+run.Seed)%len(corruptKinds)]
		usable := true
		firstX := true
		cur := append([]string{}, s.S...)
		var lastSeg []*nom.DetailedMomentum
		for i := 1; i <= len(s.Ts); i++ {
			if s.Ts[i-1] == "=" {
				if lastSeg != nil { // a duplicate of the previous element
					batch = append(batch, wireAll(lastSeg)...)
				} else if len(cur) > 0 {
					seg := tree.segment(cur) // re-delivery of the start element itself
					if cur[len(cur)-1] == "x" {
						corrupt(seg, kind)
					}
					lastSeg = seg
					batch = append(batch, seg...)
				}
				continue
			}
			cur = append(cur, s.Ts[i-1])
			p := cur
			seg := tree.segment(p)
			if seg == nil {
				core.Fatal("sync tree has no segment for %v", p)
			}
			if s.Ts[i-1] == "x" && firstX {
				firstX = false
				k := kind
				if i < len(s.Ts) {
					// more elements follow: use a corruption that leaves the hash alone, so that they still link
					k = []string{"bad-signature", "missing-account-block", "corrupt-account-block"}[int(n+int64(si))%3]
				}
				corrupt(seg, k)
				st.mu.Lock()
				st.byKind[k]++
				st.mu.Unlock()
			}
			lastSeg = seg
			batch = append(batch, seg...)
		}
		_ = usable
		rolledBack := !(len(s.Chain) >= len(curChain) && pkey(s.Chain[:len(curChain)]) == pkey(curChain))
		localPooled := false
		if o.local && si > 0 {
			if _, err := f.Submit(&nom.AccountBlock{BlockType: nom.BlockTypeUserSend, Address: g.Pillar5.Address, ToAddress: g.User6.Address,
				TokenStandard: types.ZnnTokenStandard, Amount: big.NewInt(int64(7 + si))}, g.Pillar5); err == nil {
				localPooled = true
				st.mu.Lock()
				st.localBlocks++
				st.mu.Unlock()
			}
		}
		defer func(si int) {}(si)
		if o.rival && len(batch) > 0 {
			for _, blk := range batch[0].AccountBlocks {
				if blk.BlockType != nom.BlockTypeUserSend {
					continue
				}
				var key *wallet.KeyPair
				for _, k := range g.AllKeyPairs {
					if k.Address == blk.Address {
						key = k
					}
				}
				if key == nil {
					continue
				}
				if _, err := f.Submit(&nom.AccountBlock{BlockType: nom.BlockTypeUserSend, Address: key.Address, ToAddress: g.User6.Address,
					TokenStandard: types.ZnnTokenStandard, Amount: big.NewInt(int64(1 + (n+int64(si))%50))}, key); err == nil {
					st.mu.Lock()
					st.rivals++
					st.mu.Unlock()
				}
				break
			}
		}
		if o.gossip && !o.rival && (n+int64(si))%3 != 0 {
			for _, dm := range batch {
				for _, blk := range dm.AccountBlocks {
					c, _ := node.WireBlock(blk)
					if f.Offer(c) == nil {
						st.mu.Lock()
						st.gossiped++
						st.mu.Unlock()
					}
				}
			}
		}
		idx, err := f.InsertChain(batch)
		got := classifySyncErr(err)
		st.mu.Lock()
		st.deliveries++
		st.byErr[s.Err+"->"+got]++
		if len(s.Chain) < prevLen {
			st.shorter++
		}
		st.mu.Unlock()
		prevLen = len(s.Chain)
		curChain = s.Chain
		if got == "crash" {
			report("C16", "insertchain-panics-"+s.Err, fmt.Sprintf("InsertChain panicked (%v) on a batch the specification answers with %q: start %v tags %v", err, s.Err, s.S, s.Ts))
			return
		}
		if got != s.Err {
			report("C16", "result-"+s.Err+"-got-"+got, fmt.Sprintf("delivery %d (start %v, tags %v, invalid kind %s): node answered %q (%v), specification says %q", si+1, s.S, s.Ts, kind, got, err, s.Err))
			return
		}
		if localPooled && rolledBack && got != "crash" {
			// a rollback drops the whole unconfirmed pool, as on a node that only ever saw the adopted branch
			if np := len(f.Chain.GetUncommittedAccountBlocksByAddress(g.Pillar5.Address)); np != 0 {
				report("C06", "pooled-block-survives-rollback", fmt.Sprintf("delivery %d rolled the chain back from %v to a prefix of %v, but %d pooled block(s) of an idle account that acknowledged the abandoned frontier are still in the pool", si+1, curChain, s.Chain, np))
			}
		}
		wantIdx := s.Idx * tree.unit
		if idx != wantIdx {
			report("C16", "index-reported", fmt.Sprintf("delivery %d: node reported index %d, specification says %d (abstract %d x unit %d)", si+1, idx, wantIdx, s.Idx, tree.unit))
			return
		}
		// the chain the node is on
		wantH := uint64(1 + len(tree.prefix) + len(s.Chain)*tree.unit)
		if f.Height() != wantH {
			report("C16", "chain-height", fmt.Sprintf("delivery %d: node is at height %d, specification says chain %v (height %d)", si+1, f.Height(), s.Chain, wantH))
			return
		}
		if len(s.Chain) > 0 {
			seg := tree.segment(s.Chain)
			if f.Frontier().Hash != seg[len(seg)-1].Momentum.Hash {
				report("C16", "chain-identity", fmt.Sprintf("delivery %d: frontier %v is not the last momentum of %v", si+1, f.Frontier().Hash, s.Chain))
				return
			}
		}
	}
	// C06 / C02: no trace of anything but the chain the node is on
	last := b.Steps[len(b.Steps)-1]
	if len(last.Chain) > 0 {
		tree.mu.Lock()
		want := tree.dumps[pkey(last.Chain)]
		wantProd := tree.prods[pkey(last.Chain)]
		tree.mu.Unlock()
		st.mu.Lock()
		st.dumpsCompared++
		st.mu.Unlock()
		if got := f.Dump(); got != want {
			report("C06", "frontier-state-differs-from-fresh-node", fmt.Sprintf("after the deliveries the ledger state differs from a node that only ever saw %v: %s", last.Chain, firstDiff(want, got)))
		}
		sawInvalid := false
		for _, s := range b.Steps {
			if s.Err == "invalid" {
				sawInvalid = true // the account blocks of a momentum that failed are valid gossip and may stay pooled
			}
		}
		if np := len(f.Chain.GetAllUncommittedAccountBlocks()); np != 0 && !sawInvalid && !o.gossip && !o.local && !o.rival {
			report("C06", "pool-not-empty", fmt.Sprintf("unconfirmed pool holds %d blocks, a node that only saw %v holds none", np, last.Chain))
		}
		if got := nextProducers(f, 12) + consStats(f); got != wantProd {
			report("C06", "producers-differ-from-fresh-node", fmt.Sprintf("schedule of the next slots %s differs from a fresh node's %s on %v", got, wantProd, last.Chain))
		}
		for k := 1; k < len(last.Chain); k++ {
			seg := tree.segment(last.Chain[:k])
			id := seg[len(seg)-1].Momentum.Identifier()
			d, ok := f.DumpAt(id)
			tree.mu.Lock()
			w := tree.dumps[pkey(last.Chain[:k])]
			tree.mu.Unlock()
			st.mu.Lock()
			st.histCompared++
			st.mu.Unlock()
			if !ok {
				report("C06", "historical-view-unavailable", fmt.Sprintf("no view at %v on chain %v", last.Chain[:k], last.Chain))
			} else if d != w {
				report("C06", "historical-view-differs-from-fresh-node", fmt.Sprintf("view at %v (on %v) differs from the state of a node whose frontier it is: %s", last.Chain[:k], last.Chain, firstDiff(w, d)))
			}
		}
	}
}

func firstDiff(a, b string) string {
	la, lb := strings.Split(a, "\n"), strings.Split(b, "\n")
	sa, sb := map[string]bool{}, map[string]bool{}
	for _, l := range la {
		sa[l] = true
	}
	for _, l := range lb {
		sb[l] = true
	}
	var only []string
	for _, l := range la {
		if !sb[l] && len(only) < 3 {
			only = append(only, "fresh-only "+short(l))
		}
	}
	for _, l := range lb {
		if !sa[l] && len(only) < 6 {
			only = append(only, "node-only "+short(l))
		}
	}
	return fmt.Sprintf("%d vs %d lines; %s", len(la), len(lb), strings.Join(only, " | "))
}

// syncCheck: model check, generate, replay. props decides which findings are attributed where.
func syncCheck(run *core.Run, maxH, unit, maxRollback int, sampleEvery int64, o syncOpts) *syncStats {
	return syncCheckP(run, maxH, unit, maxRollback, sampleEvery, o, 0)
}

// syncCheckP: as syncCheck, with a common prefix of `prefix` momentums (a seeded walk) below the tree.
func syncCheckP(run *core.Run, maxH, unit, maxRollback int, sampleEvery int64, o syncOpts, prefix int) *syncStats {
	walk.LabConstants()
	inv := "INVARIANTS OnlyVerified NeverCrashes\nPROPERTIES AdoptionRule"
	res, err := core.RunTLC(core.TLCOpts{Module: "Sync", CfgText: fmt.Sprintf(syncCfg, maxH, 3, maxRollback, "FALSE", "TRUE", inv), Timeout: 20 * time.Minute})
	if err != nil || res.Violated != "" || res.Err != "" {
		core.Fatal("Sync: %v %s %s", err, res.Violated, res.Err)
	}
	run.States += res.Distinct
	run.Transitions += res.Generated
	nc, err := core.RunTLC(core.TLCOpts{Module: "Sync", CfgText: fmt.Sprintf(syncCfg, maxH, 3, maxRollback, "FALSE", "FALSE", inv), Timeout: 10 * time.Minute})
	if err != nil || nc.Violated != "NeverCrashes" {
		core.Fatal("negative control (no nil check, F6) not refuted: %v %+v", err, nc.Violated)
	}
	ns, err := core.RunTLC(core.TLCOpts{Module: "Sync", CfgText: fmt.Sprintf(syncCfg, maxH, 3, maxRollback, "FALSE", "TRUE", "PROPERTIES NeverShorter"), Timeout: 10 * time.Minute})
	if err != nil || ns.Violated != "NeverShorter" {
		core.Fatal("the deliberately too strong NeverShorter must be refuted (rollback-then-fail): %v", err)
	}
	run.Set("negative_controls", []string{"InsertChain without the nil check (code as found, F6) -> TLC refutes NeverCrashes", "NeverShorter (too strong on purpose) -> refuted by rollback-then-fail, the reading stated in DESIGN C16"})

	tree := newMomTree(unit)
	tree.gap = o.gap
	if prefix > 0 {
		p, err := node.New("prefix", node.Options{Producer: true})
		if err != nil {
			core.Fatal("%v", err)
		}
		w := walk.New(p, run.Seed)
		if err := w.Run(prefix); err != nil {
			core.Fatal("prefix walk: %v", err)
		}
		for p.Height() < uint64(prefix+1) {
			p.Produce(0)
		}
		tree.prefix, err = p.Detailed(2, uint64(prefix+1))
		if err != nil {
			core.Fatal("%v", err)
		}
		p.Stop()
	}
	if err := tree.buildAll(maxH); err != nil {
		if hr, ok := err.(*honestRefusal); ok {
			// not trouble of the driver: the code refuses a valid momentum it has the predecessor of (C02, second sentence)
			run.Report("C02:honestly-produced-chain-refused-while-building-the-tree", hr.what, map[string]interface{}{"kind": "sync-tree"})
			return &syncStats{byErr: map[string]int64{}, byKind: map[string]int64{}}
		}
		core.Fatal("sync tree: %v", err)
	}
	st := &syncStats{byErr: map[string]int64{}, byKind: map[string]int64{}}
	node.Clock.Set(time.Unix(1000000000, 0).Add(200 * time.Hour)) // followers only check "not in the future"
	ch := make(chan *syncBehaviour, 256)
	var wg sync.WaitGroup
	var cnt int64
	var cmu sync.Mutex
	for w := 0; w < 12; w++ {
		wg.Add(1)
		go func() {
			defer wg.Done()
			for b := range ch {
				cmu.Lock()
				cnt++
				id := cnt
				cmu.Unlock()
				syncReplay(run, tree, b, id, st, o)
				if id == 7 {
					run.AddSample(map[string]interface{}{"sync_behaviour": b.Steps, "unit_momentums_per_element": unit})
				}
			}
		}()
	}
	var total int64
	_, err = core.RunTLC(core.TLCOpts{Module: "Sync", CfgText: fmt.Sprintf(syncCfg, maxH, 3, maxRollback, "TRUE", "TRUE", "VIEW GenView\nACTION_CONSTRAINT EmitEdge"), Workers: 1, Timeout: 60 * time.Minute,
		OnLine: func(line string) {
			js, ok := core.ParseB(line, "B")
			if !ok {
				return
			}
			total++
			if (total+run.Seed)%sampleEvery != 0 {
				return
			}
			var b syncBehaviour
			if json.Unmarshal([]byte(js), &b) != nil {
				core.Fatal("bad sync behaviour")
			}
			ch <- &b
		}})
	close(ch)
	wg.Wait()
	if err != nil {
		core.Fatal("Sync generation: %v", err)
	}
	st.behaviours = cnt
	run.Traces += cnt
	run.Set(o.label+"sync_generated_transitions", total)
	run.Set(o.label+"sync_behaviours_replayed", cnt)
	run.Set(o.label+"sync_deliveries_replayed", st.deliveries)
	run.Set(o.label+"sync_outcomes(spec->node)", st.byErr)
	run.Set(o.label+"sync_invalid_kinds_manufactured", st.byKind)
	run.Set(o.label+"sync_deliveries_ending_on_a_shorter_chain", st.shorter)
	run.Set(o.label+"sync_frontier_dumps_compared_with_fresh_node", st.dumpsCompared)
	run.Set(o.label+"sync_historical_dumps_compared_with_fresh_node", st.histCompared)
	run.Set(o.label+"sync_real_momentums_per_abstract_element", unit)
	run.Set(o.label+"sync_tree_nodes_built", tree.builds)
	run.Set(o.label+"sync_follower_restarts", st.restarts)
	run.Set(o.label+"sync_rival_blocks_pooled_before_a_delivery", st.rivals)
	run.Set(o.label+"sync_local_dependent_blocks_pooled_before_a_delivery", st.localBlocks)
	run.Set(o.label+"sync_blocks_gossiped_before_their_momentum", st.gossiped)
	return st
}

type nomDM = nom.DetailedMomentum

func wireAll(dms []*nom.DetailedMomentum) []*nom.DetailedMomentum {
	out := make([]*nom.DetailedMomentum, 0, len(dms))
	for _, dm := range dms {
		c, err := node.Wire(dm)
		if err != nil {
			core.Fatal("wire: %v", err)
		}
		out = append(out, c)
	}
	return out
}
