package checks

import "verif/lab/core"

func c08Chain(run *core.Run, n int) {}
