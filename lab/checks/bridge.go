package checks

import (
	"crypto/ecdsa"
	"encoding/base64"
	"encoding/json"
	"fmt"
	"math/big"
	"os"
	"os/exec"
	"strings"
	"sync"
	"time"

	"github.com/ethereum/go-ethereum/crypto"
	g "github.com/zenon-network/go-zenon/chain/genesis/mock"
	"github.com/zenon-network/go-zenon/chain/nom"
	"github.com/zenon-network/go-zenon/common/types"
	"github.com/zenon-network/go-zenon/vm/constants"
	"github.com/zenon-network/go-zenon/vm/embedded/definition"
	"github.com/zenon-network/go-zenon/vm/embedded/implementation"
	"github.com/zenon-network/go-zenon/wallet"

	"verif/lab/core"
	"verif/lab/ledger"
	"verif/lab/node"
	"verif/lab/walk"
)

// Bridge.tla replayed on a real producing node.
//
// The fixture (built once per child process, then copied for every behaviour): the bridge initialised as the repository's own
// tests do it (orchestrator info, guardians, threshold key - the key pair of the repository's tests), one network, and four
// token pairs for the four kinds of pair of the specification. Every behaviour starts from a copy of the fixture's
// directory, so nothing leaks from one behaviour into the next (halts, emergencies, balances).
//
// Time: one abstract unit = bridgeUnit momentums, at most bridgeDense calls per unit, one call per momentum. The redeem
// delay (bridgeDelay momentums) lies between "one unit later" and "two units later" whatever the position of the calls inside
// their units; the cool-down after an unhalt (bridgeCool) between "same unit" and "next unit".

const (
	bridgeUnit  = 20
	bridgeDense = 8
	bridgeDelay = 30
	bridgeCool  = 10
	bridgeAmt   = 1000 // base units per abstract unit of amount
	bridgeNet   = uint32(2)
	bridgeChain = uint32(123)
	// the threshold key pair of vm/embedded/tests/z_bridge_test.go
	bridgeTssPub  = "AsAQx1M3LVXCuozDOqO5b9adj/PItYgwZFG/xTDBiZzT"
	bridgeTssPriv = "tuSwrTEUyJI1/3y5J8L8DSjzT/AQG2IK3JG+93qhhhI="
)

type bridgeReq struct {
	St  string `json:"st"`
	To  string `json:"to"`
	Amt int    `json:"amt"`
	At  int    `json:"at"`
}
type bridgeState struct {
	Bal    int         `json:"bal"`
	Halted bool        `json:"halted"`
	Nonce  int         `json:"nonce"`
	Em     bool        `json:"em"`
	Req    []bridgeReq `json:"req"`
}
type bridgeStep struct {
	A   string      `json:"a"`
	U   string      `json:"u"`
	C   string      `json:"c"`
	I   int         `json:"i"`
	N   int         `json:"n"`
	Dst string      `json:"dst"`
	Sig string      `json:"sig"`
	R   string      `json:"r"`
	To  string      `json:"to"`
	Amt int         `json:"amt"`
	Now int         `json:"now"`
	Cfg string      `json:"cfg"`
	St  bridgeState `json:"st"`
}
type bridgeBehaviour struct {
	Steps []bridgeStep `json:"steps"`
}

const bridgeCfg = `CONSTANTS
  Users = {"u1","u2"}
  Admin = "adm"
  Ids = %s
  MaxTime = 3
  MaxBal = 3
  MaxNonce = 1
  Cfgs = {"plain","proper","burnable","stubborn"}
  WithHist = %s
INIT Init
NEXT Next
%s
CHECK_DEADLOCK FALSE
`

var bridgePairAddr = map[string]string{"plain": "0x5fbdb2315678afecb367f032d93f642f64180aa1", "proper": "0x5fbdb2315678afecb367f032d93f642f64180aa2",
	"burnable": "0x5fbdb2315678afecb367f032d93f642f64180aa3", "stubborn": "0x5fbdb2315678afecb367f032d93f642f64180aa4"}

type bridgeFixture struct {
	Dir    string
	Tokens map[string]types.ZenonTokenStandard
	Height uint64
}

func bridgeTssKey() *ecdsa.PrivateKey {
	b, _ := base64.StdEncoding.DecodeString(bridgeTssPriv)
	k, err := crypto.ToECDSA(b)
	if err != nil {
		panic(err)
	}
	return k
}

func bridgeSign(hash []byte) string {
	sig, err := crypto.Sign(hash, bridgeTssKey())
	if err != nil {
		panic(err)
	}
	return base64.StdEncoding.EncodeToString(sig)
}

func bridgeConstants() {
	walk.LabConstants()
	constants.InitialBridgeAdministrator.SetBytes(g.User5.Address.Bytes())
	constants.MinAdministratorDelay, constants.MinSoftDelay, constants.MinGuardians = 4, 2, 4
	constants.MinUnhaltDurationInMomentums = bridgeCool
}

// buildBridgeFixture prepares the state every behaviour starts from and leaves it in a directory.
func buildBridgeFixture() (*bridgeFixture, error) { return buildBridgeFixtureThen(nil) }

// buildBridgeFixtureThen: as buildBridgeFixture, with a last act on the node before it is stopped.
func buildBridgeFixtureThen(then func(p *node.Node, fx *bridgeFixture) error) (*bridgeFixture, error) {
	bridgeConstants()
	node.Clock.Set(time.Unix(1000000000, 0))
	p, err := node.New("bridge-fixture", node.Options{Producer: true})
	if err != nil {
		return nil, err
	}
	w := walk.New(p, 1)
	id, err := w.ActivateSpork("spork-htlc")
	if err != nil {
		return nil, err
	}
	setHtlcSpork(id)
	u1, u2, admin := g.User1, g.User2, g.User5
	znn := types.ZnnTokenStandard
	var ferr error
	send := func(what string, key *wallet.KeyPair, to types.Address, tok types.ZenonTokenStandard, amt *big.Int, data []byte) *nom.AccountBlock {
		b, err := p.Submit(&nom.AccountBlock{BlockType: nom.BlockTypeUserSend, Address: key.Address, ToAddress: to, TokenStandard: tok, Amount: amt, Data: data}, key)
		if err != nil && ferr == nil {
			ferr = fmt.Errorf("bridge fixture: %s refused: %v", what, err)
		}
		return b
	}
	twice := func(what string, delay int, data []byte) {
		send(what, admin, types.BridgeContract, znn, big.NewInt(0), data)
		p.ProduceN(delay + 4)
		send(what, admin, types.BridgeContract, znn, big.NewInt(0), data)
		p.ProduceN(2)
	}
	fx := &bridgeFixture{Tokens: map[string]types.ZenonTokenStandard{}}
	for _, cfg := range []string{"plain", "proper", "burnable", "stubborn"} {
		b := send("issue "+cfg, u1, types.TokenContract, znn, constants.TokenIssueAmount,
			definition.ABIToken.PackMethodPanic(definition.IssueMethodName, "bridge-"+cfg, "BRG", "", big.NewInt(200000), big.NewInt(100000000), uint8(0), true, cfg != "stubborn", false))
		if b == nil {
			return nil, ferr
		}
		fx.Tokens[cfg] = types.NewZenonTokenStandard(b.Hash.Bytes())
		p.Produce(0)
	}
	p.ProduceN(3)
	w.ReceivePending(u1)
	p.ProduceN(1)
	for _, cfg := range []string{"plain", "proper", "burnable", "stubborn"} {
		send("share "+cfg, u1, u2.Address, fx.Tokens[cfg], big.NewInt(100000), nil)
	}
	send("hand over proper", u1, types.TokenContract, types.ZeroTokenStandard, big.NewInt(0), definition.ABIToken.PackMethodPanic(definition.UpdateTokenMethodName, fx.Tokens["proper"], types.BridgeContract, true, true))
	send("orchestrator", admin, types.BridgeContract, znn, big.NewInt(0), definition.ABIBridge.PackMethodPanic(definition.SetOrchestratorInfoMethodName, uint64(6), uint32(3), uint32(15), uint32(10)))
	p.ProduceN(2)
	w.ReceivePending(u2)
	guardians := []types.Address{g.User1.Address, g.User2.Address, g.User3.Address, g.User4.Address, g.User5.Address}
	twice("guardians", int(constants.MinAdministratorDelay), definition.ABIBridge.PackMethodPanic(definition.NominateGuardiansMethodName, guardians))
	twice("threshold key", int(constants.MinSoftDelay), definition.ABIBridge.PackMethodPanic(definition.ChangeTssECDSAPubKeyMethodName, bridgeTssPub, "", ""))
	send("network", admin, types.BridgeContract, znn, big.NewInt(0), definition.ABIBridge.PackMethodPanic(definition.SetNetworkMethodName, bridgeNet, bridgeChain, "Ethereum", "0x323b5d4c32345ced77393b3530b1eed0f346429d", "{}"))
	p.ProduceN(2)
	for _, cfg := range []string{"plain", "proper", "burnable", "stubborn"} {
		twice("pair "+cfg, int(constants.MinSoftDelay), definition.ABIBridge.PackMethodPanic(definition.SetTokenPairMethod, bridgeNet, bridgeChain, fx.Tokens[cfg], bridgePairAddr[cfg],
			true, true, cfg != "plain", big.NewInt(10), uint32(0), uint32(bridgeDelay), "{}"))
	}
	p.ProduceN(bridgeCool + 2)
	if ferr != nil {
		return nil, ferr
	}
	st := p.Chain.GetFrontierMomentumStore().GetAccountStore(types.BridgeContract).Storage()
	ni, err := definition.GetNetworkInfoVariable(st, bridgeNet, bridgeChain)
	if err != nil || len(ni.TokenPairs) != 4 {
		return nil, fmt.Errorf("bridge fixture: the network has %d token pairs (%v)", len(ni.TokenPairs), err)
	}
	bi, err := definition.GetBridgeInfoVariable(st)
	if err != nil || bi.CompressedTssECDSAPubKey == "" || bi.Halted {
		return nil, fmt.Errorf("bridge fixture: bridge info %+v (%v)", bi, err)
	}
	for _, u := range []*wallet.KeyPair{u1, u2} {
		for cfg, zts := range fx.Tokens {
			if b, _ := p.Chain.GetFrontierAccountStore(u.Address).GetBalance(zts); b == nil || b.Cmp(big.NewInt(100000)) != 0 {
				return nil, fmt.Errorf("bridge fixture: %v holds %v of the %s token", u.Address, b, cfg)
			}
		}
	}
	if ti, err := definition.GetTokenInfo(p.Chain.GetFrontierMomentumStore().GetAccountStore(types.TokenContract).Storage(), fx.Tokens["proper"]); err != nil || ti.Owner != types.BridgeContract {
		return nil, fmt.Errorf("bridge fixture: the proper token is not owned by the bridge (%v)", err)
	}
	// stop at a unit boundary minus one, so that every behaviour starts aligned
	for (p.Height()+1)%bridgeUnit != 0 {
		p.Produce(0)
	}
	if then != nil {
		if err := then(p, fx); err != nil {
			p.Stop()
			return nil, err
		}
	}
	fx.Height = p.Height()
	fx.Dir = p.Dir
	p.StopKeepDir()
	return fx, nil
}

// bridgeTracedRun: the whole life of a bridge on one traced chain - its initialisation, a wrap on each of the four kinds of pair
// (among them the burn the token contract refuses and refunds to the bridge), an unwrap and its redeem - for trace validation
// (C01: refunds between contracts leave the sums unchanged).
func bridgeTracedRun() (*ledgerRun, error) {
	cap := ledger.StartCapture()
	defer cap.Stop()
	fx, err := buildBridgeFixtureThen(func(p *node.Node, fx *bridgeFixture) error {
		for i, cfg := range []string{"plain", "proper", "burnable", "stubborn", "stubborn"} {
			u := []*wallet.KeyPair{g.User1, g.User2}[i%2]
			if _, err := p.Submit(&nom.AccountBlock{BlockType: nom.BlockTypeUserSend, Address: u.Address, ToAddress: types.BridgeContract, TokenStandard: fx.Tokens[cfg], Amount: big.NewInt(int64(5000 + i)),
				Data: definition.ABIBridge.PackMethodPanic(definition.WrapTokenMethodName, bridgeNet, bridgeChain, "0xb794f5ea0ba39494ce839613fffba74279579268")}, u); err != nil {
				return fmt.Errorf("traced bridge run: wrap refused: %v", err)
			}
			if err := p.Produce(0); err != nil {
				return err
			}
		}
		tx := types.NewHash([]byte("traced-unwrap"))
		amt := big.NewInt(700)
		if _, err := p.Submit(&nom.AccountBlock{BlockType: nom.BlockTypeUserSend, Address: g.User3.Address, ToAddress: types.BridgeContract, TokenStandard: types.ZeroTokenStandard, Amount: big.NewInt(0),
			Data: definition.ABIBridge.PackMethodPanic(definition.UnwrapTokenMethodName, bridgeNet, bridgeChain, tx, uint32(1), g.User2.Address, bridgePairAddr["plain"], amt, bridgeUnwrapSig(tx, 1, g.User2.Address, bridgePairAddr["plain"], amt))}, g.User3); err != nil {
			return fmt.Errorf("traced bridge run: unwrap refused: %v", err)
		}
		if err := p.ProduceN(bridgeDelay + 3); err != nil {
			return err
		}
		if _, err := p.Submit(&nom.AccountBlock{BlockType: nom.BlockTypeUserSend, Address: g.User4.Address, ToAddress: types.BridgeContract, TokenStandard: types.ZeroTokenStandard, Amount: big.NewInt(0),
			Data: definition.ABIBridge.PackMethodPanic(definition.RedeemUnwrapMethodName, tx, uint32(1))}, g.User4); err != nil {
			return fmt.Errorf("traced bridge run: redeem refused: %v", err)
		}
		return p.ProduceN(6)
	})
	if err != nil {
		return nil, err
	}
	os.RemoveAll(fx.Dir)
	ids := cap.ChainIDs()
	if len(ids) != 1 {
		return nil, fmt.Errorf("traced bridge run: expected one chain in capture, got %v", ids)
	}
	pr := ledger.NewProjector()
	pr.Observer = ledger.StandardObserver(walk.EpochMomentums)
	if err := cap.Project(ids[0], pr); err != nil {
		return nil, err
	}
	return &ledgerRun{Name: "bridge on one traced chain (initialisation, wraps on the four kinds of pair, unwrap, redeem)", Events: pr.Events, Note: pr.Note}, nil
}

type bridgeReplayStats struct {
	Behaviours int
	Steps      int
	Outcomes   map[string]int
	Findings   [][2]string
	Run        *ledgerRun
}

type bridgeArg struct {
	Behaviours []bridgeBehaviour
	Seed       int64
	Trace      bool // project one of the behaviours' chains for trace validation
}

func init() {
	core.RegisterChild("bridge-replay", func(arg json.RawMessage) (interface{}, error) {
		var a bridgeArg
		if err := json.Unmarshal(arg, &a); err != nil {
			return nil, err
		}
		node.Quiet()
		return bridgeChild(a)
	})
}

func bridgeChild(a bridgeArg) (*bridgeReplayStats, error) {
	fx, err := buildBridgeFixture()
	if err != nil {
		return nil, err
	}
	defer os.RemoveAll(fx.Dir)
	st := &bridgeReplayStats{Outcomes: map[string]int{}}
	for bi, b := range a.Behaviours {
		dir := fmt.Sprintf("%s-b%d", fx.Dir, bi)
		if out, err := exec.Command("cp", "-r", fx.Dir, dir).CombinedOutput(); err != nil {
			return nil, fmt.Errorf("copying the fixture: %v %s", err, out)
		}
		trace := a.Trace && bi == len(a.Behaviours)/2
		last := b.Steps[len(b.Steps)-1]
		if err := bridgeReplayOne(fx, dir, b, st, trace, bi%6 == 0 || last.R == "kept-unburned" || last.R == "consumed-unpaid"); err != nil {
			os.RemoveAll(dir)
			return nil, err
		}
		os.RemoveAll(dir)
		st.Behaviours++
	}
	return st, nil
}

func bridgeUnwrapSig(txHash types.Hash, logIndex uint32, to types.Address, tokenAddress string, amount *big.Int) string {
	msg, err := implementation.GetUnwrapTokenRequestMessage(&definition.UnwrapTokenParam{NetworkClass: bridgeNet, ChainId: bridgeChain, TransactionHash: txHash, LogIndex: logIndex,
		ToAddress: to, TokenAddress: tokenAddress, Amount: amount})
	if err != nil {
		panic(err)
	}
	return bridgeSign(msg)
}

func bridgeReplayOne(fx *bridgeFixture, dir string, b bridgeBehaviour, st *bridgeReplayStats, trace, follow bool) error {
	bridgeConstants()
	var cap *ledger.Capture
	if trace {
		cap = ledger.StartCapture()
		defer cap.Stop()
	}
	p, err := node.New("bridge", node.Options{Producer: true, Dir: dir})
	if err != nil {
		return err
	}
	defer p.Stop()
	if p.Height() != fx.Height {
		return fmt.Errorf("bridge replay: the copied fixture opens at height %d, built at %d", p.Height(), fx.Height)
	}
	if err := p.Produce(0); err != nil { // the unit boundary
		return err
	}
	base := p.Height()
	cfg := b.Steps[0].Cfg
	zts := fx.Tokens[cfg]
	users := map[string]*wallet.KeyPair{"u1": g.User1, "u2": g.User2, "adm": g.User5}
	label := func() string { js, _ := json.Marshal(b.Steps); return tail(string(js), 1500) }
	// two outcomes are the code's as found, not demanded by the property (see Bridge.tla): a behaviour ends at the first of them,
	// and there the other admissible course - the call is refused and leaves everything as it was - is accepted as well
	asFound := func(r string) bool { return r == "kept-unburned" || r == "consumed-unpaid" }
	for k, s := range b.Steps {
		if asFound(s.R) {
			b.Steps = b.Steps[:k+1]
			break
		}
	}
	var held [][2]string
	holdFindings := false
	find := func(key, what string) {
		f := [2]string{key, what + " (pair kind " + cfg + "; behaviour " + label() + ")"}
		if holdFindings {
			held = append(held, f)
		} else if len(st.Findings) < 12 {
			st.Findings = append(st.Findings, f)
		}
	}
	// feasibility: at most bridgeDense calls per unit
	cnt := map[int]int{}
	for _, s := range b.Steps {
		if s.A != "Tick" {
			cnt[s.Now]++
			if cnt[s.Now] > bridgeDense {
				st.Outcomes["skipped-too-dense"]++
				return nil
			}
		}
	}
	holding := func(a types.Address) *big.Int {
		bal, _ := p.Chain.GetFrontierAccountStore(a).GetBalance(zts)
		if bal == nil {
			bal = big.NewInt(0)
		}
		sum := new(big.Int).Set(bal)
		hashes, _ := p.Chain.GetFrontierMomentumStore().GetAccountMailbox(a).GetUnreceivedAccountBlockHashes(500)
		for _, h := range hashes {
			if blk, err := p.Chain.GetFrontierMomentumStore().GetAccountBlockByHash(h); err == nil && blk != nil && blk.TokenStandard == zts {
				sum.Add(sum, blk.Amount)
			}
		}
		return sum
	}
	want := map[string]*big.Int{"u1": holding(g.User1.Address), "u2": holding(g.User2.Address)}
	bridge0 := holding(types.BridgeContract)
	txOf := func(i int) types.Hash { return types.NewHash([]byte(fmt.Sprintf("lab-unwrap-%d-%s", i, dir))) }
	chainID := p.Chain.ChainIdentifier()
	type sent struct {
		step  bridgeStep
		block *nom.AccountBlock
	}
	var calls []sent
	// compare the contract's state with the specification's after the step at index si (called when everything has settled)
	compare := func(si int) {
		s := b.Steps[si]
		store := p.Chain.GetFrontierMomentumStore().GetAccountStore(types.BridgeContract).Storage()
		bi, err := definition.GetBridgeInfoVariable(store)
		if err != nil {
			find("bridge-info-unreadable", err.Error())
			return
		}
		if bi.Halted != s.St.Halted {
			find("halted-flag-differs", fmt.Sprintf("after step %d (%s) the bridge's halted flag is %v, the specification says %v", si+1, s.A, bi.Halted, s.St.Halted))
		}
		if int(bi.TssNonce) != s.St.Nonce {
			find("nonce-differs", fmt.Sprintf("after step %d (%s) the threshold-key nonce is %d, the specification says %d", si+1, s.A, bi.TssNonce, s.St.Nonce))
		}
		if bi.Administrator.IsZero() != s.St.Em {
			find("emergency-differs", fmt.Sprintf("after step %d (%s) the administrator is %v, the specification says emergency=%v", si+1, s.A, bi.Administrator, s.St.Em))
		}
		got := new(big.Int).Sub(holding(types.BridgeContract), bridge0)
		if got.Cmp(big.NewInt(int64(s.St.Bal*bridgeAmt))) != 0 {
			find("bridge-balance-differs", fmt.Sprintf("after step %d (%s) the bridge holds %v of the token more than at the start, the specification says %d", si+1, s.A, got, s.St.Bal*bridgeAmt))
		}
		for i, r := range s.St.Req {
			real, err := definition.GetUnwrapTokenRequestByTxHashAndLog(store, txOf(i+1), uint32(i+1))
			state := "none"
			if err == nil && real != nil {
				switch {
				case real.Redeemed > 0:
					state = "redeemed"
				case real.Revoked > 0:
					state = "revoked"
				default:
					state = "registered"
				}
			}
			if state != r.St {
				find("request-state-differs", fmt.Sprintf("after step %d (%s) unwrap request %d is %s, the specification says %s", si+1, s.A, i+1, state, r.St))
			} else if state != "none" && (real.ToAddress != users[r.To].Address || real.Amount.Cmp(big.NewInt(int64(r.Amt*bridgeAmt))) != 0) {
				find("request-content-differs", fmt.Sprintf("after step %d unwrap request %d names %v / %v, registered for %s / %d", si+1, i+1, real.ToAddress, real.Amount, r.To, r.Amt*bridgeAmt))
			}
		}
		for _, u := range []string{"u1", "u2"} {
			if h := holding(users[u].Address); h.Cmp(want[u]) != 0 {
				find("user-holding-differs", fmt.Sprintf("after step %d (%s) %s holds (received or receivable) %v of the token, the calls so far leave %v", si+1, s.A, u, h, want[u]))
			}
		}
	}
	settle := func(upTo uint64) error {
		for p.Height() < upTo {
			if err := p.Produce(0); err != nil {
				return fmt.Errorf("the producing node cannot produce (%v; problems %v)", err, p.Problems)
			}
		}
		return nil
	}
	unit := 0
	lastCall := -1
	var altWant map[string]*big.Int
	for si, s := range b.Steps {
		st.Steps++
		if s.A == "Tick" {
			// everything of this unit settles (call, contract receive, the token contract's receive, its descendant)
			if err := settle(base + uint64(unit*bridgeUnit) + bridgeDense + 6); err != nil {
				find("producer-stops", err.Error())
				return nil
			}
			if lastCall >= 0 {
				compare(lastCall)
			}
			unit++
			if err := settle(base + uint64(unit*bridgeUnit)); err != nil {
				find("producer-stops", err.Error())
				return nil
			}
			continue
		}
		var key *wallet.KeyPair
		tok, amt := types.ZeroTokenStandard, big.NewInt(0)
		var data []byte
		switch s.A {
		case "Wrap":
			key, tok, amt = users[s.U], zts, big.NewInt(int64(s.N*bridgeAmt))
			data = definition.ABIBridge.PackMethodPanic(definition.WrapTokenMethodName, bridgeNet, bridgeChain, "0xb794f5ea0ba39494ce839613fffba74279579268")
		case "Unwrap":
			key = users[s.C]
			to, n := users[s.Dst].Address, big.NewInt(int64(s.N*bridgeAmt))
			var sig string
			switch s.Sig {
			case "good":
				sig = bridgeUnwrapSig(txOf(s.I), uint32(s.I), to, bridgePairAddr[cfg], n)
			case "other-amount":
				sig = bridgeUnwrapSig(txOf(s.I), uint32(s.I), to, bridgePairAddr[cfg], new(big.Int).Add(n, big.NewInt(1)))
			case "other-to":
				sig = bridgeUnwrapSig(txOf(s.I), uint32(s.I), g.User3.Address, bridgePairAddr[cfg], n)
			default:
				sig = sig65(si + 7)
			}
			data = definition.ABIBridge.PackMethodPanic(definition.UnwrapTokenMethodName, bridgeNet, bridgeChain, txOf(s.I), uint32(s.I), to, bridgePairAddr[cfg], n, sig)
		case "Redeem":
			key = users[s.C]
			data = definition.ABIBridge.PackMethodPanic(definition.RedeemUnwrapMethodName, txOf(s.I), uint32(s.I))
		case "Revoke":
			key = users[s.C]
			data = definition.ABIBridge.PackMethodPanic(definition.RevokeUnwrapRequestMethodName, txOf(s.I), uint32(s.I))
		case "Halt":
			key = users[s.C]
			sig := ""
			nonce := uint64(0)
			if si > 0 {
				nonce = uint64(b.Steps[si-1].St.Nonce)
			}
			switch s.Sig {
			case "good":
				msg, _ := implementation.GetBasicMethodMessage(definition.HaltMethodName, nonce, definition.NoMClass, chainID)
				sig = bridgeSign(msg)
			case "stale":
				msg, _ := implementation.GetBasicMethodMessage(definition.HaltMethodName, nonce-1, definition.NoMClass, chainID)
				sig = bridgeSign(msg)
			case "garbage":
				sig = sig65(si + 3)
			}
			data = definition.ABIBridge.PackMethodPanic(definition.HaltMethodName, sig)
		case "Unhalt":
			key = users[s.C]
			data = definition.ABIBridge.PackMethodPanic(definition.UnhaltMethodName)
		case "Emergency":
			key = users[s.C]
			data = definition.ABIBridge.PackMethodPanic(definition.EmergencyMethodName)
		default:
			return fmt.Errorf("bridge replay: unknown action %q", s.A)
		}
		blk, err := p.Submit(&nom.AccountBlock{BlockType: nom.BlockTypeUserSend, Address: key.Address, ToAddress: types.BridgeContract, TokenStandard: tok, Amount: amt, Data: data}, key)
		if err != nil {
			find("call-refused-at-send-time", fmt.Sprintf("step %d (%s): %v", si+1, s.A, err))
			return nil
		}
		calls = append(calls, sent{s, blk})
		lastCall = si
		if asFound(s.R) {
			altWant = map[string]*big.Int{"u1": new(big.Int).Set(want["u1"]), "u2": new(big.Int).Set(want["u2"])}
		}
		switch {
		case s.A == "Wrap" && (s.R == "ok" || s.R == "kept-unburned"):
			want[s.U] = new(big.Int).Sub(want[s.U], amt)
		case s.A == "Redeem" && s.R == "paid":
			want[s.To] = new(big.Int).Add(want[s.To], big.NewInt(int64(s.Amt*bridgeAmt)))
		}
		if err := p.Produce(0); err != nil {
			find("producer-stops", fmt.Sprintf("after step %d (%s) the producing node cannot produce: %v (problems %v)", si+1, s.A, err, p.Problems))
			return nil
		}
	}
	if err := settle(p.Height() + 6); err != nil {
		find("producer-stops", err.Error())
		return nil
	}
	lastAsFound := lastCall >= 0 && asFound(b.Steps[lastCall].R)
	holdFindings = lastAsFound
	if lastCall >= 0 {
		compare(lastCall)
	}
	holdFindings = false
	otherCourse := false
	if lastAsFound && len(held) > 0 {
		// not the outcome as found: is it the other admissible one (refused, everything as before the call)?
		strict := held
		held = nil
		saveSt, saveWant := b.Steps[lastCall].St, want
		prev := bridgeState{Req: make([]bridgeReq, len(saveSt.Req))}
		for i := range prev.Req {
			prev.Req[i] = bridgeReq{St: "none", To: "-"}
		}
		if lastCall > 0 {
			prev = b.Steps[lastCall-1].St
		}
		b.Steps[lastCall].St, want = prev, altWant
		holdFindings = true
		compare(lastCall)
		holdFindings = false
		b.Steps[lastCall].St, want = saveSt, saveWant
		if len(held) == 0 {
			otherCourse = true
			st.Outcomes[b.Steps[lastCall].A+"/refused where the code as found answers "+b.Steps[lastCall].R]++
		} else {
			for _, f := range strict {
				if len(st.Findings) < 12 {
					st.Findings = append(st.Findings, f)
				}
			}
		}
		held = nil
	}
	// every call was received, with the outcome the specification gives it
	ms := p.Chain.GetFrontierMomentumStore()
	for ci, c := range calls {
		rb, err := ms.GetBlockWhichReceives(c.block.Hash)
		if err != nil || rb == nil {
			find("call-never-received", fmt.Sprintf("the %s call of step at time %d was never received by the bridge", c.step.A, c.step.Now))
			continue
		}
		ok := len(rb.Data) == 8 && rb.Data[7] == 1
		wantOK := c.step.R != "refused"
		if otherCourse && ci == len(calls)-1 {
			wantOK = false
		}
		st.Outcomes[c.step.A+"/"+c.step.R]++
		if ok != wantOK {
			find(fmt.Sprintf("%s-specified-%s-executed-%v", c.step.A, c.step.R, ok), fmt.Sprintf("%s by %s%s at time %d: the contract's receive reports success=%v, the specification says %s",
				c.step.A, c.step.C, c.step.U, c.step.Now, ok, c.step.R))
		}
	}
	// the token contract is still served: a mint of the plain token by its owner goes through
	mint, err := p.Submit(&nom.AccountBlock{BlockType: nom.BlockTypeUserSend, Address: g.User1.Address, ToAddress: types.TokenContract, TokenStandard: types.ZeroTokenStandard, Amount: big.NewInt(0),
		Data: definition.ABIToken.PackMethodPanic(definition.MintMethodName, fx.Tokens["plain"], big.NewInt(1), g.User3.Address)}, g.User1)
	if err != nil {
		find("token-contract-call-refused", err.Error())
		return nil
	}
	if err := settle(p.Height() + 3); err != nil {
		find("producer-stops", err.Error())
		return nil
	}
	if rb, err := p.Chain.GetFrontierMomentumStore().GetBlockWhichReceives(mint.Hash); err != nil || rb == nil {
		find("token-contract-inbox-wedged", "after the behaviour a call to the token contract is not received any more within three momentums")
	}
	for _, pb := range p.Problems {
		find("producer-problem", "producing pillar reported: "+pb)
	}
	// what the producer built is accepted by a node that verifies it from the genesis on, and leaves it in the same state
	if follow {
		dms, err := p.Detailed(2, p.Height())
		if err != nil {
			return err
		}
		f, err := node.New("bridge-follower", node.Options{})
		if err != nil {
			return err
		}
		defer f.Stop()
		node.Clock.Set(p.Frontier().Timestamp.Add(time.Hour))
		if idx, err := f.InsertChain(dms); err != nil {
			find("chain-refused-by-a-verifying-node", fmt.Sprintf("a fresh node refuses the chain the producer built (momentum %d): %v", idx+2, err))
		} else if f.Dump() != p.Dump() {
			find("verifying-node-ends-in-another-state", "a fresh node that verified the producer's chain holds another state than the producer")
		}
		st.Outcomes["chains-verified-by-a-fresh-node"]++
	}
	if trace {
		ids := cap.ChainIDs()
		if len(ids) == 1 {
			pr := ledger.NewProjector()
			pr.Observer = ledger.StandardObserver(walk.EpochMomentums)
			if err := cap.Project(ids[0], pr); err == nil {
				st.Run = &ledgerRun{Name: "bridge replay (" + cfg + " pair)", Events: pr.Events, Note: pr.Note}
			}
		}
	}
	return nil
}

// bridgeCheck: model check Bridge.tla, generate behaviours, replay them in child processes.
func bridgeCheck(run *core.Run, prop string) []ledgerRun {
	inv := "INVARIANTS NotTwice PaidImpliesRedeemed PaidRight Backed\nPROPERTIES StoppedMeansStill NonceOnlyGrows"
	ids := "{1}"
	if run.Thorough() {
		ids = "{1, 2}"
	}
	res, err := core.RunTLC(core.TLCOpts{Module: "Bridge", CfgText: fmt.Sprintf(bridgeCfg, ids, "FALSE", inv), Timeout: 30 * time.Minute})
	if err != nil || res.Violated != "" || res.Err != "" {
		core.Fatal("Bridge: %v %s %s", err, res.Violated, res.Err)
	}
	run.States += res.Distinct
	run.Transitions += res.Generated
	// for ALL amounts, times and nonces: the invariants are inductive (Apalache, BridgeInd.tla = Bridge.tla with unbounded values)
	for _, c := range []struct {
		what, want string
		args       []string
	}{
		{"base case", "ok", []string{"--cinit=CInitOK", "--init=Init", "--inv=IndInv", "--length=0"}},
		{"inductive step", "ok", []string{"--cinit=CInitOK", "--init=IndInit", "--inv=IndInv", "--length=1"}},
		{"negative control (Redeem does not look at the request's state)", "violated", []string{"--cinit=CInitBroken", "--init=IndInit", "--inv=IndInv", "--length=1"}},
	} {
		got, err := core.RunApalache("BridgeInd", 10*time.Minute, c.args...)
		if err != nil || got != c.want {
			core.Fatal("BridgeInd %s: %s, expected %s (%v)", c.what, got, c.want, err)
		}
	}
	run.Set("bridge_inductive_invariant", "Apalache: IndInv (TypeOK, NotTwice, PaidImpliesRedeemed, UnpaidUnlessRedeemed, Backed, RegisteredInThePast) holds initially and is preserved by every action for all natural amounts, times and nonces (two request ids); refuted when Redeem does not look at the request's state")
	run.Set("bridge_mc", fmt.Sprintf("Bridge.tla, request ids %s, four kinds of pair: %d distinct states, %d transitions, depth %d", ids, res.Distinct, res.Generated, res.Depth))
	// behaviours: a seeded sample of the edge cover (one request id), every transition whose last step moves funds, and random walks with two ids
	budget := 220
	if prop != "C10" {
		budget = 72 // C09: the calls between the contracts, a smaller sample of the rest
	}
	if run.Thorough() {
		budget *= 18
	}
	var sample []bridgeBehaviour
	moving := map[string][]bridgeBehaviour{}
	var total int64
	_, err = core.RunTLC(core.TLCOpts{Module: "Bridge", CfgText: fmt.Sprintf(bridgeCfg, "{1}", "TRUE", "VIEW GenView\nACTION_CONSTRAINT EmitEdge"), Workers: 1, Timeout: 30 * time.Minute,
		OnLine: func(line string) {
			js, ok := core.ParseB(line, "B")
			if !ok {
				return
			}
			total++
			end := tail(js, 40)
			interesting := strings.Contains(end, `"r":"paid"`) || strings.Contains(end, `"r":"kept-unburned"`) || strings.Contains(end, `"r":"consumed-unpaid"`)
			if !interesting && (total+run.Seed*7919)%1201 != 0 {
				return
			}
			var b bridgeBehaviour
			if json.Unmarshal([]byte(js), &b) != nil {
				return
			}
			last := b.Steps[len(b.Steps)-1]
			if last.R == "paid" || last.R == "kept-unburned" || last.R == "consumed-unpaid" {
				moving[last.R] = append(moving[last.R], b)
			} else {
				sample = append(sample, b)
			}
		}})
	if err != nil {
		core.Fatal("Bridge generation: %v", err)
	}
	var walks []bridgeBehaviour
	var cur *bridgeBehaviour
	nsim := 30
	if run.Thorough() {
		nsim = 400
	}
	_, err = core.RunTLC(core.TLCOpts{Module: "Bridge", CfgText: fmt.Sprintf(bridgeCfg, "{1, 2}", "TRUE", "VIEW GenView\nACTION_CONSTRAINT EmitEdge"), Workers: 1, Timeout: 10 * time.Minute,
		Args: []string{"-simulate", fmt.Sprintf("num=%d", nsim), "-depth", "14", "-seed", fmt.Sprint(run.Seed)},
		OnLine: func(line string) {
			js, ok := core.ParseB(line, "B")
			if !ok {
				return
			}
			var b bridgeBehaviour
			if json.Unmarshal([]byte(js), &b) != nil {
				return
			}
			if cur != nil && len(b.Steps) <= len(cur.Steps) {
				walks = append(walks, *cur)
			}
			cur = &b
		}})
	if err != nil {
		core.Fatal("Bridge simulation: %v", err)
	}
	if cur != nil {
		walks = append(walks, *cur)
	}
	// the fund-moving transitions: a seeded stride through them, half of the budget
	var chosen []bridgeBehaviour
	nAllMoving := 0
	for _, r := range []string{"paid", "kept-unburned", "consumed-unpaid"} {
		share := budget / 3
		if r != "paid" {
			share = budget / 12
		}
		n := len(moving[r])
		nAllMoving += n
		if n == 0 {
			continue
		}
		stride := n/share + 1
		for i := int(run.Seed) % stride; i < n; i += stride {
			chosen = append(chosen, moving[r][i])
		}
	}
	nMoving := len(chosen)
	if n := len(sample); n > 0 {
		stride := n/(budget/2) + 1
		for i := int(run.Seed) % stride; i < n; i += stride {
			chosen = append(chosen, sample[i])
		}
	}
	nSample := len(chosen) - nMoving
	chosen = append(chosen, walks...)
	run.Set("bridge_behaviours", fmt.Sprintf("%d transitions in the edge cover (one request id); replayed: %d of the %d whose last step moves funds, %d of a 1-in-1201 sample of the others, %d random walks with two request ids (depth 14)",
		total, nMoving, nAllMoving, nSample, len(walks)))
	const parts = 12
	args := make([]bridgeArg, parts)
	for i, b := range chosen {
		args[i%parts].Behaviours = append(args[i%parts].Behaviours, b)
	}
	outs := make([]bridgeReplayStats, parts)
	crashes := make([]*core.Crash, parts)
	errs := make([]error, parts)
	var wg sync.WaitGroup
	for i := range args {
		args[i].Seed = run.Seed
		args[i].Trace = false // a reopened database has no genesis event to start a trace from
		wg.Add(1)
		go func(i int) {
			defer wg.Done()
			crashes[i], errs[i] = core.Child("bridge-replay", args[i], &outs[i], 40*time.Minute)
		}(i)
	}
	wg.Wait()
	outcomes := map[string]int{}
	var runs []ledgerRun
	done, steps := 0, 0
	for i := range args {
		if errs[i] != nil {
			core.Fatal("bridge replay: %v", errs[i])
		}
		if c := crashes[i]; c != nil {
			run.ReportFor("C09", "C09:"+c.Key(), fmt.Sprintf("the node process went down while it replayed behaviours of Bridge.tla: %s", c.String()), map[string]interface{}{"kind": "bridge-behaviour", "stderr_tail": c.Text})
			continue
		}
		for _, f := range outs[i].Findings {
			p := prop
			if strings.HasPrefix(f[0], "producer-") || strings.HasPrefix(f[0], "token-contract-") || strings.HasPrefix(f[0], "call-never") {
				p = "C09"
			}
			run.ReportFor(p, p+":bridge-"+f[0], f[1], map[string]interface{}{"kind": "bridge-behaviour", "what": f[1]})
		}
		for k, v := range outs[i].Outcomes {
			outcomes[k] += v
		}
		done += outs[i].Behaviours
		steps += outs[i].Steps
		if outs[i].Run != nil {
			runs = append(runs, *outs[i].Run)
		}
	}
	run.Traces += int64(done)
	run.Set("bridge_replayed", fmt.Sprintf("%d behaviours, %d steps; after every unit of time and at the end the contract's state (halted flag, nonce, administrator, requests, balance) and the users' holdings are compared with the specification's", done, steps))
	run.Set("bridge_outcomes", outcomes)
	if run.NumViolations() == 0 && (outcomes["Redeem/paid"] == 0 || outcomes["Redeem/refused"] == 0 || outcomes["Wrap/ok"] == 0) {
		core.Fatal("vacuity: bridge replay outcomes %v (%d behaviours chosen, %d replayed)", outcomes, len(chosen), done)
	}
	return runs
}

// DebugBridgeTraced is used by cmd/dbg3.
func DebugBridgeTraced() string {
	node.Quiet()
	br, err := bridgeTracedRun()
	if err != nil {
		return err.Error()
	}
	verdicts, _, err := validateLedgerRuns([]ledgerRun{*br}, "Conservation Backed")
	out := fmt.Sprintf("%d events, err %v\n", len(br.Events), err)
	for _, v := range verdicts {
		js, _ := json.Marshal(v.Event)
		out += fmt.Sprintf("verdict line %d inv %q event %s\n", v.Line, v.Inv, tail(string(js), 600))
	}
	n := 0
	for _, ev := range br.Events {
		if ev["ev"] == "CRecv" {
			js, _ := json.Marshal(ev)
			if strings.Contains(string(js), "fail") || n < 0 {
				out += "CRecv fail: " + tail(string(js), 500) + "\n"
			}
		}
	}
	return out
}
