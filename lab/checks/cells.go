package checks

import (
	"bytes"
	"encoding/base64"
	"encoding/json"
	"fmt"
	"math/big"
	"sort"
	"strings"
	"sync"
	"time"

	g "github.com/zenon-network/go-zenon/chain/genesis/mock"
	"github.com/zenon-network/go-zenon/chain/nom"
	"github.com/zenon-network/go-zenon/common/types"
	"github.com/zenon-network/go-zenon/verifier"
	"github.com/zenon-network/go-zenon/vm/abi"
	"github.com/zenon-network/go-zenon/vm/constants"
	"github.com/zenon-network/go-zenon/vm/embedded/definition"
	"github.com/zenon-network/go-zenon/wallet"

	"verif/lab/core"
	"verif/lab/ledger"
	"verif/lab/node"
	"verif/lab/walk"
)

// The cells of CallCells.tla, concretised and sent to a producing node (C09).

type cellContract struct {
	name string
	addr types.Address
	abi  abi.ABIContract
}

func cellContracts() []cellContract {
	return []cellContract{
		{"accelerator", types.AcceleratorContract, definition.ABIAccelerator},
		{"bridge", types.BridgeContract, definition.ABIBridge},
		{"htlc", types.HtlcContract, definition.ABIHtlc},
		{"liquidity", types.LiquidityContract, definition.ABILiquidity},
		{"pillar", types.PillarContract, definition.ABIPillars},
		{"plasma", types.PlasmaContract, definition.ABIPlasma},
		{"sentinel", types.SentinelContract, definition.ABISentinel},
		{"spork", types.SporkContract, definition.ABISpork},
		{"stake", types.StakeContract, definition.ABIStake},
		{"swap", types.SwapContract, definition.ABISwap},
		{"token", types.TokenContract, definition.ABIToken},
	}
}

// cellsData renders CallCellsData.tla from the ABI definitions of the code under test.
func cellsData() (string, int) {
	var rows []string
	for _, c := range cellContracts() {
		var ms []string
		for m := range c.abi.Methods {
			ms = append(ms, m)
		}
		sort.Strings(ms)
		for _, m := range ms {
			var ps []string
			for _, in := range c.abi.Methods[m].Inputs {
				ps = append(ps, `"`+in.Type.String()+`"`)
			}
			rows = append(rows, fmt.Sprintf(`[c |-> "%s", m |-> "%s", params |-> <<%s>>]`, c.name, m, strings.Join(ps, ", ")))
		}
	}
	return "---- MODULE CallCellsData ----\nMethods == <<\n  " + strings.Join(rows, ",\n  ") + " >>\n====\n", len(rows)
}

type cell struct {
	C       string   `json:"c"`
	M       string   `json:"m"`
	Tie     bool     `json:"tie"`
	Dims    []int    `json:"dims"`
	Classes []string `json:"classes"`
}

func (c cell) String() string {
	var d []string
	for i := range c.Dims {
		d = append(d, fmt.Sprintf("%d:%s", c.Dims[i], c.Classes[i]))
	}
	t := ""
	if c.Tie {
		t = " tie"
	}
	return fmt.Sprintf("%s.%s[%s%s]", c.C, c.M, strings.Join(d, ","), t)
}

const cellsCfg = `CONSTANTS
  MaxDev = %d
  MaxDevDeep = %d
  Deep = {%s}
INIT Init
NEXT Next
CHECK_DEADLOCK FALSE
`

func generateCells(maxDev, maxDevDeep int, deep string) ([]cell, int) {
	data, nm := cellsData()
	var cells []cell
	_, err := core.RunTLC(core.TLCOpts{Module: "CallCells", CfgText: fmt.Sprintf(cellsCfg, maxDev, maxDevDeep, deep), Workers: 1, Timeout: 20 * time.Minute,
		Files: map[string]string{"CallCellsData.tla": data},
		OnLine: func(line string) {
			if js, ok := core.ParseB(line, "B"); ok {
				var c cell
				if json.Unmarshal([]byte(js), &c) == nil {
					cells = append(cells, c)
				}
			}
		}})
	if err != nil {
		core.Fatal("CallCells: %v", err)
	}
	return cells, nm
}

// ---- the prepared state ----------------------------------------------------------------------------

type cellFixture struct {
	n                          *node.Node
	w                          *walk.World
	token, foreignToken        types.ZenonTokenStandard
	fusion, foreignFusion      types.Hash
	stake, foreignStake        types.Hash
	htlc, foreignHtlc          types.Hash
	project                    types.Hash
	spork                      types.Hash
	preimage                   []byte
	counter                    int
	refused, accepted, unbuilt map[string]int
	notes                      []string
	reasons                    map[string]int
	regime                     string // which sporks are in force: "" = all (the HTLC spork), "none", "acc", "bridge"
}

func unitsOf(n int64) *big.Int {
	return new(big.Int).Mul(big.NewInt(n), big.NewInt(constants.Decimals))
}

func (f *cellFixture) send(key *wallet.KeyPair, to types.Address, tok types.ZenonTokenStandard, amt *big.Int, data []byte) *nom.AccountBlock {
	b, err := f.n.Submit(&nom.AccountBlock{BlockType: nom.BlockTypeUserSend, Address: key.Address, ToAddress: to, TokenStandard: tok, Amount: amt, Data: data}, key)
	if err != nil {
		if f.reasons != nil {
			r := err.Error()
			if len(r) > 60 {
				r = r[:60]
			}
			f.reasons[r]++
		}
		return nil
	}
	return b
}

func (f *cellFixture) must(what string, b *nom.AccountBlock) (types.Hash, error) {
	if b == nil {
		return types.ZeroHash, fmt.Errorf("fixture: %s refused", what)
	}
	return b.Hash, nil
}

func (f *cellFixture) prepare() error {
	u1, u2 := g.User1, g.User2
	constants.InitialBridgeAdministrator.SetBytes(g.User5.Address.Bytes())
	constants.MinAdministratorDelay, constants.MinSoftDelay, constants.MinGuardians = 4, 2, 4
	var err error
	switch f.regime {
	case "":
		id, e := f.w.ActivateSpork("spork-htlc")
		if e != nil {
			return e
		}
		setHtlcSpork(id)
		f.spork = id
	case "acc", "bridge":
		id, e := f.w.ActivateSpork("spork-" + f.regime)
		if e != nil {
			return e
		}
		setSporkPointer(f.regime, id)
		f.spork = id
	}
	withHtlc, withProject, withBridge := f.regime == "", f.regime != "none", f.regime == "" || f.regime == "bridge"
	znn, qsr := types.ZnnTokenStandard, types.QsrTokenStandard
	issue := func(key *wallet.KeyPair, name string) (types.ZenonTokenStandard, error) {
		b := f.send(key, types.TokenContract, znn, constants.TokenIssueAmount,
			definition.ABIToken.PackMethodPanic(definition.IssueMethodName, name, "CELL", "", unitsOf(500), unitsOf(100000), uint8(8), true, true, false))
		if b == nil {
			return types.ZeroTokenStandard, fmt.Errorf("fixture: issue refused")
		}
		return types.NewZenonTokenStandard(b.Hash.Bytes()), nil
	}
	if f.token, err = issue(u1, "celltoken"); err != nil {
		return err
	}
	if f.foreignToken, err = issue(u2, "foreigntoken"); err != nil {
		return err
	}
	if f.fusion, err = f.must("fuse", f.send(u1, types.PlasmaContract, qsr, unitsOf(20), definition.ABIPlasma.PackMethodPanic(definition.FuseMethodName, u2.Address))); err != nil {
		return err
	}
	if f.foreignFusion, err = f.must("fuse", f.send(u2, types.PlasmaContract, qsr, unitsOf(20), definition.ABIPlasma.PackMethodPanic(definition.FuseMethodName, u2.Address))); err != nil {
		return err
	}
	if f.stake, err = f.must("stake", f.send(u1, types.StakeContract, znn, unitsOf(5), definition.ABIStake.PackMethodPanic(definition.StakeMethodName, constants.StakeTimeUnitSec))); err != nil {
		return err
	}
	if f.foreignStake, err = f.must("stake", f.send(u2, types.StakeContract, znn, unitsOf(5), definition.ABIStake.PackMethodPanic(definition.StakeMethodName, constants.StakeTimeUnitSec))); err != nil {
		return err
	}
	f.preimage = []byte("cells-preimage")
	exp := f.n.Frontier().Timestamp.Unix() + 400
	if withHtlc {
		if f.htlc, err = f.must("htlc", f.send(u1, types.HtlcContract, znn, unitsOf(2),
			definition.ABIHtlc.PackMethodPanic(definition.CreateHtlcMethodName, u2.Address, exp, uint8(0), uint8(32), types.NewHash(f.preimage).Bytes()))); err != nil {
			return err
		}
		if f.foreignHtlc, err = f.must("htlc", f.send(u2, types.HtlcContract, znn, unitsOf(2),
			definition.ABIHtlc.PackMethodPanic(definition.CreateHtlcMethodName, u1.Address, exp, uint8(0), uint8(32), types.NewHash(f.preimage).Bytes()))); err != nil {
			return err
		}
	}
	if withProject {
		if f.project, err = f.must("project", f.send(u1, types.AcceleratorContract, znn, constants.ProjectCreationAmount,
			definition.ABIAccelerator.PackMethodPanic(definition.CreateProjectMethodName, "cell project", "a project", "https://zenon.network", unitsOf(10), unitsOf(100)))); err != nil {
			return err
		}
	}
	// bridge: orchestrator info and guardians, so that calls get past the "not initialised" refusals
	admin := g.User5
	f.send(admin, types.BridgeContract, znn, big.NewInt(0), definition.ABIBridge.PackMethodPanic(definition.SetOrchestratorInfoMethodName, uint64(6), uint32(3), uint32(15), uint32(10)))
	guardians := []types.Address{g.User1.Address, g.User2.Address, g.User3.Address, g.User4.Address, g.User5.Address}
	f.send(admin, types.BridgeContract, znn, big.NewInt(0), definition.ABIBridge.PackMethodPanic(definition.NominateGuardiansMethodName, guardians))
	if err := f.n.ProduceN(int(constants.MinAdministratorDelay) + 4); err != nil {
		return err
	}
	f.send(admin, types.BridgeContract, znn, big.NewInt(0), definition.ABIBridge.PackMethodPanic(definition.NominateGuardiansMethodName, guardians))
	f.send(g.Pillar4, types.PillarContract, qsr, unitsOf(150000), definition.ABIPillars.PackMethodPanic(definition.DepositQsrMethodName))
	f.send(u1, types.SentinelContract, qsr, unitsOf(50000), definition.ABISentinel.PackMethodPanic(definition.DepositQsrMethodName))
	if err := f.n.ProduceN(3); err != nil {
		return err
	}
	// some of the token in other hands, so that burns by "other" callers have something to burn
	f.send(u1, types.TokenContract, types.ZeroTokenStandard, big.NewInt(0), definition.ABIToken.PackMethodPanic(definition.MintMethodName, f.token, unitsOf(50), u2.Address))
	if err := f.n.ProduceN(2); err != nil {
		return err
	}
	f.w.ReceivePending(u2)
	f.w.ReceivePending(u1)
	if err := f.n.ProduceN(1); err != nil {
		return err
	}
	// liquidity: guardians and the token tuple (the fixture's two tokens share the rewards), each a two-step time challenge
	lg := []types.Address{g.User1.Address, g.User2.Address, g.User3.Address, g.User4.Address}
	nominate := definition.ABILiquidity.PackMethodPanic(definition.NominateGuardiansMethodName, lg)
	f.send(admin, types.LiquidityContract, znn, big.NewInt(0), nominate)
	if err := f.n.ProduceN(int(constants.MinAdministratorDelay) + 4); err != nil {
		return err
	}
	f.send(admin, types.LiquidityContract, znn, big.NewInt(0), nominate)
	if err := f.n.ProduceN(2); err != nil {
		return err
	}
	tuple := definition.ABILiquidity.PackMethodPanic(definition.SetTokenTupleMethodName, []string{f.token.String(), f.foreignToken.String()}, []uint32{5000, 5000}, []uint32{5000, 5000}, []*big.Int{big.NewInt(1000), big.NewInt(2000)})
	f.send(admin, types.LiquidityContract, types.ZeroTokenStandard, big.NewInt(0), tuple)
	if err := f.n.ProduceN(int(constants.MinSoftDelay) + 4); err != nil {
		return err
	}
	f.send(admin, types.LiquidityContract, types.ZeroTokenStandard, big.NewInt(0), tuple)
	if err := f.n.ProduceN(2); err != nil {
		return err
	}
	if !withBridge {
		return nil // the calls to the bridge and the liquidity contract above were refused: the contracts are not there in this regime
	}
	if li, err := definition.GetLiquidityInfo(f.n.Chain.GetFrontierMomentumStore().GetAccountStore(types.LiquidityContract).Storage()); err != nil || len(li.TokenTuples) != 2 {
		return fmt.Errorf("fixture: the liquidity token tuple is not set (%v)", err)
	}
	st := f.n.Chain.GetFrontierMomentumStore().GetAccountStore(types.BridgeContract).Storage()
	if si, err := definition.GetSecurityInfoVariable(st); err != nil || len(si.Guardians) < constants.MinGuardians {
		return fmt.Errorf("fixture: the bridge's guardians are not set (%v)", err)
	}
	if oi, err := definition.GetOrchestratorInfoVariable(st); err != nil || oi.WindowSize == 0 {
		return fmt.Errorf("fixture: the bridge's orchestrator info is not set (%v)", err)
	}
	return nil
}

// ---- concretisation --------------------------------------------------------------------------------

func pow2(e uint) *big.Int { return new(big.Int).Lsh(big.NewInt(1), e) }

func int256Class(c string) *big.Int {
	switch c {
	case "zero":
		return big.NewInt(0)
	case "one":
		return big.NewInt(1)
	case "p63":
		return pow2(63)
	case "p64":
		return pow2(64)
	case "p255m1":
		return new(big.Int).Sub(pow2(255), big.NewInt(1))
	case "p255":
		return pow2(255)
	}
	return new(big.Int).Sub(pow2(256), big.NewInt(1))
}

func sig65(n int) string {
	b := append(types.NewHash([]byte(fmt.Sprint("r", n))).Bytes(), types.NewHash([]byte(fmt.Sprint("s", n))).Bytes()...)
	return base64.StdEncoding.EncodeToString(append(b, 1))
}

func (f *cellFixture) stranger() types.Address {
	f.counter++
	a, _ := types.BytesToAddress(append([]byte{0}, types.NewHash([]byte(fmt.Sprintf("stranger-%d", f.counter))).Bytes()[:19]...))
	return a
}

// defaultArg: the value that makes the call meaningful in the prepared state.
func (f *cellFixture) defaultArg(c cellContract, m string, in abi.Argument, caller *wallet.KeyPair) interface{} {
	name := in.Name
	switch in.Type.String() {
	case "uint256":
		switch name {
		case "totalSupply":
			return unitsOf(100)
		case "maxSupply":
			return unitsOf(1000)
		case "znnFundsNeeded":
			return unitsOf(10)
		case "qsrFundsNeeded":
			return unitsOf(100)
		}
		return unitsOf(1)
	case "uint8":
		switch name {
		case "decimals":
			return uint8(8)
		case "keyMaxSize":
			return uint8(32)
		case "hashType", "vote":
			return uint8(0)
		}
		return uint8(10)
	case "uint32":
		return uint32(1)
	case "uint64":
		return uint64(1)
	case "int64":
		if name == "expirationTime" {
			return f.n.Frontier().Timestamp.Unix() + 300
		}
		if c.name == "liquidity" {
			return constants.StakeTimeMinSec
		}
		return constants.StakeTimeUnitSec
	case "bool":
		return name != "isUtility"
	case "string":
		f.counter++
		switch {
		case c.name == "pillar" && (m == "Register" || m == "RegisterLegacy"):
			return fmt.Sprintf("cell-pillar-%d", f.counter)
		case c.name == "pillar" && m == "Delegate":
			return g.Pillar1Name
		case c.name == "pillar" || (name == "name" && strings.HasPrefix(m, "Vote")):
			return g.Pillar4Name
		case name == "tokenSymbol":
			return "CELL"
		case name == "tokenDomain":
			return ""
		case name == "url":
			return "https://zenon.network"
		case name == "tokenName":
			return fmt.Sprintf("cell%d", f.counter)
		}
		return "cell"
	case "address":
		if name == "owner" {
			return caller.Address
		}
		return g.User3.Address
	case "tokenStandard":
		return f.token
	case "hash":
		switch c.name {
		case "plasma":
			return f.fusion
		case "stake":
			return f.stake
		case "htlc":
			return f.htlc
		case "accelerator":
			return f.project
		case "spork":
			return f.spork
		}
		return types.NewHash([]byte("some transaction"))
	case "bytes":
		if name == "preimage" {
			return f.preimage
		}
		return types.NewHash(f.preimage).Bytes()
	case "address[]":
		return []types.Address{g.User2.Address, g.User3.Address, g.User4.Address, g.User5.Address, g.User6.Address}
	case "string[]":
		return []string{f.token.String()}
	case "uint32[]":
		return []uint32{10000}
	case "uint256[]":
		return []*big.Int{unitsOf(1)}
	}
	return nil
}

func (f *cellFixture) classArg(class string, in abi.Argument, dflt interface{}, c cellContract, caller *wallet.KeyPair) (interface{}, bool) {
	switch in.Type.String() {
	case "uint256":
		return int256Class(class), true
	case "uint8":
		return map[string]uint8{"zero": 0, "mid": 101, "max": 255}[class], true
	case "uint32":
		return map[string]uint32{"zero": 0, "max": ^uint32(0)}[class], true
	case "uint64":
		return map[string]uint64{"zero": 0, "max": ^uint64(0)}[class], true
	case "int64":
		return map[string]int64{"zero": 0, "one": 1, "minusOne": -1, "min": -1 << 63, "max": 1<<63 - 1}[class], true
	case "bool":
		return !dflt.(bool), true
	case "string":
		switch class {
		case "empty":
			return "", true
		case "long":
			return strings.Repeat("x", 300), true
		case "nonascii":
			return "pillar-é-名\x00", true
		case "foreign":
			if c.name == "pillar" {
				return g.Pillar2Name, true
			}
			return "celltoken", true
		case "b64of33":
			return base64.StdEncoding.EncodeToString(append([]byte{2}, bytes.Repeat([]byte{0xff}, 32)...)), true
		case "b64of65":
			f.counter++
			return sig65(f.counter), true
		}
	case "address":
		switch class {
		case "zero":
			return types.ZeroAddress, true
		case "self":
			return caller.Address, true
		case "contract":
			return types.TokenContract, true
		case "stranger":
			return f.stranger(), true
		}
	case "tokenStandard":
		switch class {
		case "zero":
			return types.ZeroTokenStandard, true
		case "znn":
			return types.ZnnTokenStandard, true
		case "qsr":
			return types.QsrTokenStandard, true
		case "unknown":
			return types.NewZenonTokenStandard(types.NewHash([]byte("no such token")).Bytes()), true
		case "foreign":
			return f.foreignToken, true
		}
	case "hash":
		switch class {
		case "zero":
			return types.ZeroHash, true
		case "unknown":
			return types.NewHash([]byte("no such entry")), true
		case "foreign":
			switch c.name {
			case "plasma":
				return f.foreignFusion, true
			case "stake":
				return f.foreignStake, true
			case "htlc":
				return f.foreignHtlc, true
			}
			return f.foreignFusion, true
		}
	case "bytes":
		switch class {
		case "empty":
			return []byte{}, true
		case "short":
			return []byte{1}, true
		case "long":
			return []byte(strings.Repeat("y", 300)), true
		}
	case "address[]":
		switch class {
		case "empty":
			return []types.Address{}, true
		case "single":
			return []types.Address{g.User2.Address}, true
		case "dup":
			return []types.Address{g.User2.Address, g.User2.Address, g.User3.Address, g.User3.Address, g.User4.Address}, true
		}
	case "string[]":
		switch class {
		case "empty":
			return []string{}, true
		case "single":
			return []string{types.ZnnTokenStandard.String()}, true
		case "dup":
			return []string{f.token.String(), f.token.String()}, true
		}
	case "uint32[]":
		switch class {
		case "empty":
			return []uint32{}, true
		case "single":
			return []uint32{1}, true
		case "dup":
			return []uint32{5000, 5000}, true
		}
	case "uint256[]":
		switch class {
		case "empty":
			return []*big.Int{}, true
		case "single":
			return []*big.Int{big.NewInt(0)}, true
		case "dup":
			return []*big.Int{unitsOf(1), unitsOf(1)}, true
		}
	}
	return nil, false
}

// defaultCall: who calls, with what amount of which token.
func (f *cellFixture) defaultCall(c cellContract, m string) (*wallet.KeyPair, types.ZenonTokenStandard, *big.Int) {
	znn, qsr, none := types.ZnnTokenStandard, types.QsrTokenStandard, types.ZeroTokenStandard
	caller := g.User1
	switch c.name {
	case "bridge":
		switch m {
		case "WrapToken", "UnwrapToken", "Redeem", "UpdateWrapRequest", "ChangeTssECDSAPubKey", "Halt":
		default:
			caller = g.User5 // the administrator set up by the fixture
		}
	case "spork":
		caller = g.Spork
	case "pillar":
		if m == "Register" || m == "RegisterLegacy" || m == "Revoke" || m == "UpdatePillar" {
			caller = g.Pillar4
		}
	}
	switch c.name + "." + m {
	case "token.IssueToken":
		return caller, znn, constants.TokenIssueAmount
	case "token.Burn":
		return caller, f.token, unitsOf(1)
	case "plasma.Fuse":
		return caller, qsr, unitsOf(10)
	case "stake.Stake":
		return caller, znn, unitsOf(1)
	case "pillar.DepositQsr", "sentinel.DepositQsr":
		return caller, qsr, unitsOf(100)
	case "pillar.Register", "pillar.RegisterLegacy":
		return caller, znn, constants.PillarStakeAmount
	case "sentinel.Register":
		return caller, znn, constants.SentinelZnnRegisterAmount
	case "htlc.Create":
		return caller, znn, unitsOf(1)
	case "accelerator.CreateProject":
		return caller, znn, constants.ProjectCreationAmount
	case "accelerator.AddPhase", "accelerator.UpdatePhase":
		return caller, none, big.NewInt(0)
	case "accelerator.Donate", "liquidity.Donate":
		return caller, znn, unitsOf(1)
	case "liquidity.LiquidityStake", "bridge.WrapToken":
		return caller, f.token, unitsOf(1)
	}
	return caller, none, big.NewInt(0)
}

// build concretises a cell; ok=false when the cell has no concrete call (the ABI encoder refuses the value).
func (f *cellFixture) build(cc cellContract, c cell) (caller *wallet.KeyPair, tok types.ZenonTokenStandard, amt *big.Int, data []byte, ok bool) {
	method := cc.abi.Methods[c.M]
	caller, tok, amt = f.defaultCall(cc, c.M)
	dev := map[int]string{}
	for i, d := range c.Dims {
		dev[d] = c.Classes[i]
	}
	if _, other := dev[-2]; other {
		if caller == g.User2 {
			caller = g.User3
		} else {
			caller = g.User2
		}
	}
	if t, has := dev[-1]; has {
		switch t {
		case "znn":
			tok = types.ZnnTokenStandard
		case "qsr":
			tok = types.QsrTokenStandard
		case "own":
			tok = f.token
		}
	}
	if a, has := dev[0]; has {
		switch a {
		case "zero":
			amt = big.NewInt(0)
		case "one":
			amt = big.NewInt(1)
		case "more":
			amt = new(big.Int).Add(amt, big.NewInt(1))
		case "huge":
			if tok == types.ZeroTokenStandard {
				tok = types.ZnnTokenStandard
			}
			bal, _ := f.n.Chain.GetFrontierAccountStore(caller.Address).GetBalance(tok)
			if bal == nil {
				bal = big.NewInt(0)
			}
			amt = new(big.Int).Set(bal)
		}
		if amt.Sign() > 0 && tok == types.ZeroTokenStandard {
			tok = types.ZnnTokenStandard
		}
	}
	args := make([]interface{}, len(method.Inputs))
	tied := ""
	tiedType := ""
	for i, in := range method.Inputs {
		args[i] = f.defaultArg(cc, c.M, in, caller)
		if cl, has := dev[i+1]; has {
			v, good := f.classArg(cl, in, args[i], cc, caller)
			if !good {
				return nil, tok, nil, nil, false
			}
			args[i] = v
			if c.Tie && tied == "" {
				switch in.Type.String() {
				case "uint256", "uint8", "uint32", "uint64", "int64":
					tied, tiedType = cl, in.Type.String()
				}
			}
		}
	}
	if c.Tie && tied != "" {
		for i, in := range method.Inputs {
			if in.Type.String() == tiedType {
				if v, good := f.classArg(tied, in, args[i], cc, caller); good {
					args[i] = v
				}
			}
		}
	}
	var err error
	func() {
		defer func() {
			if r := recover(); r != nil {
				err = fmt.Errorf("%v", r)
			}
		}()
		data, err = cc.abi.PackMethod(c.M, args...)
	}()
	if err != nil {
		return nil, tok, nil, nil, false
	}
	return caller, tok, amt, data, true
}

// ---- the child -------------------------------------------------------------------------------------

type cellsArg struct {
	Cells  []cell
	Seed   int64
	Batch  int
	Regime string // see cellFixture.regime
}

type cellsResult struct {
	Run      ledgerRun
	Findings [][2]string
	Refused  map[string]int
	Accepted map[string]int
	Unbuilt  int
	Stats    string
	Reasons  map[string]int
}

func init() {
	core.RegisterChild("call-cells", func(arg json.RawMessage) (interface{}, error) {
		var a cellsArg
		if err := json.Unmarshal(arg, &a); err != nil {
			return nil, err
		}
		node.Quiet()
		return cellsChild(a)
	})
}

func cellsChild(a cellsArg) (*cellsResult, error) {
	walk.LabConstants()
	verifier.ReceiverMismatchEnforcementHeight = 1
	res := &cellsResult{Refused: map[string]int{}, Accepted: map[string]int{}, Reasons: map[string]int{}}
	cap := ledger.StartCapture()
	defer cap.Stop()
	p, err := node.New(fmt.Sprintf("cells-%d", a.Batch), node.Options{Producer: true})
	if err != nil {
		return nil, err
	}
	defer p.Stop()
	f := &cellFixture{n: p, w: walk.New(p, a.Seed), reasons: res.Reasons, regime: a.Regime}
	if err := f.prepare(); err != nil {
		return nil, err
	}
	byName := map[string]cellContract{}
	for _, c := range cellContracts() {
		byName[c.name] = c
	}
	perMomentum := 24
	for i, c := range a.Cells {
		cc := byName[c.C]
		caller, tok, amt, data, ok := f.build(cc, c)
		if !ok {
			res.Unbuilt++
		} else if b := f.send(caller, cc.addr, tok, amt, data); b == nil {
			res.Refused[c.C]++
		} else {
			res.Accepted[c.C]++
		}
		if i%perMomentum == perMomentum-1 || i == len(a.Cells)-1 {
			if err := p.Produce(0); err != nil {
				res.Findings = append(res.Findings, [2]string{"producer-stops", fmt.Sprintf("the producing node cannot produce a momentum after cell %s: %v (problems %v)", c.String(), err, p.Problems)})
				break
			}
		}
	}
	drained, err := f.w.Drain(80)
	if err != nil {
		res.Findings = append(res.Findings, [2]string{"producer-stops", fmt.Sprintf("the producing node cannot produce a momentum while draining: %v (problems %v)", err, p.Problems)})
	} else if !drained {
		var stuck []string
		ms := p.Chain.GetFrontierMomentumStore()
		for _, c := range types.EmbeddedContracts {
			if h := p.Chain.GetFrontierAccountStore(c).SequencerFront(ms.GetAccountMailbox(c)); h != nil {
				stuck = append(stuck, fmt.Sprintf("%v waits at %v", c, h.Hash))
			}
		}
		res.Findings = append(res.Findings, [2]string{"inbox-not-drained", "after 80 further momentums a contract inbox still holds a confirmed call: " + strings.Join(stuck, "; ")})
	}
	for _, pb := range p.Problems {
		res.Findings = append(res.Findings, [2]string{"producer-problem", "producing pillar reported: " + pb})
	}
	ids := cap.ChainIDs()
	if len(ids) != 1 {
		return nil, fmt.Errorf("expected one chain in capture, got %v", ids)
	}
	pr := ledger.NewProjector()
	pr.Observer = ledger.StandardObserver(walk.EpochMomentums)
	if err := cap.Project(ids[0], pr); err != nil {
		return nil, err
	}
	name := fmt.Sprintf("call cells batch %d (%d cells) seed=%d enforced=true", a.Batch, len(a.Cells), a.Seed)
	res.Run = ledgerRun{Name: name, Events: pr.Events, Note: pr.Note}
	res.Stats = fmt.Sprintf("%s: %d momentums, %d blocks", name, pr.Momentums, pr.Blocks)
	return res, nil
}

// cellRuns generates the cells, runs them in `batches` child processes, reports findings under C09 and returns the traces.
func cellRuns(run *core.Run, batches int) []ledgerRun {
	maxDev, maxDeep, deep := 1, 2, `"token"`
	if run.Thorough() {
		maxDev, maxDeep, deep = 1, 2, `"token", "plasma", "stake", "htlc", "pillar", "sentinel", "accelerator"`
	}
	cells, nm := generateCells(maxDev, maxDeep, deep)
	if len(cells) == 0 {
		core.Fatal("CallCells produced no cell")
	}
	args := make([]cellsArg, batches)
	for i, c := range cells {
		// the seed rotates which batch (and so which neighbours and which moment) a cell gets
		b := (i + int(run.Seed)) % batches
		args[b].Cells = append(args[b].Cells, c)
	}
	// "under every spork regime": three more batches replay a sample of the cells with no spork, with the accelerator spork only,
	// and with the bridge-and-liquidity spork but without the HTLC one (calls to contracts that are not there yet are refused
	// when they are sent; the others meet the older method tables)
	for ri, regime := range []string{"none", "acc", "bridge"} {
		a := cellsArg{Regime: regime}
		stride := 3
		if run.Thorough() {
			stride = 1
		}
		for i := (int(run.Seed) + ri) % stride; i < len(cells); i += stride {
			a.Cells = append(a.Cells, cells[i])
		}
		args = append(args, a)
	}
	batches = len(args)
	outs := make([]cellsResult, batches)
	crashes := make([]*core.Crash, batches)
	errs := make([]error, batches)
	var wg sync.WaitGroup
	sem := make(chan struct{}, 12)
	for i := range args {
		args[i].Seed, args[i].Batch = run.Seed, i
		wg.Add(1)
		go func(i int) {
			defer wg.Done()
			sem <- struct{}{}
			defer func() { <-sem }()
			crashes[i], errs[i] = core.Child("call-cells", args[i], &outs[i], 30*time.Minute)
		}(i)
	}
	wg.Wait()
	var runs []ledgerRun
	refused, accepted, reasons := map[string]int{}, map[string]int{}, map[string]int{}
	unbuilt := 0
	var stats []string
	for i := range args {
		if errs[i] != nil {
			core.Fatal("%v", errs[i])
		}
		if c := crashes[i]; c != nil {
			run.ReportFor("C09", "C09:"+c.Key(), fmt.Sprintf("the node process went down while executing call cells (batch %d of %d): %s", i, batches, c.String()),
				map[string]interface{}{"kind": "call-cells", "batch": i, "batches": batches, "stderr_tail": c.Text})
			continue
		}
		for _, fd := range outs[i].Findings {
			run.ReportFor("C09", "C09:"+fd[0], fd[1]+fmt.Sprintf(" (call cells batch %d of %d)", i, batches), map[string]interface{}{"kind": "call-cells", "batch": i, "batches": batches})
		}
		for k, v := range outs[i].Refused {
			refused[k] += v
		}
		for k, v := range outs[i].Accepted {
			accepted[k] += v
		}
		unbuilt += outs[i].Unbuilt
		for k, v := range outs[i].Reasons {
			reasons[k] += v
		}
		runs = append(runs, outs[i].Run)
		stats = append(stats, outs[i].Stats)
	}
	run.Set("call_cells", fmt.Sprintf("%d cells over %d methods of %d contracts (CallCells.tla: MaxDev=%d, MaxDevDeep=%d for %s), all of them with every spork in force and a sample of them (a third in the quick tier, all in the thorough one) under three older regimes - no spork, accelerator only, bridge-and-liquidity without HTLC; %d not encodable", len(cells), nm, len(cellContracts()), maxDev, maxDeep, deep, unbuilt))
	run.Set("call_cells_accepted_by_contract", accepted)
	run.Set("call_cells_refused_at_send_by_contract", refused)
	run.Set("call_cells_batches", stats)
	run.Set("call_cells_refusal_reasons", reasons)
	return runs
}
