package checks

import "verif/lab/core"

func c14Race(run *core.Run) {}
