package checks

import (
	"encoding/json"
	"fmt"
	"math/big"
	"os"
	"os/exec"
	"strings"
	"time"

	g "github.com/zenon-network/go-zenon/chain/genesis/mock"
	"github.com/zenon-network/go-zenon/chain/nom"
	"github.com/zenon-network/go-zenon/common/types"
	"github.com/zenon-network/go-zenon/wallet"

	"verif/lab/core"
	"verif/lab/node"
	"verif/lab/walk"
)

const insertRaceCfg = `CONSTANTS
  FixParent = %s
  WithHist = %s
INIT Init
NEXT Next
%s
CHECK_DEADLOCK FALSE
`

type raceStep struct {
	A        string `json:"a"`
	R        string `json:"r"`
	Frontier string `json:"frontier"`
}
type raceBehaviour struct {
	Steps []raceStep `json:"steps"`
}

// c14Race: the producer/sync interleavings of InsertRace.tla on a real node, then a race-detector stress run.
func c14Race(run *core.Run) {
	walk.LabConstants()
	res, err := core.RunTLC(core.TLCOpts{Module: "InsertRace", CfgText: fmt.Sprintf(insertRaceCfg, "TRUE", "FALSE", "INVARIANTS StoreNotCorrupted"), Timeout: 5 * time.Minute})
	if err != nil || res.Violated != "" || res.Err != "" {
		core.Fatal("InsertRace: %v %s %s", err, res.Violated, res.Err)
	}
	run.States += res.Distinct
	run.Transitions += res.Generated
	nc, err := core.RunTLC(core.TLCOpts{Module: "InsertRace", CfgText: fmt.Sprintf(insertRaceCfg, "FALSE", "FALSE", "INVARIANTS StoreNotCorrupted"), Timeout: 5 * time.Minute})
	if err != nil || nc.Violated != "StoreNotCorrupted" {
		core.Fatal("negative control (own momentum inserted on a stale frontier, F1) not refuted")
	}
	var behaviours []*raceBehaviour
	_, err = core.RunTLC(core.TLCOpts{Module: "InsertRace", CfgText: fmt.Sprintf(insertRaceCfg, "TRUE", "TRUE", "VIEW GenView\nACTION_CONSTRAINT EmitEdge"), Workers: 1, Timeout: 5 * time.Minute,
		OnLine: func(line string) {
			if js, ok := core.ParseB(line, "B"); ok {
				var b raceBehaviour
				if json.Unmarshal([]byte(js), &b) == nil {
					behaviours = append(behaviours, &b)
				}
			}
		}})
	if err != nil {
		core.Fatal("InsertRace generation: %v", err)
	}
	for _, b := range behaviours {
		if err := insertRaceReplay(run, b); err != nil {
			core.Fatal("insert race replay: %v", err)
		}
		run.Traces++
	}
	run.Set("insert_race_interleavings_replayed", len(behaviours))

	// race detector on a real node: four readers (stores, historical views, pool listings, RPC) against a writer doing gossip,
	// momentum-by-momentum sync, a reorganisation and explicit rollbacks
	dir, err := os.MkdirTemp(core.Scratch(), "race-")
	if err != nil {
		core.Fatal("%v", err)
	}
	defer os.RemoveAll(dir)
	bin := dir + "/racecheck"
	build := exec.Command("go", "build", "-race", "-tags", "verif", "-o", bin, "./cmd/racecheck")
	build.Dir = core.VerifDir + "/lab"
	build.Env = append(os.Environ(), "GOFLAGS=-mod=mod", "GOPROXY=off", "GOSUMDB=off", "GOTOOLCHAIN=local")
	if out, err := build.CombinedOutput(); err != nil {
		core.Fatal("building the race-detector binary: %v %s", err, tail(string(out), 600))
	}
	secs := 8
	if run.Thorough() {
		secs = 120
	}
	cmd := exec.Command(bin, fmt.Sprint(secs), fmt.Sprint(run.Seed))
	out, err := cmd.CombinedOutput()
	s := string(out)
	switch {
	case strings.Contains(s, "DATA RACE"):
		i := strings.Index(s, "DATA RACE")
		run.Report("C14:data-race", "the race detector reports a data race between readers and the inserting goroutine: "+firstFrames(s[i:]), map[string]interface{}{"kind": "race-stress", "seconds": secs})
	case strings.Contains(s, "READER-PANIC"):
		run.Report("C14:reader-panics", "a reader panicked while the writer was inserting: "+tail(s, 400), nil)
	case strings.Contains(s, "WRITER-ERROR"):
		// the writer only performs honest operations (gossip, delivery of honestly produced momentums, adoption of a longer honest
		// branch, rollback): a refusal is the node's pool or store being inconsistent after what went before
		i := strings.Index(s, "WRITER-ERROR")
		run.Report("C14:honest-insert-or-rollback-refused-in-the-stress-cycle", "the node refuses an honest operation of the stress cycle (gossip / sync / reorganisation / rollback, repeated): "+tail(s[i:], 300), map[string]interface{}{"kind": "race-stress", "seconds": secs})
	case strings.Contains(s, "RACE-STRESS-OK"):
		run.Set("race_stress", strings.TrimSpace(s[strings.Index(s, "RACE-STRESS-OK"):]))
		run.Traces++
	default:
		core.Fatal("race stress run failed (%v): %s", err, tail(s, 600))
	}
}

func firstFrames(s string) string {
	lines := strings.Split(s, "\n")
	var keep []string
	for _, l := range lines {
		l = strings.TrimSpace(l)
		if strings.Contains(l, "go-zenon/") && !strings.HasPrefix(l, "/") {
			keep = append(keep, l)
		}
		if len(keep) >= 6 {
			break
		}
	}
	return strings.Join(keep, " <- ")
}

func insertRaceReplay(run *core.Run, b *raceBehaviour) error {
	node.Clock.Set(time.Unix(1000000000, 0))
	rep := map[string]interface{}{"kind": "insert-race", "behaviour": b}
	v, err := node.New("race-victim", node.Options{Producer: true})
	if err != nil {
		return err
	}
	defer v.Stop()
	if err := v.ProduceN(3); err != nil {
		return err
	}
	base, err := v.Detailed(2, v.Height())
	if err != nil {
		return err
	}
	// the competitor: same height, same slot, other content, produced by a second node
	q, err := node.New("race-other", node.Options{Producer: true})
	if err != nil {
		return err
	}
	if _, err := q.InsertChain(wireAll(base)); err != nil {
		q.Stop()
		return err
	}
	if _, err := q.Submit(&nom.AccountBlock{BlockType: nom.BlockTypeUserSend, Address: g.User3.Address, ToAddress: g.User4.Address, TokenStandard: types.ZnnTokenStandard, Amount: big.NewInt(5)}, g.User3); err != nil {
		q.Stop()
		return err
	}
	if err := q.Produce(0); err != nil {
		q.Stop()
		return err
	}
	comp, err := q.Detailed(q.Height(), q.Height())
	compDump := q.Dump()
	q.Stop()
	if err != nil {
		return err
	}
	// the victim's own content
	if _, err := v.Submit(&nom.AccountBlock{BlockType: nom.BlockTypeUserSend, Address: g.User1.Address, ToAddress: g.User2.Address, TokenStandard: types.ZnnTokenStandard, Amount: big.NewInt(9)}, g.User1); err != nil {
		return err
	}
	baseDump := v.Dump()
	baseFrontier := v.Frontier().Hash
	var own *nom.MomentumTransaction
	for si, s := range b.Steps {
		got := ""
		switch s.A {
		case "PGenerate":
			// what pillar.worker.generateMomentum does, with the same public calls
			insert := v.Chain.AcquireInsert("lab momentum-generator")
			prev := v.Frontier()
			t := prev.Timestamp.Add(10 * time.Second)
			node.Clock.Set(t)
			producer, err := v.Cons.GetMomentumProducer(t)
			if err != nil {
				insert.Unlock()
				return err
			}
			var key *wallet.KeyPair
			for _, k := range g.PillarKeys {
				if k.Address == *producer {
					key = k
				}
			}
			blocks := v.Chain.GetNewMomentumContent()
			m := &nom.Momentum{ChainIdentifier: v.Chain.ChainIdentifier(), PreviousHash: prev.Hash, Height: prev.Height + 1, TimestampUnix: uint64(t.Unix()), Content: nom.NewMomentumContent(blocks), Version: 1}
			m.EnsureCache()
			own, err = v.Sup.GenerateMomentum(&nom.DetailedMomentum{Momentum: m, AccountBlocks: blocks}, key.Signer)
			insert.Unlock()
			if err != nil {
				return fmt.Errorf("generate own momentum: %v", err)
			}
			got = "generated"
		case "PInsert":
			insert := v.Chain.AcquireInsert("lab create-momentum")
			err := v.Chain.AddMomentumTransaction(insert, own)
			insert.Unlock()
			got = "inserted"
			if err != nil {
				got = "refused"
			}
		case "SInsert":
			_, err := v.InsertChain(wireAll(comp))
			got = classifySyncErr(err)
			if got == "ok" {
				got = "adopted"
			}
		}
		if got != s.R {
			run.Report(fmt.Sprintf("C14:insert-race-%s-%s-specified-%s", s.A, got, s.R), fmt.Sprintf("step %d %s: node says %s, specification says %s (interleaving %s)", si+1, s.A, got, s.R, core.JSON(b.Steps)), rep)
			return nil
		}
		// the store holds the frontier's momentum and nothing else
		var want string
		fr := v.Frontier().Hash
		switch s.Frontier {
		case "base":
			want = baseDump
			if fr != baseFrontier {
				want = "?"
			}
		case "competitor":
			want = compDump
			if fr != comp[0].Momentum.Hash {
				want = "?"
			}
		case "own":
			if own == nil || fr != own.Momentum.Hash {
				want = "?"
			}
		}
		if want == "?" {
			run.Report("C14:insert-race-frontier", fmt.Sprintf("after step %d the frontier is not the %s momentum (interleaving %s)", si+1, s.Frontier, core.JSON(b.Steps)), rep)
			return nil
		}
		if want != "" && v.Dump() != want {
			run.Report("C14:insert-race-store-corrupted", fmt.Sprintf("after step %d (%s) the store differs from that of a node whose frontier is the %s momentum: %s", si+1, s.A, s.Frontier, firstDiff(want, v.Dump())), rep)
			return nil
		}
	}
	return nil
}
