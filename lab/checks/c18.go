package checks

import (
	"bytes"
	"encoding/json"
	"fmt"
	"io"
	"math/big"
	"math/rand"
	"net"
	"net/http"
	"net/http/httptest"
	"os"
	"os/exec"
	"strings"
	"time"

	g "github.com/zenon-network/go-zenon/chain/genesis/mock"
	"github.com/zenon-network/go-zenon/chain/nom"
	"github.com/zenon-network/go-zenon/common/types"
	"github.com/zenon-network/go-zenon/rpc/api"
	"github.com/zenon-network/go-zenon/rpc/api/embedded"
	rpcserver "github.com/zenon-network/go-zenon/rpc/server"
	"github.com/zenon-network/go-zenon/wallet"

	"verif/lab/core"
	"verif/lab/node"
	"verif/lab/walk"
)

const rpcCfg = `CONSTANTS
  MaxLen = 5
  W = 8
  Wrap = %s
  WithHist = %s
  OffsetIntoStored = %s
INIT Init
NEXT Next
INVARIANTS AscPagesPartition DescPagesPartition PageBounded BeyondEndEmpty FilteredPagesPartition Emit
CHECK_DEADLOCK FALSE
`

type rpcCell struct {
	N    int   `json:"n"`
	Idx  int   `json:"idx"`
	Size int   `json:"size"`
	Asc  []int `json:"asc"`
	Desc []int `json:"desc"`
	ByH  []int `json:"byh"`
}

func intsEq(a, b []int) bool {
	if len(a) != len(b) {
		return false
	}
	for i := range a {
		if a[i] != b[i] {
			return false
		}
	}
	return true
}

// reference functions mirroring the operators of Rpc.tla for arguments beyond TLC's bound (64-bit arithmetic)
func refAsc(n, idx, size uint64) []int {
	start := idx * size // callers keep idx, size < 2^32: no overflow in 64 bits
	var out []int
	for k := start; k < start+size && k < n; k++ {
		out = append(out, int(k)+1)
	}
	return out
}
func refDesc(n, idx, size uint64) []int {
	var out []int
	hi := int64(n) - int64(idx*size)
	lo := int64(n) - int64((idx+1)*size) + 1
	if lo < 1 {
		lo = 1
	}
	for k := hi; k >= lo && k >= 1; k-- {
		out = append(out, int(k))
	}
	return out
}

// C18 — RPC answers match the ledger, are bounded; the server survives bad input.
func C18(run *core.Run) {
	if os.Getenv("VERIF_CHILD") == "rpc-server" {
		c18ServerChild()
		return
	}
	run.Assume = []string{
		"paging operators are checked exhaustively by TLC for list lengths 0..5 and all indexes / sizes of a 3-bit word; every cell is replayed on real account chains and pool lists of exactly those lengths; 32-bit boundary values are added with a 64-bit reference of the same operators",
		"hostile JSON-RPC requests are sampled inside classes and sent to a real rpc/server in a child process",
	}
	walk.LabConstants()
	res, err := core.RunTLC(core.TLCOpts{Module: "Rpc", CfgText: fmt.Sprintf(rpcCfg, "FALSE", "FALSE", "FALSE"), Timeout: 5 * time.Minute})
	if err != nil || res.Violated != "" || res.Err != "" {
		core.Fatal("Rpc: %v %s %s", err, res.Violated, res.Err)
	}
	run.States += res.Distinct
	run.Transitions += res.Generated
	nc, err := core.RunTLC(core.TLCOpts{Module: "Rpc", CfgText: fmt.Sprintf(rpcCfg, "TRUE", "FALSE", "FALSE"), Timeout: 5 * time.Minute})
	if err != nil || nc.Violated == "" {
		core.Fatal("negative control (index*size computed in a wrapping word, F14) not refuted")
	}
	nh, err := core.RunTLC(core.TLCOpts{Module: "Rpc", CfgText: fmt.Sprintf(rpcCfg, "FALSE", "FALSE", "TRUE"), Timeout: 5 * time.Minute})
	if err != nil || nh.Violated != "FilteredPagesPartition" {
		core.Fatal("negative control (page range of the listed entries cut out of the stored list) not refuted: %v %s", err, nh.Violated)
	}
	run.Set("negative_controls", []string{"page start computed in a wrapping word (code as found, F14) -> TLC refutes " + nc.Violated,
		"a list with holes: page range computed on the listed entries, cut out of the stored ones -> TLC refutes " + nh.Violated})
	var cells []rpcCell
	_, err = core.RunTLC(core.TLCOpts{Module: "Rpc", CfgText: fmt.Sprintf(rpcCfg, "FALSE", "TRUE", "FALSE"), Workers: 1, Timeout: 5 * time.Minute,
		OnLine: func(line string) {
			if js, ok := core.ParseB(line, "B"); ok {
				var c rpcCell
				if json.Unmarshal([]byte(js), &c) == nil {
					cells = append(cells, c)
				}
			}
		}})
	if err != nil {
		core.Fatal("Rpc cells: %v", err)
	}
	node.Clock.Set(time.Unix(1000000000, 0))
	p, err := node.New("rpc", node.Options{Producer: true})
	if err != nil {
		core.Fatal("%v", err)
	}
	defer p.Stop()
	// a history, so that momentum lists and embedded lists are not trivial
	w := walk.New(p, run.Seed+3)
	if err := w.Run(40); err != nil {
		core.Fatal("rpc walk: %v", err)
	}
	// account chains of length 0..5: fresh accounts that receive nothing and send n zero-amount blocks need plasma; use funded mock keys instead:
	// chain length of a key = its current height; make keys with exactly the lengths needed out of fresh derived accounts fused by User1
	chainAcct := map[int]*wallet.KeyPair{}
	for n := 1; n <= 5; n++ {
		k, _ := wallet.DeriveWithIndex(uint32(900+n), []byte("0123456789abcdef0123456789abcdef"))
		chainAcct[n] = k
		if _, err := p.Submit(&nom.AccountBlock{BlockType: nom.BlockTypeUserSend, Address: g.User1.Address, ToAddress: types.PlasmaContract, TokenStandard: types.QsrTokenStandard,
			Amount: big.NewInt(100 * 100000000), Data: fuseData(k.Address)}, g.User1); err != nil {
			core.Fatal("fuse for rpc account: %v", err)
		}
	}
	poolAcct := map[int]*wallet.KeyPair{}
	for n := 1; n <= 5; n++ {
		k, _ := wallet.DeriveWithIndex(uint32(950+n), []byte("0123456789abcdef0123456789abcdef"))
		poolAcct[n] = k
		if _, err := p.Submit(&nom.AccountBlock{BlockType: nom.BlockTypeUserSend, Address: g.User1.Address, ToAddress: types.PlasmaContract, TokenStandard: types.QsrTokenStandard,
			Amount: big.NewInt(100 * 100000000), Data: fuseData(k.Address)}, g.User1); err != nil {
			core.Fatal("fuse for rpc account: %v", err)
		}
	}
	if err := p.ProduceN(4); err != nil {
		core.Fatal("%v", err)
	}
	for n := 1; n <= 5; n++ {
		for i := 0; i < n; i++ {
			if _, err := p.Submit(&nom.AccountBlock{BlockType: nom.BlockTypeUserSend, Address: chainAcct[n].Address, ToAddress: g.User2.Address, TokenStandard: types.ZnnTokenStandard, Amount: big.NewInt(0)}, chainAcct[n]); err != nil {
				core.Fatal("rpc chain account %d block %d: %v", n, i, err)
			}
		}
	}
	if err := p.ProduceN(2); err != nil {
		core.Fatal("%v", err)
	}
	for n := 1; n <= 5; n++ {
		for i := 0; i < n; i++ {
			if _, err := p.Submit(&nom.AccountBlock{BlockType: nom.BlockTypeUserSend, Address: poolAcct[n].Address, ToAddress: g.User2.Address, TokenStandard: types.ZnnTokenStandard, Amount: big.NewInt(0)}, poolAcct[n]); err != nil {
				core.Fatal("rpc pool account %d block %d: %v", n, i, err)
			}
		}
	}
	unknown, _ := wallet.DeriveWithIndex(999, []byte("0123456789abcdef0123456789abcdef"))
	la := api.NewLedgerApi(node.Z{N: p})
	heights := func(l *api.AccountBlockList, err error) ([]int, int, error) {
		if err != nil || l == nil {
			return nil, 0, err
		}
		var out []int
		for _, b := range l.List {
			out = append(out, int(b.Height))
		}
		return out, l.Count, nil
	}
	addrFor := func(m map[int]*wallet.KeyPair, n int) types.Address {
		if n == 0 {
			return unknown.Address
		}
		return m[n].Address
	}
	checked := 0
	for _, c := range cells {
		rep := map[string]interface{}{"kind": "rpc-cell", "cell": c}
		// Desc: account blocks by page
		got, count, err := heights(la.GetAccountBlocksByPage(addrFor(chainAcct, c.N), uint32(c.Idx), uint32(c.Size)))
		if err != nil || !intsEq(got, c.Desc) || count != c.N {
			run.Report("C18:getAccountBlocksByPage", fmt.Sprintf("chain of %d blocks, page %d size %d: got heights %v count %d (%v), specification says %v count %d", c.N, c.Idx, c.Size, got, count, err, c.Desc, c.N), rep)
		}
		// ByHeight (idx plays the height, size the count)
		got, count, err = heights(la.GetAccountBlocksByHeight(addrFor(chainAcct, c.N), uint64(c.Idx), uint64(c.Size)))
		if c.Idx == 0 {
			if err == nil {
				run.Report("C18:getAccountBlocksByHeight-height-0", "height 0 is answered without an error", rep)
			}
		} else if err != nil || !intsEq(got, c.ByH) || count != c.N {
			run.Report("C18:getAccountBlocksByHeight", fmt.Sprintf("chain of %d blocks, height %d count %d: got heights %v count %d (%v), specification says %v", c.N, c.Idx, c.Size, got, count, err, c.ByH), rep)
		}
		// Asc: unconfirmed blocks
		got, count, err = heights(la.GetUnconfirmedBlocksByAddress(addrFor(poolAcct, c.N), uint32(c.Idx), uint32(c.Size)))
		if err != nil || !intsEq(got, c.Asc) || count != c.N {
			run.Report("C18:getUnconfirmedBlocksByAddress", fmt.Sprintf("pool of %d blocks, page %d size %d: got positions %v count %d (%v), specification says %v", c.N, c.Idx, c.Size, got, count, err, c.Asc), rep)
		}
		checked += 3
	}
	run.Traces += int64(checked)
	run.Set("paging_cells", fmt.Sprintf("%d cells (length x index x size) x 3 queries replayed on real account chains and pool lists", len(cells)))
	if len(cells) > 100 {
		run.AddSample(cells[100])
	}
	// 32-bit boundary classes and momentum lists, against the 64-bit reference of the same operators
	r := rand.New(rand.NewSource(run.Seed))
	bigIdx := []uint64{1 << 31, 1<<31 + 1, 1<<32 - 1, 1<<32 - 2, 1 << 30, 0x55555556, 0x80000001, 1431655766}
	sizes := []uint64{1, 2, 3, 4, 5, 7, 1024}
	top := uint64(p.Height())
	extra := 0
	for _, idx := range bigIdx {
		for _, size := range sizes {
			n := uint64(5)
			got, _, err := heights(la.GetUnconfirmedBlocksByAddress(poolAcct[5].Address, uint32(idx), uint32(size)))
			if want := refAsc(n, idx, size); err != nil || !intsEq(got, want) {
				run.Report("C18:paging-with-32-bit-boundary-index", fmt.Sprintf("getUnconfirmedBlocksByAddress(pool of 5, page %d, size %d) = positions %v (%v), the list has nothing at offset %d*%d", idx, size, got, err, idx, size),
					map[string]interface{}{"kind": "rpc-boundary", "idx": idx, "size": size})
			}
			got, _, err = heights(la.GetAccountBlocksByPage(chainAcct[5].Address, uint32(idx), uint32(size)))
			if want := refDesc(n, idx, size); err != nil || !intsEq(got, want) {
				run.Report("C18:chain-paging-with-32-bit-boundary-index", fmt.Sprintf("getAccountBlocksByPage(chain of 5, page %d, size %d) = %v (%v), expected %v", idx, size, got, err, want), nil)
			}
			ml, err := la.GetMomentumsByPage(uint32(idx), uint32(size))
			if err != nil || len(ml.List) != len(refDesc(top, idx, size)) {
				run.Report("C18:momentum-paging-with-32-bit-boundary-index", fmt.Sprintf("getMomentumsByPage(%d, %d) returns %d momentums (%v)", idx, size, len(ml.List), err), nil)
			}
			extra += 3
		}
	}
	for i := 0; i < 300; i++ {
		idx, size := uint64(r.Intn(12)), uint64(r.Intn(9))
		ml, err := la.GetMomentumsByPage(uint32(idx), uint32(size))
		want := refDesc(top, idx, size)
		var got []int
		if err == nil {
			for _, m := range ml.List {
				got = append(got, int(m.Height))
			}
		}
		if err != nil || !intsEq(got, want) || ml.Count != int(top) {
			run.Report("C18:getMomentumsByPage", fmt.Sprintf("getMomentumsByPage(%d, %d) on %d momentums = %v (%v), expected %v", idx, size, top, got, err, want), nil)
		}
		extra++
	}
	for _, size := range []uint32{1025, 5000, 1<<32 - 1} {
		if l, err := la.GetMomentumsByPage(0, size); err == nil && len(l.List) > api.RpcMaxPageSize {
			run.Report("C18:page-size-limit", fmt.Sprintf("page size %d answered with %d entries", size, len(l.List)), nil)
		}
		if l, err := la.GetAccountBlocksByPage(g.User1.Address, 0, size); err == nil && len(l.List) > api.RpcMaxPageSize {
			run.Report("C18:page-size-limit", fmt.Sprintf("page size %d answered with %d entries", size, len(l.List)), nil)
		}
		extra += 2
	}
	run.Traces += int64(extra)
	// embedded lists: stake entries page by page = all at once, in the documented order
	c18Embedded(run, p)
	c18Paging(run)
	// JSON round trip of every account block of the history
	blocks := 0
	for h := uint64(2); h <= p.Height(); h++ {
		dl, err := la.GetDetailedMomentumsByHeight(h, 1)
		if err != nil {
			run.Report("C18:getDetailedMomentumsByHeight", fmt.Sprintf("height %d: %v", h, err), nil)
			continue
		}
		for _, dm := range dl.List {
			for _, b := range dm.AccountBlocks {
				js, err := json.Marshal(b)
				if err != nil {
					run.Report("C18:block-json", fmt.Sprintf("marshal: %v", err), nil)
					continue
				}
				var back api.AccountBlock
				if err := json.Unmarshal(js, &back); err != nil {
					run.Report("C18:block-json", fmt.Sprintf("a block returned as JSON does not parse back: %v", err), nil)
					continue
				}
				func() {
					defer func() {
						if r := recover(); r != nil {
							run.Report("C18:block-json-parsed-block-unusable", fmt.Sprintf("block %v (type %d, %d descendants) parsed back from its own JSON cannot be serialised or hashed: %v", b.Hash, b.BlockType, len(b.DescendantBlocks), r), map[string]interface{}{"kind": "json-round-trip", "json": string(js)})
						}
					}()
					x, _ := back.AccountBlock.Serialize()
					y, _ := b.AccountBlock.Serialize()
					if !bytes.Equal(x, y) || back.AccountBlock.ComputeHash() != b.Hash || len(back.DescendantBlocks) != len(b.DescendantBlocks) {
						run.Report("C18:block-json", fmt.Sprintf("block %v changes when its JSON is fed back", b.Hash), map[string]interface{}{"kind": "json-round-trip", "json": string(js)})
					}
				}()
				blocks++
			}
		}
	}
	run.Set("json_round_trips", blocks)
	run.Traces += int64(blocks)
	c18Server(run)
	run.Finish()
}

func fuseData(a types.Address) []byte {
	return definitionFuse(a)
}

func c18Embedded(run *core.Run, p *node.Node) {
	// several stakes with different durations by one account, then page through them
	for i, d := range []int64{3, 1, 2, 3, 1, 2} {
		if _, err := p.Submit(&nom.AccountBlock{BlockType: nom.BlockTypeUserSend, Address: g.User3.Address, ToAddress: types.StakeContract, TokenStandard: types.ZnnTokenStandard,
			Amount: big.NewInt(int64(1+i) * 100000000), Data: stakeData(d)}, g.User3); err != nil {
			core.Fatal("stake for rpc: %v", err)
		}
		p.Produce(0)
	}
	p.ProduceN(3)
	sa := embedded.NewStakeApi(node.Z{N: p})
	all, err := sa.GetEntriesByAddress(g.User3.Address, 0, 100)
	if err != nil || all == nil {
		run.Report("C18:stake-entries", fmt.Sprintf("GetEntriesByAddress: %v", err), nil)
		return
	}
	var want []string
	for _, e := range all.Entries {
		want = append(want, e.Id.String())
	}
	for size := uint32(1); size <= 5; size++ {
		var got []string
		for page := uint32(0); page < 20; page++ {
			l, err := sa.GetEntriesByAddress(g.User3.Address, page, size)
			if err != nil {
				run.Report("C18:stake-entries", fmt.Sprintf("page %d size %d: %v", page, size, err), nil)
				break
			}
			if len(l.Entries) > int(size) {
				run.Report("C18:stake-entries-page-too-long", fmt.Sprintf("page of size %d has %d entries", size, len(l.Entries)), nil)
			}
			if len(l.Entries) == 0 {
				break
			}
			for _, e := range l.Entries {
				got = append(got, e.Id.String())
			}
		}
		if strings.Join(got, ",") != strings.Join(want, ",") {
			run.Report("C18:stake-entries-pages-differ-from-whole-list", fmt.Sprintf("paging the stake entries with size %d yields another order/content than the single page: %d vs %d entries", size, len(got), len(want)),
				map[string]interface{}{"kind": "stake-paging", "size": size})
		}
		run.Traces++
	}
	// the documented order: ascending expiration
	for i := 1; i < len(all.Entries); i++ {
		if all.Entries[i-1].ExpirationTimestamp > all.Entries[i].ExpirationTimestamp {
			run.Report("C18:stake-entries-order", "stake entries are not in ascending expiration order", nil)
		}
	}
	ta := embedded.NewTokenApi(node.Z{N: p})
	if whole, err := ta.GetAll(0, 100); err == nil {
		var want, got []string
		for _, t := range whole.List {
			want = append(want, t.ZenonTokenStandard.String())
		}
		for page := uint32(0); page < 50; page++ {
			l, err := ta.GetAll(page, 1)
			if err != nil || len(l.List) == 0 {
				break
			}
			for _, t := range l.List {
				got = append(got, t.ZenonTokenStandard.String())
			}
		}
		if strings.Join(got, ",") != strings.Join(want, ",") {
			run.Report("C18:token-list-pages-differ-from-whole-list", fmt.Sprintf("paging the token list yields %v, the whole list is %v", got, want), nil)
		}
		run.Traces++
	}
}

// ---- server under hostile input (child process) -----------------------------------------------

var rpcHostile = []string{
	`{"jsonrpc":"2.0","id":1,"method":"ledger.noSuchMethod","params":[]}`,
	`{"jsonrpc":"2.0","id":1,"method":"nosuchservice.x","params":[]}`,
	`{"jsonrpc":"2.0","id":1,"method":"ledger.getMomentumsByHeight","params":[]}`,
	`{"jsonrpc":"2.0","id":1,"method":"ledger.getMomentumsByHeight","params":[1,2,3,4,5]}`,
	`{"jsonrpc":"2.0","id":1,"method":"ledger.getMomentumsByHeight","params":["a","b"]}`,
	`{"jsonrpc":"2.0","id":1,"method":"ledger.getMomentumsByHeight","params":[-1,-1]}`,
	`{"jsonrpc":"2.0","id":1,"method":"ledger.getMomentumsByHeight","params":[18446744073709551615,18446744073709551615]}`,
	`{"jsonrpc":"2.0","id":1,"method":"ledger.getMomentumsByHeight","params":[1e400,1]}`,
	`{"jsonrpc":"2.0","id":1,"method":"ledger.getMomentumsByPage","params":[4294967295,1024]}`,
	`{"jsonrpc":"2.0","id":1,"method":"ledger.getAccountBlockByHash","params":["zz"]}`,
	`{"jsonrpc":"2.0","id":1,"method":"ledger.getAccountBlockByHash","params":["` + strings.Repeat("ab", 33) + `"]}`,
	`{"jsonrpc":"2.0","id":1,"method":"ledger.getAccountBlockByHash","params":["` + strings.Repeat("ab", 40) + `"]}`,
	`{"jsonrpc":"2.0","id":1,"method":"ledger.getAccountBlockByHash","params":["` + strings.Repeat("a", 63) + `"]}`,
	`{"jsonrpc":"2.0","id":1,"method":"ledger.getMomentumByHash","params":["` + strings.Repeat("0", 200) + `"]}`,
	`{"jsonrpc":"2.0","id":1,"method":"ledger.getAccountInfoByAddress","params":["z1qqqqqqqqqqqqqqqqqqqqqqqqqqqqqqqqsggv2f` + strings.Repeat("x", 100) + `"]}`,
	`{"jsonrpc":"2.0","id":1,"method":"ledger.getAccountBlocksByPage","params":["z1qzal6c5s9rjnnxd2z7dvdhjxpmmj4fmw56a0mz",4294967295,4294967295]}`,
	`{"jsonrpc":"2.0","id":1,"method":"ledger.publishRawTransaction","params":[null]}`,
	`{"jsonrpc":"2.0","id":1,"method":"ledger.publishRawTransaction","params":[{}]}`,
	`{"jsonrpc":"2.0","id":1,"method":"ledger.publishRawTransaction","params":[{"hash":"` + strings.Repeat("cd", 35) + `","amount":"-1","blockType":99}]}`,
	`{"jsonrpc":"2.0","id":1,"method":"ledger.publishRawTransaction","params":[{"amount":"1e999","address":"x","descendantBlocks":[null,null]}]}`,
	`{"jsonrpc":"2.0","id":1,"method":"ledger.getMomentumsByHeight","params":[1,`,
	`[]`,
	`[1,2,3]`,
	`null`,
	"  null \n",
	`true`,
	`0`,
	`"x"`,
	`[null]`,
	`[null,null,{"jsonrpc":"2.0","id":1,"method":"ledger.getFrontierMomentum","params":[]}]`,
	`[[]]`,
	`{}`,
	`{"jsonrpc":"2.0"}`,
	`{"id":null,"method":null,"params":null}`,
	`{"jsonrpc":"2.0","id":1,"method":"ledger.getFrontierMomentum","params":null}`,
	`[` + strings.Repeat(`{"jsonrpc":"2.0","id":1,"method":"ledger.getFrontierMomentum","params":[]},`, 2000) + `{"jsonrpc":"2.0","id":2,"method":"ledger.getFrontierMomentum","params":[]}]`,
	strings.Repeat("[", 100000),
	strings.Repeat(`{"a":`, 50000),
	`{"jsonrpc":"2.0","id":{"a":1},"method":"ledger.getFrontierMomentum","params":{}}`,
	"\x00\x01\x02\xff\xfe",
	"",
	`{"jsonrpc":"2.0","id":1,"method":"ledger.getFrontierMomentum","params":[]}` + strings.Repeat(" ", 6*1024*1024),
}

func c18Server(run *core.Run) {
	exe, _ := os.Executable()
	cmd := exec.Command(exe, "C18")
	cmd.Env = append(os.Environ(), "VERIF_CHILD=rpc-server", fmt.Sprintf("VERIF_CHILD_SEED=%d", run.Seed))
	out, err := cmd.CombinedOutput()
	s := string(out)
	done := strings.Contains(s, "SERVER-SURVIVED")
	last := lastMarker(s, "REQUEST ")
	if !done {
		idx := 0
		fmt.Sscan(last, &idx)
		what := "?"
		if idx < len(rpcHostile) {
			what = rpcHostile[idx]
			if len(what) > 160 {
				what = what[:160] + "..."
			}
		} else {
			what = "seeded random request #" + last
		}
		run.Report("C18:server-terminated-by-request", fmt.Sprintf("the JSON-RPC server process died (%v) while handling request %s: %s ; %s", err, last, what, tail(s, 300)), map[string]interface{}{"kind": "rpc-hostile", "request_index": idx})
		return
	}
	for _, l := range strings.Split(s, "\n") {
		if strings.HasPrefix(l, "BAD-ANSWER ") {
			run.Report("C18:server-answer-not-an-error-object", l, nil)
		}
	}
	var n int
	fmt.Sscan(last, &n)
	run.Traces += int64(n + 1)
	run.Set("hostile_requests", fmt.Sprintf("%d requests (fixed classes + seeded random bytes), server alive and answering a valid request afterwards", n+1))
}

func c18ServerChild() {
	walk.LabConstants()
	p, err := node.New("rpc-child", node.Options{Producer: true})
	if err != nil {
		os.Exit(3)
	}
	p.ProduceN(5)
	srv := rpcserver.NewServer()
	if err := srv.RegisterName("ledger", api.NewLedgerApi(node.Z{N: p})); err != nil {
		os.Exit(3)
	}
	ts := httptest.NewServer(srv)
	defer ts.Close()
	var seed int64
	fmt.Sscan(os.Getenv("VERIF_CHILD_SEED"), &seed)
	r := rand.New(rand.NewSource(seed))
	reqs := append([]string{}, rpcHostile...)
	for i := 0; i < 150; i++ {
		b := make([]byte, 1+r.Intn(200))
		r.Read(b)
		if i%3 == 0 { // mutate a valid request
			v := []byte(`{"jsonrpc":"2.0","id":1,"method":"ledger.getMomentumsByHeight","params":[1,2]}`)
			v[r.Intn(len(v))] = b[0]
			b = v
		}
		reqs = append(reqs, string(b))
	}
	post := func(body string) (int, string, error) {
		c := &http.Client{Timeout: 20 * time.Second}
		resp, err := c.Post(ts.URL, "application/json", strings.NewReader(body))
		if err != nil {
			return 0, "", err
		}
		defer resp.Body.Close()
		data, _ := io.ReadAll(io.LimitReader(resp.Body, 1<<20))
		return resp.StatusCode, string(data), nil
	}
	for i, q := range reqs {
		fmt.Printf("REQUEST %d\n", i)
		code, body, err := post(q)
		if err != nil {
			fmt.Printf("BAD-ANSWER request %d: transport error %v\n", i, err)
			continue
		}
		if code == 200 && len(body) > 0 && !strings.Contains(body, `"error"`) && !strings.Contains(body, `"result"`) {
			fmt.Printf("BAD-ANSWER request %d: %.100s\n", i, body)
		}
		// liveness after every request
		_, ok, err := post(`{"jsonrpc":"2.0","id":7,"method":"ledger.getFrontierMomentum","params":[]}`)
		if err != nil || !strings.Contains(ok, `"height"`) {
			fmt.Printf("BAD-ANSWER after request %d a valid request is answered with %.100s (%v)\n", i, ok, err)
		}
	}
	// the same requests over a streaming transport (the IPC listener): there a panic in the dispatcher is not recovered by net/http
	sock := fmt.Sprintf("%s/rpc-%d.sock", os.TempDir(), os.Getpid())
	os.Remove(sock)
	l, err := net.Listen("unix", sock)
	if err != nil {
		fmt.Println("cannot listen on a unix socket:", err)
		os.Exit(3)
	}
	defer os.Remove(sock)
	go srv.ServeListener(l)
	stream := func(body string, wait time.Duration) (string, error) {
		c, err := net.DialTimeout("unix", sock, 3*time.Second)
		if err != nil {
			return "", err
		}
		defer c.Close()
		c.SetDeadline(time.Now().Add(wait))
		if _, err := c.Write([]byte(body + "\n")); err != nil {
			return "", nil // the server closed on us: fine
		}
		buf := make([]byte, 1<<16)
		n, _ := c.Read(buf)
		return string(buf[:n]), nil
	}
	for i, q := range reqs {
		if len(q) > 1<<20 {
			continue
		}
		fmt.Printf("REQUEST %d (stream)\n", i)
		if _, err := stream(q, 1500*time.Millisecond); err != nil {
			fmt.Printf("BAD-ANSWER stream request %d: cannot connect: %v\n", i, err)
		}
		ok, err := stream(`{"jsonrpc":"2.0","id":7,"method":"ledger.getFrontierMomentum","params":[]}`, 5*time.Second)
		if err != nil || !strings.Contains(ok, `"height"`) {
			fmt.Printf("BAD-ANSWER after stream request %d a valid request is answered with %.100s (%v)\n", i, ok, err)
		}
	}
	fmt.Println("SERVER-SURVIVED")
	os.Exit(0)
}
