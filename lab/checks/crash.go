package checks

import (
	"encoding/binary"
	"fmt"
	"os"
	"path/filepath"
	"sort"
	"strings"
	"time"
)

// Crash points of a goleveldb store.
//
// Every Put / Delete / Write(batch) on a goleveldb database appends exactly ONE record to the
// current journal file (*.log) and flushes it to the file before returning; on open the journal is
// replayed record by record and a torn tail record is dropped. "The process dies between two
// successive writes to the underlying database" is therefore exactly "the journal ends at a record
// boundary". Given the directory before an operation (D0) and after it (D1) the crash states of the
// operation are D0 with the journal extended by the first k records the operation appended,
// k = 0..n. This needs no hook and covers every write site, including ones a later change adds.

const (
	jBlock  = 32768
	jHeader = 7
)

// journalRecordEnds returns the end offsets of the complete records in data[from:].
func journalRecordEnds(data []byte, from int) ([]int, error) {
	var ends []int
	pos := from
	inRecord := false
	for pos < len(data) {
		left := jBlock - pos%jBlock
		if left < jHeader {
			pos += left
			continue
		}
		if pos+jHeader > len(data) {
			break
		}
		length := int(binary.LittleEndian.Uint16(data[pos+4 : pos+6]))
		typ := data[pos+6]
		if typ == 0 && length == 0 {
			// preallocated / zero area
			break
		}
		if pos+jHeader+length > len(data) {
			break
		}
		pos += jHeader + length
		switch typ {
		case 1: // full
			ends = append(ends, pos)
			inRecord = false
		case 2: // first
			inRecord = true
		case 3: // middle
		case 4: // last
			if !inRecord {
				return nil, fmt.Errorf("journal: last chunk without first at %d", pos)
			}
			ends = append(ends, pos)
			inRecord = false
		default:
			return nil, fmt.Errorf("journal: bad chunk type %d at %d", typ, pos)
		}
	}
	return ends, nil
}

type dirSnap map[string][]byte

// snapDir reads every file of an OPEN database directory. goleveldb flushes and compacts in the background: a table file
// listed a moment ago may be gone (replaced by its compaction) when it is read. Then the directory was caught in the middle
// of that change and is read again, until two listings in a row agree with what was read.
func snapDir(dir string) (dirSnap, error) {
	var lastErr error
	for attempt := 0; attempt < 40; attempt++ {
		s, err := snapDirOnce(dir)
		if err == nil {
			// stable: the listing after the read names the same files
			if again, err2 := os.ReadDir(dir); err2 == nil {
				same := true
				n := 0
				for _, e := range again {
					if e.IsDir() || e.Name() == "LOCK" {
						continue
					}
					n++
					if _, ok := s[e.Name()]; !ok {
						same = false
					}
				}
				if same && n == len(s) {
					return s, nil
				}
			}
		} else if !os.IsNotExist(err) {
			return nil, err
		} else {
			lastErr = err
		}
		time.Sleep(25 * time.Millisecond)
	}
	return nil, fmt.Errorf("the database directory %s keeps changing under the snapshot (%v)", dir, lastErr)
}

func snapDirOnce(dir string) (dirSnap, error) {
	s := dirSnap{}
	ents, err := os.ReadDir(dir)
	if err != nil {
		return nil, err
	}
	for _, e := range ents {
		if e.IsDir() || e.Name() == "LOCK" {
			continue
		}
		data, err := os.ReadFile(filepath.Join(dir, e.Name()))
		if err != nil {
			return nil, err
		}
		s[e.Name()] = data
	}
	return s, nil
}

func (s dirSnap) write(dir string) error {
	if err := os.MkdirAll(dir, 0o755); err != nil {
		return err
	}
	for n, d := range s {
		if err := os.WriteFile(filepath.Join(dir, n), d, 0o644); err != nil {
			return err
		}
	}
	return nil
}

type crashPoint struct {
	K     int  // number of complete records of the operation that reached the journal
	Torn  bool // additionally half of record K+1 was written
	Files dirSnap
}

// crashPoints computes the crash states between snapshot d0 (before the operation) and d1 (after).
// ok=false when the operation rotated files (memtable flush / compaction) and the simple journal
// model does not apply; n is the number of journal records the operation appended.
func crashPoints(d0, d1 dirSnap) (pts []crashPoint, n int, ok bool, err error) {
	var names0, names1 []string
	for k := range d0 {
		names0 = append(names0, k)
	}
	for k := range d1 {
		names1 = append(names1, k)
	}
	sort.Strings(names0)
	sort.Strings(names1)
	if strings.Join(names0, ",") != strings.Join(names1, ",") {
		return nil, 0, false, nil
	}
	grown := ""
	for _, name := range names0 {
		a, b := d0[name], d1[name]
		if string(a) == string(b) {
			continue
		}
		if !strings.HasSuffix(name, ".log") || len(b) < len(a) || string(b[:len(a)]) != string(a) || grown != "" {
			return nil, 0, false, nil
		}
		grown = name
	}
	if grown == "" {
		return nil, 0, true, nil // the operation wrote nothing
	}
	ends, err := journalRecordEnds(d1[grown], len(d0[grown]))
	if err != nil {
		return nil, 0, false, err
	}
	if len(ends) == 0 || ends[len(ends)-1] != len(d1[grown]) {
		return nil, 0, false, fmt.Errorf("journal %s: appended bytes do not end at a record boundary", grown)
	}
	mk := func(cut int) dirSnap {
		c := dirSnap{}
		for k, v := range d0 {
			c[k] = v
		}
		c[grown] = d1[grown][:cut]
		return c
	}
	prev := len(d0[grown])
	for k := 0; k <= len(ends); k++ {
		cut := prev
		if k > 0 {
			cut = ends[k-1]
		}
		pts = append(pts, crashPoint{K: k, Files: mk(cut)})
		if k < len(ends) {
			// torn write: half of the next record reached the file
			half := cut + (ends[k]-cut)/2
			if half > cut {
				pts = append(pts, crashPoint{K: k, Torn: true, Files: mk(half)})
			}
		}
	}
	return pts, len(ends), true, nil
}

func dumpEq(a, b map[string]string) bool {
	if len(a) != len(b) {
		return false
	}
	for k, v := range a {
		if w, ok := b[k]; !ok || w != v {
			return false
		}
	}
	return true
}

func dumpDiff(a, b map[string]string) string {
	var d []string
	for k, v := range a {
		if w, ok := b[k]; !ok {
			d = append(d, "-"+short(k))
		} else if w != v {
			d = append(d, "~"+short(k))
		}
	}
	for k := range b {
		if _, ok := a[k]; !ok {
			d = append(d, "+"+short(k))
		}
	}
	sort.Strings(d)
	if len(d) > 8 {
		d = append(d[:8], fmt.Sprintf("... %d more", len(d)-8))
	}
	return strings.Join(d, " ")
}

func short(k string) string {
	if len(k) > 24 {
		return k[:24] + ".."
	}
	return k
}
