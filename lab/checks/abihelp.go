package checks

import (
	"github.com/zenon-network/go-zenon/common/types"
	"github.com/zenon-network/go-zenon/vm/constants"
	"github.com/zenon-network/go-zenon/vm/embedded/definition"
)

func definitionFuse(a types.Address) []byte {
	return definition.ABIPlasma.PackMethodPanic(definition.FuseMethodName, a)
}
func stakeData(units int64) []byte {
	return definition.ABIStake.PackMethodPanic(definition.StakeMethodName, constants.StakeTimeUnitSec*units)
}
