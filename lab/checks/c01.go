package checks

import (
	"fmt"

	"verif/lab/core"
	"verif/lab/ledger"
)

func C01(run *core.Run) {
	runs, stats, err := traceRepoTests("./vm/embedded/tests/", ".", func(p *ledger.Projector) { p.Observer = ledger.StandardObserver(0) })
	if err != nil {
		core.Fatal("%v", err)
	}
	fmt.Println(len(runs), stats)
	vs, states, err := validateLedgerRuns(runs, "Conservation AtMostOnce FIFO Backed")
	if err != nil {
		core.Fatal("%v", err)
	}
	fmt.Println(states)
	for _, v := range vs {
		fmt.Printf("REJECT %s line %d inv=%s ev=%.300s\n", v.Run, v.Line, v.Inv, core.JSON(v.Event))
	}
	run.Finish()
}
