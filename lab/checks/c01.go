package checks

import "verif/lab/core"

// C01 — token supply is conserved.
func C01(run *core.Run) {
	run.Assume = []string{
		"trace validation covers the executions recorded (repository contract tests under hooks, seeded lab walks); inside them every accepted block is checked against the specification's arithmetic over ALL accounts",
		"the projector (lab/ledger) decodes balances and token records from the state-change patches; patches are the consensus-relevant state change (momentums commit to their hash)",
	}
	ledgerFamily(run, ledgerFamilyOpts{prop: "C01", invariants: "Conservation AtMostOnce FIFO Backed", repoPattern: "TestToken|TestSimple|TestSendBlock|TestHtlc|TestPlasma", walks: 3, walkLen: 120, reorgs: 3, tight: true, tokens: true})
	run.Finish()
}
