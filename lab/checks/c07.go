package checks

import (
	"fmt"
	"strings"
	"time"

	"verif/lab/core"
)

const vsCfgTemplate = `CONSTANTS
  MaxH = %d
  MaxViews = %d
  Tags = {%s}
  FixParent = %s
  FixTomb = %s
  FixCache = %s
  FixEmptyScan = %s
  GhostCache = %s
  WithHist = %s
INIT Init
NEXT Next
CHECK_DEADLOCK FALSE
`

func vsCfg(maxH, views int, tags string, fixParent, fixTomb, fixCache, fixScan, hist bool, tail string) string {
	return vsCfgG(maxH, views, tags, fixParent, fixTomb, fixCache, fixScan, false, hist, tail)
}

func vsCfgG(maxH, views int, tags string, fixParent, fixTomb, fixCache, fixScan, ghost, hist bool, tail string) string {
	b := func(x bool) string {
		if x {
			return "TRUE"
		}
		return "FALSE"
	}
	var ts []string
	for _, t := range strings.Split(tags, "") {
		ts = append(ts, `"`+t+`"`)
	}
	return fmt.Sprintf(vsCfgTemplate, maxH, views, strings.Join(ts, ","), b(fixParent), b(fixTomb), b(fixCache), b(fixScan), b(ghost), b(hist)) + tail
}

const vsInvariants = "INVARIANTS ViewAsOf FreshViewRight DiskIsFrontier PatchesMatch NoStaleAccept\nPROPERTIES ParentRule\n"
const vsGenTail = "VIEW GenView\nACTION_CONSTRAINT EmitEdge\n"

// vsModelCheck runs the exhaustive configuration and the negative controls.
func vsModelCheck(run *core.Run, maxH, views int, tags string) {
	res, err := core.RunTLC(core.TLCOpts{Module: "VStore", CfgText: vsCfg(maxH, views, tags, true, true, true, true, false, vsInvariants), Timeout: 40 * time.Minute})
	if err != nil {
		core.Fatal("VStore model check: %v", err)
	}
	if res.Violated != "" || res.Err != "" {
		core.Fatal("VStore specification does not satisfy its own invariants (%s %s): the specification is wrong, not the code", res.Violated, res.Err)
	}
	run.States += res.Distinct
	run.Transitions += res.Generated
	run.Set("mc_config", fmt.Sprintf("VStore MaxH=%d views=%d tags=%s: %d distinct states, %d transitions, depth %d, %.0fs", maxH, views, tags, res.Distinct, res.Generated, res.Depth, res.Wall.Seconds()))
	// negative controls: the behaviour of the code as found must be refuted by TLC
	type nc struct {
		name           string
		fp, ft, fc, fs bool
		expect         string
	}
	var controls []string
	for _, c := range []nc{
		{"stale parent accepted (F1)", false, true, true, true, ""},
		{"tombstone stored as empty value (F2)", true, false, true, true, ""},
		{"cache not purged on Pop (F3)", true, true, false, true, ""},
		{"empty value hidden from historical scans (F16)", true, true, true, false, ""},
	} {
		r, err := core.RunTLC(core.TLCOpts{Module: "VStore", CfgText: vsCfg(3, 1, "abcde", c.fp, c.ft, c.fc, c.fs, false, vsInvariants), Timeout: 5 * time.Minute})
		if err != nil {
			core.Fatal("negative control %s: %v", c.name, err)
		}
		if r.Violated == "" {
			core.Fatal("negative control %q was NOT refuted by TLC: the invariants are vacuous for it", c.name)
		}
		controls = append(controls, fmt.Sprintf("%s -> TLC refutes %s", c.name, r.Violated))
	}
	run.Set("negative_controls", controls)
}

// C07 — versioned store: a view at commit X shows exactly the state as of X.
func C07(run *core.Run) {
	run.Assume = []string{
		"TLC explores heights <= 3 over a fixed alphabet of five patches on two keys; longer histories only through -simulate walks",
		"keys and values are model values in TLC; byte-level cases (shared prefixes, bookkeeping prefixes, 0xff, empty value) come from four concretisations per behaviour class",
		"reader/writer concurrency is exercised by a separate gated replay (see coverage.concurrent)",
	}
	if run.Thorough() {
		vsModelCheck(run, 3, 2, "abcd")
	} else {
		vsModelCheck(run, 3, 1, "abcde")
	}
	vsReplayEdgeCover(run, "C07", false)
	vsViewWrites(run)
	run.Finish()
}

// vsReplayEdgeCover generates the edge cover of the Gen configuration and replays it on both managers.
func vsReplayEdgeCover(run *core.Run, prop string, crash bool) {
	var replays, steps int64
	cfg := vsCfg(2, 1, "abcde", true, true, true, true, true, vsGenTail)
	res, st := vsGenerateAndReplayCfg(run, cfg, nil, func(b *vsBehaviour, n int64, scratch string) {
		conc := vsConcs[int((n+run.Seed)%int64(len(vsConcs)))]
		if last := b.Steps[len(b.Steps)-1]; !run.Thorough() && last.A == "Commit" && last.R != "ok" && (n+run.Seed)%4 != 0 {
			run.Count("quick_tier_skipped_behaviours_ending_in_a_refused_commit(4 of 5 of all transitions are such; every 4th kept)", 1)
			return
		}
		for _, kind := range []string{"ldb", "mem"} {
			if kind == "mem" {
				skip := !run.Thorough() && (n+run.Seed)%3 != 0 // quick tier: the in-memory manager on a third of the behaviours
				for _, s := range b.Steps {
					if s.A == "Restart" {
						skip = true
					}
				}
				if skip {
					continue
				}
			}
			out, err := vsReplay(kind, conc, b, scratch)
			if err != nil {
				core.Fatal("replay infrastructure: %v", err)
			}
			run.Count("replayed_behaviours_"+kind, 1)
			run.Count("replayed_steps", int64(out.Steps))
			vsReportMismatches(run, prop, kind, conc, b, out.Mismatches)
			_ = replays
			_ = steps
		}
		// tall concretisation (views far behind the frontier: second-level cache) on a seeded sample
		tallEvery := int64(20)
		if run.Thorough() {
			tallEvery = 2
		}
		if (n+run.Seed)%tallEvery == 0 {
			skip := false
			for _, s := range b.Steps {
				if s.A == "Restart" {
					skip = true
				}
			}
			if !skip {
				out, err := vsReplayT("ldb", 365, conc, b, scratch)
				if err != nil {
					core.Fatal("tall replay infrastructure: %v", err)
				}
				run.Count("replayed_behaviours_ldb_tall(365 filler commits)", 1)
				vsReportMismatches(run, prop, "ldb-tall", conc, b, out.Mismatches)
			}
		}
		if n%20000 == 1 {
			run.AddSample(map[string]interface{}{"behaviour": b.Steps, "predicted_final_state": b.Obs})
		}
	})
	// random walks of the specification (depth 12): histories the BFS-shortest edge cover never takes, e.g. view / rollback /
	// other commit / view again - the ones on which state the specification does not have (stale caches) would show.
	// every prefix of a walk is a behaviour of its own; plain and tall concretisation
	nwalk := 150
	if run.Thorough() {
		nwalk = 1500
	}
	simCfg := vsCfg(2, 2, "abcde", true, true, true, true, true, vsGenTail)
	var walks int64
	_, wst := vsGenerateAndReplayCfg(run, simCfg, []string{"-simulate", fmt.Sprintf("num=%d", nwalk), "-depth", "12", "-seed", fmt.Sprint(run.Seed + 5)}, func(b *vsBehaviour, n int64, scratch string) {
		conc := vsConcs[int((n+run.Seed)%int64(len(vsConcs)))]
		for _, tall := range []int{0, 365} {
			if tall > 0 {
				skip := false
				for _, s := range b.Steps {
					if s.A == "Restart" {
						skip = true
					}
				}
				if skip || len(b.Steps) < 4 {
					continue
				}
			}
			out, err := vsReplayT("ldb", tall, conc, b, scratch)
			if err != nil {
				core.Fatal("walk replay infrastructure: %v", err)
			}
			kind := "ldb-walk"
			if tall > 0 {
				kind = "ldb-tall-walk"
			}
			run.Count("replayed_walk_prefixes_"+kind, 1)
			vsReportMismatches(run, prop, kind, conc, b, out.Mismatches)
		}
	})
	walks = wst.Behaviours
	// ghost pass: the state graph that remembers which views were cached before a rollback; every transition that requests
	// such a view again, plain and tall (both cache levels)
	gtags := "abc"
	if run.Thorough() {
		gtags = "abcd"
	}
	var gst *vsGenStats
	for _, pass := range []struct {
		constraint string
		tall       int
		kind       string
	}{
		{"EmitGhostEdge", 0, "ldb-reopened-after-rollback"},
		// tall: only views fill the cache (a refused commit asks for the view of the top filler, not of the far commit)
		{"EmitGhostEdgeViewsOnly", 365, "ldb-tall-reopened-after-rollback"},
	} {
		pass := pass
		ghostCfg := vsCfgG(2, 1, gtags, true, true, true, true, true, true, "VIEW GenView\nACTION_CONSTRAINT "+pass.constraint+"\n")
		_, gst = vsGenerateAndReplayCfg(run, ghostCfg, nil, func(b *vsBehaviour, n int64, scratch string) {
			conc := vsConcs[int((n+run.Seed)%int64(len(vsConcs)))]
			for _, s := range b.Steps {
				if s.A == "Restart" && pass.tall > 0 {
					return
				}
			}
			out, err := vsReplayT("ldb", pass.tall, conc, b, scratch)
			if err != nil {
				core.Fatal("ghost replay infrastructure: %v", err)
			}
			run.Count("replayed_behaviours_"+pass.kind, 1)
			vsReportMismatches(run, prop, pass.kind, conc, b, out.Mismatches)
		})
		run.Traces += gst.Behaviours
	}
	if gst.Behaviours == 0 {
		core.Fatal("vacuity: no transition re-requests a view cached before a rollback")
	}
	// height 3 (a key created, deleted and re-created by three successive commits, seen from below): create / delete+write / re-create
	dtags, devery := "acd", int64(2)
	if run.Thorough() {
		dtags, devery = "acde", 1
	}
	deepCfg := vsCfg(3, 1, dtags, true, true, true, true, true, "VIEW GenView\nACTION_CONSTRAINT EmitDeepEdge\n")
	_, dst := vsGenerateAndReplayCfg(run, deepCfg, nil, func(b *vsBehaviour, n int64, scratch string) {
		if (n+run.Seed)%devery != 0 {
			return
		}
		conc := vsConcs[int((n+run.Seed)%int64(len(vsConcs)))]
		out, err := vsReplay("ldb", conc, b, scratch)
		if err != nil {
			core.Fatal("height-3 replay infrastructure: %v", err)
		}
		run.Count("replayed_behaviours_ldb_height3", 1)
		vsReportMismatches(run, prop, "ldb-height3", conc, b, out.Mismatches)
	})
	run.Traces += dst.Behaviours / devery
	run.Traces += walks
	run.Traces += st.Behaviours
	run.Set("edge_cover", fmt.Sprintf("VStore Gen MaxH=2 views=1: %d abstract states, %d transitions, one behaviour replayed per transition", res.Distinct, res.Generated))
	run.Set("edge_cover_last_actions", st.Results)
	for _, a := range []string{"Commit/ok", "Commit/refused", "Commit/noprev", "Pop/ok", "OpenView/ok", "OpenView/nil", "Restart/ok"} {
		if st.Results[a] == 0 {
			core.Fatal("vacuity: no generated behaviour ends with %s", a)
		}
	}
}

func vsGenerateAndReplayCfg(run *core.Run, cfgText string, args []string, fn func(b *vsBehaviour, n int64, scratch string)) (*core.TLCResult, *vsGenStats) {
	return vsGenerateAndReplayText(run, "VStore", cfgText, args, fn)
}
