package checks

import "verif/lab/core"

func vsViewWrites(run *core.Run) {}
