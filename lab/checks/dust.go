package checks

import (
	"encoding/json"
	"fmt"
	"github.com/zenon-network/go-zenon/common/db"
	"github.com/zenon-network/go-zenon/consensus"
	"math/big"
	"time"

	g "github.com/zenon-network/go-zenon/chain/genesis/mock"
	"github.com/zenon-network/go-zenon/chain/nom"
	"github.com/zenon-network/go-zenon/common/types"
	"github.com/zenon-network/go-zenon/verifier"
	"github.com/zenon-network/go-zenon/vm/constants"
	"github.com/zenon-network/go-zenon/vm/embedded/definition"
	"github.com/zenon-network/go-zenon/wallet"

	"verif/lab/core"
	"verif/lab/ledger"
	"verif/lab/node"
	"verif/lab/walk"
)

// Reward computations at the rounding boundary: a pillar whose only backers hold a few base units, which move between the
// backers inside an epoch (every average rounds differently from the sum of the averages). The epoch's Update must still be
// received (C09), within the emission (C11).

type dustArg struct {
	Kind    string // "" = dust backers; "sentinel-late-revoke"; "revoked-pillar"
	Seed    int64
	Amounts [2]int64 // base units held by the two backers at the start of the epoch
	Move    int64    // base units moved from the first to the second backer in mid-epoch
}

type scenarioResult struct {
	Run      ledgerRun
	Findings [][2]string
	Stats    string
}

func init() {
	core.RegisterChild("ledger-dust", func(arg json.RawMessage) (interface{}, error) {
		var a dustArg
		if err := json.Unmarshal(arg, &a); err != nil {
			return nil, err
		}
		node.Quiet()
		return dustScenario(a)
	})
}

func dustScenario(a dustArg) (*scenarioResult, error) {
	if a.Kind == "sentinel-late-revoke" {
		return sentinelLateRevoke(a)
	}
	if a.Kind == "liquidity-delisted" {
		return liquidityDelisted(a)
	}
	if a.Kind == "revoked-pillar" {
		return revokedPillar(a)
	}
	if a.Kind == "liquidity-first-stake" {
		return liquidityFirstStake(a)
	}
	walk.LabConstants()
	verifier.ReceiverMismatchEnforcementHeight = 1
	res := &scenarioResult{}
	node.Clock.Set(time.Unix(1000000000, 0))
	cap := ledger.StartCapture()
	defer cap.Stop()
	p, err := node.New("dust", node.Options{Producer: true})
	if err != nil {
		return nil, err
	}
	defer p.Stop()
	seed := []byte(fmt.Sprintf("dust-seed-%08d-0123456789abcdef", a.Seed))[:32]
	d1, err := wallet.DeriveWithIndex(1, seed)
	if err != nil {
		return nil, err
	}
	d2, err := wallet.DeriveWithIndex(2, seed)
	if err != nil {
		return nil, err
	}
	znn, qsr := types.ZnnTokenStandard, types.QsrTokenStandard
	send := func(what string, key *wallet.KeyPair, b *nom.AccountBlock) (*nom.AccountBlock, error) {
		b.Address = key.Address
		if b.Amount == nil {
			b.Amount = big.NewInt(0)
		}
		blk, err := p.Submit(b, key)
		if err != nil {
			return nil, fmt.Errorf("dust scenario: %s refused: %v", what, err)
		}
		return blk, nil
	}
	call := func(what string, key *wallet.KeyPair, c types.Address, data []byte) error {
		_, err := send(what, key, &nom.AccountBlock{BlockType: nom.BlockTypeUserSend, ToAddress: c, TokenStandard: types.ZeroTokenStandard, Data: data})
		return err
	}
	receiveAll := func(key *wallet.KeyPair, hashes ...types.Hash) error {
		for _, h := range hashes {
			if _, err := send("receive", key, &nom.AccountBlock{BlockType: nom.BlockTypeUserReceive, FromBlockHash: h}); err != nil {
				return err
			}
		}
		return nil
	}
	// plasma for the dust accounts, dust for them, the other backers of the pillar leave
	for _, d := range []*wallet.KeyPair{d1, d2} {
		if _, err := send("fuse", g.User1, &nom.AccountBlock{BlockType: nom.BlockTypeUserSend, ToAddress: types.PlasmaContract, TokenStandard: qsr, Amount: unitsOf(100),
			Data: definition.ABIPlasma.PackMethodPanic(definition.FuseMethodName, d.Address)}); err != nil {
			return nil, err
		}
	}
	var s1, s2 *nom.AccountBlock
	if a.Amounts[0] > 0 {
		if s1, err = send("dust", g.User1, &nom.AccountBlock{BlockType: nom.BlockTypeUserSend, ToAddress: d1.Address, TokenStandard: znn, Amount: big.NewInt(a.Amounts[0])}); err != nil {
			return nil, err
		}
	}
	if a.Amounts[1] > 0 {
		if s2, err = send("dust", g.User1, &nom.AccountBlock{BlockType: nom.BlockTypeUserSend, ToAddress: d2.Address, TokenStandard: znn, Amount: big.NewInt(a.Amounts[1])}); err != nil {
			return nil, err
		}
	}
	for _, k := range []*wallet.KeyPair{g.Pillar3, g.User4, g.User5} {
		if err := call("undelegate", k, types.PillarContract, definition.ABIPillars.PackMethodPanic(definition.UndelegateMethodName)); err != nil {
			return nil, err
		}
	}
	if err := p.ProduceN(3); err != nil {
		return nil, err
	}
	if s1 != nil {
		if err := receiveAll(d1, s1.Hash); err != nil {
			return nil, err
		}
	}
	if s2 != nil {
		if err := receiveAll(d2, s2.Hash); err != nil {
			return nil, err
		}
	}
	for _, d := range []*wallet.KeyPair{d1, d2} {
		if err := call("delegate", d, types.PillarContract, definition.ABIPillars.PackMethodPanic(definition.DelegateMethodName, g.Pillar3Name)); err != nil {
			return nil, err
		}
	}
	// to the start of the next epoch, half an epoch on, the move, and on through the following epoch and its update
	toNextEpoch := walk.EpochMomentums - int(p.Height())%walk.EpochMomentums + 2
	if err := p.ProduceN(toNextEpoch + walk.EpochMomentums/2); err != nil {
		return nil, err
	}
	if a.Move > 0 {
		mv, err := send("move", d1, &nom.AccountBlock{BlockType: nom.BlockTypeUserSend, ToAddress: d2.Address, TokenStandard: znn, Amount: big.NewInt(a.Move)})
		if err != nil {
			return nil, err
		}
		if err := p.ProduceN(1); err != nil {
			return nil, err
		}
		if err := receiveAll(d2, mv.Hash); err != nil {
			return nil, err
		}
	}
	var perr error
	for i := 0; i < walk.EpochMomentums+2*walk.UpdateMomentums; i++ {
		if perr = p.Produce(0); perr != nil {
			break
		}
	}
	if perr != nil {
		res.Findings = append(res.Findings, [2]string{"producer-stops", fmt.Sprintf("the producing node cannot produce: %v (problems %v)", perr, p.Problems)})
	}
	w := walk.New(p, a.Seed)
	if drained, err := w.Drain(40); err != nil {
		res.Findings = append(res.Findings, [2]string{"producer-stops", fmt.Sprintf("the producing node cannot produce while draining: %v", err)})
	} else if !drained {
		res.Findings = append(res.Findings, [2]string{"inbox-not-drained", "after 40 further momentums a contract inbox still holds a confirmed call"})
	}
	for _, pb := range p.Problems {
		res.Findings = append(res.Findings, [2]string{"producer-problem", "producing pillar reported: " + pb})
	}
	// the pillar's epoch must have been rewarded at all: the scenario is not vacuous
	last, err := definition.GetLastEpochUpdate(p.Chain.GetFrontierMomentumStore().GetAccountStore(types.PillarContract).Storage())
	if err == nil && last.LastEpoch < 1 {
		return nil, fmt.Errorf("dust scenario: pillar contract's last rewarded epoch is %d after two epochs", last.LastEpoch)
	}
	ids := cap.ChainIDs()
	if len(ids) != 1 {
		return nil, fmt.Errorf("expected one chain in capture, got %v", ids)
	}
	pr := ledger.NewProjector()
	pr.Observer = ledger.StandardObserver(walk.EpochMomentums)
	if err := cap.Project(ids[0], pr); err != nil {
		return nil, err
	}
	name := fmt.Sprintf("dust backers scenario amounts=%v move=%d seed=%d enforced=true", a.Amounts, a.Move, a.Seed)
	res.Run = ledgerRun{Name: name, Events: pr.Events, Note: pr.Note}
	res.Stats = fmt.Sprintf("%s: %d momentums, %d blocks, pillar contract rewarded up to epoch %d", name, pr.Momentums, pr.Blocks, last.LastEpoch)
	return res, nil
}

func dustRuns(run *core.Run, prop string) []ledgerRun {
	args := []dustArg{{Seed: run.Seed, Amounts: [2]int64{1, 0}, Move: 1}, {Seed: run.Seed, Amounts: [2]int64{1, 1}, Move: 0}, {Seed: run.Seed, Amounts: [2]int64{3, 0}, Move: 2},
		{Kind: "sentinel-late-revoke", Seed: run.Seed}, {Kind: "revoked-pillar", Seed: run.Seed}, {Kind: "liquidity-first-stake", Seed: run.Seed}}
	if prop == "C10" {
		args = append(args[3:5:5], dustArg{Kind: "liquidity-delisted", Seed: run.Seed}) // the scenarios with a release of locked funds in them
	}
	if run.Thorough() && prop != "C10" {
		args = append(args, dustArg{Seed: run.Seed, Amounts: [2]int64{2, 1}, Move: 2}, dustArg{Seed: run.Seed, Amounts: [2]int64{1, 0}, Move: 0}, dustArg{Seed: run.Seed, Amounts: [2]int64{100000000, 1}, Move: 99999999})
	}
	outs := make([]scenarioResult, len(args))
	crashes := make([]*core.Crash, len(args))
	errs := make([]error, len(args))
	done := make(chan int, len(args))
	for i := range args {
		go func(i int) {
			crashes[i], errs[i] = core.Child("ledger-dust", args[i], &outs[i], 20*time.Minute)
			done <- i
		}(i)
	}
	for range args {
		<-done
	}
	var runs []ledgerRun
	var stats []string
	for i := range args {
		if errs[i] != nil {
			core.Fatal("%v", errs[i])
		}
		if c := crashes[i]; c != nil {
			run.ReportFor("C09", "C09:"+c.Key(), fmt.Sprintf("the node process went down in the dust-backers scenario %+v: %s", args[i], c.String()), map[string]interface{}{"kind": "dust", "arg": args[i], "stderr_tail": c.Text})
			continue
		}
		for _, f := range outs[i].Findings {
			fp := "C09"
			if args[i].Kind == "revoked-pillar" || args[i].Kind == "liquidity-delisted" {
				fp = prop
			}
			if f[0] == "fixture" {
				core.Fatal("scenario %+v: %s", args[i], f[1])
			}
			run.ReportFor(fp, fp+":"+f[0], f[1]+fmt.Sprintf(" (scenario %+v)", args[i]), map[string]interface{}{"kind": "dust", "arg": args[i]})
		}
		runs = append(runs, outs[i].Run)
		stats = append(stats, outs[i].Stats)
	}
	run.Set("dust_backers_scenarios", stats)
	_ = prop
	return runs
}

// sentinelLateRevoke: two sentinels are active for (almost) a whole epoch; one of them revokes in the epoch's last tenth.
// Whatever the contract decides about who is eligible, what it credits for the epoch stays within the epoch's emission (C11).
func sentinelLateRevoke(a dustArg) (*scenarioResult, error) {
	walk.LabConstants()
	verifier.ReceiverMismatchEnforcementHeight = 1
	res := &scenarioResult{}
	node.Clock.Set(time.Unix(1000000000, 0))
	cap := ledger.StartCapture()
	defer cap.Stop()
	p, err := node.New("sentinels", node.Options{Producer: true})
	if err != nil {
		return nil, err
	}
	defer p.Stop()
	znn, qsr := types.ZnnTokenStandard, types.QsrTokenStandard
	call := func(what string, key *wallet.KeyPair, tok types.ZenonTokenStandard, amt *big.Int, data []byte) error {
		if _, err := p.Submit(&nom.AccountBlock{BlockType: nom.BlockTypeUserSend, Address: key.Address, ToAddress: types.SentinelContract, TokenStandard: tok, Amount: amt, Data: data}, key); err != nil {
			return fmt.Errorf("sentinel scenario: %s refused: %v", what, err)
		}
		return nil
	}
	owners := []*wallet.KeyPair{g.User1, g.User2}
	for _, u := range owners {
		if err := call("deposit", u, qsr, constants.SentinelQsrDepositAmount, definition.ABISentinel.PackMethodPanic(definition.DepositQsrMethodName)); err != nil {
			return nil, err
		}
	}
	// registration about 350 s into an epoch: the periodic revoke window (locked 200 s, open 100 s) then covers seconds 550..650
	// of the NEXT epoch, i.e. its last tenth, after both sentinels have been active for all of it
	for int(p.Height())%walk.EpochMomentums != 34 {
		if err := p.Produce(0); err != nil {
			return nil, err
		}
	}
	for _, u := range owners {
		if err := call("register", u, znn, constants.SentinelZnnRegisterAmount, definition.ABISentinel.PackMethodPanic(definition.RegisterSentinelMethodName)); err != nil {
			return nil, err
		}
	}
	if err := p.ProduceN(walk.EpochMomentums - 34 + 2); err != nil { // into the next epoch
		return nil, err
	}
	for int(p.Height())%walk.EpochMomentums != 56+int(a.Seed%2) {
		if err := p.Produce(0); err != nil {
			return nil, err
		}
	}
	if err := call("revoke", owners[1], types.ZeroTokenStandard, big.NewInt(0), definition.ABISentinel.PackMethodPanic(definition.RevokeSentinelMethodName)); err != nil {
		return nil, err
	}
	revokedAt := p.Height()
	var perr error
	for i := 0; i < walk.EpochMomentums+2*walk.UpdateMomentums+10; i++ {
		if perr = p.Produce(0); perr != nil {
			break
		}
		// "never twice": the release is asked for again, in the window that is still open and one period later
		if d := p.Height() - revokedAt; d == 2 || d == uint64(constants.SentinelLockTimeWindow+constants.SentinelRevokeTimeWindow)/10 {
			call("revoke again", owners[1], types.ZeroTokenStandard, big.NewInt(0), definition.ABISentinel.PackMethodPanic(definition.RevokeSentinelMethodName))
		}
	}
	if perr != nil {
		res.Findings = append(res.Findings, [2]string{"producer-stops", fmt.Sprintf("the producing node cannot produce: %v (problems %v)", perr, p.Problems)})
	}
	for _, u := range owners {
		call("collect", u, types.ZeroTokenStandard, big.NewInt(0), definition.ABICommon.PackMethodPanic(definition.CollectRewardMethodName))
	}
	w := walk.New(p, a.Seed)
	if drained, err := w.Drain(40); err != nil || !drained {
		res.Findings = append(res.Findings, [2]string{"inbox-not-drained", fmt.Sprintf("the contract inboxes do not drain (%v)", err)})
	}
	// not vacuous: the revocation went through (one active sentinel left) and an epoch was rewarded
	st := p.Chain.GetFrontierMomentumStore().GetAccountStore(types.SentinelContract).Storage()
	active := 0
	definition.IterateSentinelEntries(st, func(s *definition.SentinelInfo) error {
		if s.RevokeTimestamp == 0 {
			active++
		}
		return nil
	})
	last, err := definition.GetLastEpochUpdate(st)
	if err != nil || last.LastEpoch < 1 || active != 1 {
		return nil, fmt.Errorf("sentinel scenario: %d active sentinels, last rewarded epoch %v (%v): the scenario did not play out", active, last, err)
	}
	ids := cap.ChainIDs()
	if len(ids) != 1 {
		return nil, fmt.Errorf("expected one chain in capture, got %v", ids)
	}
	pr := ledger.NewProjector()
	pr.Observer = ledger.StandardObserver(walk.EpochMomentums)
	if err := cap.Project(ids[0], pr); err != nil {
		return nil, err
	}
	name := fmt.Sprintf("sentinel late-revoke scenario seed=%d enforced=true", a.Seed)
	res.Run = ledgerRun{Name: name, Events: pr.Events, Note: pr.Note}
	res.Stats = fmt.Sprintf("%s: %d momentums, %d blocks, sentinel contract rewarded up to epoch %d, %d active sentinel left", name, pr.Momentums, pr.Blocks, last.LastEpoch, active)
	return res, nil
}

// revokedPillar: a pillar registers, takes part in elections, and is revoked in the middle of an epoch. The epochs it took part
// in are still rewarded (the pillar contract's cursor keeps up), and two followers - one of them answering read-only consensus
// queries between deliveries - accept the producer's chain and end in its state (C11: a function of the chain alone).
func revokedPillar(a dustArg) (*scenarioResult, error) {
	walk.LabConstants()
	// six election periods to the epoch here (the lab's usual epoch has two): a pillar that leaves the elections is then present
	// in some periods of an epoch and absent from the later ones
	const epochM = 180
	consensus.EpochDuration = 30 * time.Minute
	constants.MomentumsPerEpoch = epochM
	verifier.ReceiverMismatchEnforcementHeight = 1
	res := &scenarioResult{}
	find := func(key, format string, args ...interface{}) {
		res.Findings = append(res.Findings, [2]string{key, fmt.Sprintf(format, args...)})
	}
	node.Clock.Set(time.Unix(1000000000, 0))
	cap := ledger.StartCapture()
	defer cap.Stop()
	p, err := node.New("revoked-pillar", node.Options{Producer: true})
	if err != nil {
		return nil, err
	}
	defer p.Stop()
	key := g.Pillar4
	call := func(what string, tok types.ZenonTokenStandard, amt *big.Int, data []byte) error {
		if _, err := p.Submit(&nom.AccountBlock{BlockType: nom.BlockTypeUserSend, Address: key.Address, ToAddress: types.PillarContract, TokenStandard: tok, Amount: amt, Data: data}, key); err != nil {
			return fmt.Errorf("revoked-pillar scenario: %s refused: %v", what, err)
		}
		return nil
	}
	if err := call("deposit", types.QsrTokenStandard, unitsOf(160000), definition.ABIPillars.PackMethodPanic(definition.DepositQsrMethodName)); err != nil {
		return nil, err
	}
	if err := p.ProduceN(3); err != nil {
		return nil, err
	}
	if err := call("register", types.ZnnTokenStandard, constants.PillarStakeAmount,
		definition.ABIPillars.PackMethodPanic(definition.RegisterMethodName, g.Pillar4Name, key.Address, g.User3.Address, uint8(10), uint8(50))); err != nil {
		return nil, err
	}
	if err := p.ProduceN(3); err != nil {
		return nil, err
	}
	// weight behind the new pillar, and a delegation that will move in mid-epoch: the pillars' weights differ from period to period
	delegate := func(u *wallet.KeyPair, name string) {
		p.Submit(&nom.AccountBlock{BlockType: nom.BlockTypeUserSend, Address: u.Address, ToAddress: types.PillarContract, Data: definition.ABIPillars.PackMethodPanic(definition.DelegateMethodName, name)}, u)
	}
	delegate(g.User5, g.Pillar4Name)
	delegate(g.User2, g.Pillar4Name)
	if err := p.ProduceN(2); err != nil {
		return nil, err
	}
	st := func() db.DB {
		return p.Chain.GetFrontierMomentumStore().GetAccountStore(types.PillarContract).Storage()
	}
	info, err := definition.GetPillarInfo(st(), g.Pillar4Name)
	if err != nil || info == nil {
		return nil, fmt.Errorf("revoked-pillar scenario: the pillar was not registered (%v)", err)
	}
	// until it has produced (it is elected two ticks after it appears), then on to its next revoke window, a good way into an epoch
	produced := false
	for i := 0; i < 4*epochM && !produced; i++ {
		if err := p.Produce(0); err != nil {
			return nil, err
		}
		fr := p.Frontier()
		if fr.Producer() == key.Address {
			produced = true
		}
	}
	if !produced {
		return nil, fmt.Errorf("revoked-pillar scenario: the registered pillar never produced")
	}
	for i := 0; i < 2*epochM; i++ {
		t := p.Frontier().Timestamp.Unix()
		inWindow := (t-info.RegistrationTime)%(constants.PillarEpochLockTime+constants.PillarEpochRevokeTime) >= constants.PillarEpochLockTime+10
		// in the first election period of an epoch: the pillar is then elected for the first period and gone from the second
		midEpoch := int(p.Height())%epochM >= 35 && int(p.Height())%epochM <= 100
		if inWindow && midEpoch {
			break
		}
		if err := p.Produce(0); err != nil {
			return nil, err
		}
	}
	delegate(g.User1, g.Pillar2Name) // leaves pillar 1 in mid-epoch
	if err := call("revoke", types.ZeroTokenStandard, big.NewInt(0), definition.ABIPillars.PackMethodPanic(definition.RevokeMethodName, g.Pillar4Name)); err != nil {
		return nil, err
	}
	if err := p.ProduceN(3); err != nil {
		return nil, err
	}
	if info, _ = definition.GetPillarInfo(st(), g.Pillar4Name); info != nil && info.RevokeTime == 0 {
		return nil, fmt.Errorf("revoked-pillar scenario: the revocation did not go through")
	}
	// "never twice": the release is asked for again, in the window that is still open and in every later one
	again := func() {
		call("revoke again", types.ZeroTokenStandard, big.NewInt(0), definition.ABIPillars.PackMethodPanic(definition.RevokeMethodName, g.Pillar4Name))
	}
	again()
	windowOpen := func() bool {
		t := p.Frontier().Timestamp.Unix()
		return (t-info.RegistrationTime)%(constants.PillarEpochLockTime+constants.PillarEpochRevokeTime) >= constants.PillarEpochLockTime+10
	}
	askedInWindow := true
	tickNow := func() int64 {
		return int64(p.Cons.FrontierPillarReader().EpochTicker().ToTick(*p.Frontier().Timestamp))
	}
	revokedIn := tickNow()
	var perr error
	for i := 0; i < 5*epochM && (tickNow() < revokedIn+3 || i%epochM < 2*walk.UpdateMomentums); i++ {
		if perr = p.Produce(0); perr != nil {
			break
		}
		if open := windowOpen(); open && !askedInWindow {
			again()
			askedInWindow = true
		} else if !open {
			askedInWindow = false
		}
		if tickNow() >= revokedIn+3 && int(p.Height())%epochM > 2*walk.UpdateMomentums+5 {
			break
		}
	}
	if perr != nil {
		find("producer-stops", "the producing node cannot produce: %v (problems %v)", perr, p.Problems)
	}
	w := walk.New(p, a.Seed)
	w.Drain(40)
	for _, pb := range p.Problems {
		find("producer-problem", "producing pillar reported: %s", pb)
	}
	last, err := definition.GetLastEpochUpdate(st())
	cur := int64(p.Cons.FrontierPillarReader().EpochTicker().ToTick(*p.Frontier().Timestamp))
	if err != nil || int64(last.LastEpoch) < revokedIn+1 {
		find("pillar-rewards-stop-after-a-revocation", "a pillar that had produced was revoked in epoch %d; epoch %d is running now and the pillar contract has rewarded up to epoch %d only: the epochs the pillar took part in are never rewarded", revokedIn, cur, last.LastEpoch)
	}
	// two followers
	all, err := p.Detailed(2, p.Height())
	if err != nil {
		return nil, err
	}
	want := p.Dump()
	wantStats := consStats(p)
	node.Clock.Set(p.Frontier().Timestamp.Add(time.Hour))
	for _, queries := range []bool{false, true} {
		f, err := node.New("revoked-pillar-follower", node.Options{})
		if err != nil {
			return nil, err
		}
		step := 9
		if queries {
			step = 1
		}
		ok := true
		for i := 0; i < len(all) && ok; i += step {
			j := i + step
			if j > len(all) {
				j = len(all)
			}
			if queries {
				readOnlyQueries(f)
			}
			if idx, err := f.InsertChain(wireAll(all[i:j])); err != nil {
				find(fmt.Sprintf("follower-refuses-producer-chain-queries-%v", queries), "a follower (read-only consensus queries between deliveries: %v) refuses momentum %d of the producer's chain: %v - what a node credits depends on what it was asked before", queries, 2+i+idx, err)
				ok = false
			}
		}
		if ok {
			if got := consStats(f); got != wantStats {
				find(fmt.Sprintf("follower-consensus-statistics-differ-queries-%v", queries), "a follower (queries: %v) that accepted the producer's chain serves other consensus statistics than the producer: %s", queries, firstDiff(wantStats, got))
			}
		}
		if ok && f.Dump() != want {
			find(fmt.Sprintf("follower-state-differs-queries-%v", queries), "a follower (queries: %v) ends in another state than the producer: %s", queries, firstDiff(want, f.Dump()))
		}
		f.Stop()
	}
	ids := cap.ChainIDs()
	if len(ids) < 1 {
		return nil, fmt.Errorf("no chain in capture")
	}
	pr := ledger.NewProjector()
	pr.Observer = ledger.StandardObserver(epochM)
	if err := cap.Project(ids[0], pr); err != nil {
		return nil, err
	}
	name := fmt.Sprintf("revoked-pillar scenario seed=%d enforced=true", a.Seed)
	res.Run = ledgerRun{Name: name, Events: pr.Events, Note: pr.Note}
	res.Stats = fmt.Sprintf("%s: %d momentums, %d blocks, pillar contract rewarded up to epoch %d of %d", name, pr.Momentums, pr.Blocks, last.LastEpoch, cur)
	return res, nil
}

// liquidityFirstStake: the first liquidity stake of a configured token arrives just after an epoch has ended and before that
// epoch is paid: the token then has stake entries, all of weight zero in the epoch being paid. The update is still received.
func liquidityFirstStake(a dustArg) (*scenarioResult, error) {
	walk.LabConstants()
	verifier.ReceiverMismatchEnforcementHeight = 1
	res := &scenarioResult{}
	find := func(key, format string, args ...interface{}) {
		res.Findings = append(res.Findings, [2]string{key, fmt.Sprintf(format, args...)})
	}
	node.Clock.Set(time.Unix(1000000000, 0))
	cap := ledger.StartCapture()
	defer cap.Stop()
	p, err := node.New("liquidity-first-stake", node.Options{Producer: true})
	if err != nil {
		return nil, err
	}
	defer p.Stop()
	f := &cellFixture{n: p, w: walk.New(p, a.Seed), reasons: map[string]int{}}
	if err := f.prepare(); err != nil {
		return nil, err
	}
	for int(p.Height())%walk.EpochMomentums != 1+int(a.Seed%2) {
		if err := p.Produce(0); err != nil {
			return nil, err
		}
	}
	stake := func(u *wallet.KeyPair, tok types.ZenonTokenStandard) {
		if f.send(u, types.LiquidityContract, tok, unitsOf(1), definition.ABILiquidity.PackMethodPanic(definition.LiquidityStakeMethodName, constants.StakeTimeMinSec)) == nil {
			find("fixture", "liquidity stake of %v refused at send time (%v)", tok, f.reasons)
		}
	}
	stake(g.User1, f.token)
	var perr error
	for i := 0; i < walk.EpochMomentums+2*walk.UpdateMomentums; i++ {
		if perr = p.Produce(0); perr != nil {
			break
		}
		if i == walk.EpochMomentums-2 {
			stake(g.User2, f.foreignToken) // and the other token's first stake just before the next epoch ends
		}
	}
	if perr != nil {
		find("producer-stops", "the producing node cannot produce: %v (problems %v)", perr, p.Problems)
	}
	if drained, err := f.w.Drain(40); err != nil || !drained {
		find("inbox-not-drained", "the contract inboxes do not drain (%v)", err)
	}
	for _, pb := range p.Problems {
		find("producer-problem", "producing pillar reported: %s", pb)
	}
	n := 0
	definition.IterateLiquidityStakeEntries(p.Chain.GetFrontierMomentumStore().GetAccountStore(types.LiquidityContract).Storage(), func(*definition.LiquidityStakeEntry) error { n++; return nil })
	if n == 0 {
		return nil, fmt.Errorf("liquidity scenario: no stake entry was created")
	}
	ids := cap.ChainIDs()
	if len(ids) != 1 {
		return nil, fmt.Errorf("expected one chain in capture, got %v", ids)
	}
	pr := ledger.NewProjector()
	pr.Observer = ledger.StandardObserver(walk.EpochMomentums)
	if err := cap.Project(ids[0], pr); err != nil {
		return nil, err
	}
	name := fmt.Sprintf("liquidity first-stake scenario seed=%d enforced=true", a.Seed)
	res.Run = ledgerRun{Name: name, Events: pr.Events, Note: pr.Note}
	res.Stats = fmt.Sprintf("%s: %d momentums, %d blocks, %d liquidity stake entries", name, pr.Momentums, pr.Blocks, n)
	return res, nil
}

// liquidityDelisted: a liquidity stake is locked; the administrator takes its token off the list; the owner asks for the stake
// back before, at and after its expiry. The lock holds whatever the list says (C10: never earlier than its lock allows) - decided
// by ReleasedRight on the validated trace.
func liquidityDelisted(a dustArg) (*scenarioResult, error) {
	walk.LabConstants()
	verifier.ReceiverMismatchEnforcementHeight = 1
	res := &scenarioResult{}
	find := func(key, format string, args ...interface{}) {
		res.Findings = append(res.Findings, [2]string{key, fmt.Sprintf(format, args...)})
	}
	node.Clock.Set(time.Unix(1000000000, 0))
	cap := ledger.StartCapture()
	defer cap.Stop()
	p, err := node.New("liquidity-delisted", node.Options{Producer: true})
	if err != nil {
		return nil, err
	}
	defer p.Stop()
	f := &cellFixture{n: p, w: walk.New(p, a.Seed), reasons: map[string]int{}}
	if err := f.prepare(); err != nil {
		return nil, err
	}
	lock := constants.StakeTimeMinSec * 4 // 240 s = 24 momentums
	st := f.send(g.User1, types.LiquidityContract, f.token, unitsOf(3), definition.ABILiquidity.PackMethodPanic(definition.LiquidityStakeMethodName, lock))
	if st == nil {
		return nil, fmt.Errorf("liquidity-delisted scenario: stake refused (%v)", f.reasons)
	}
	if err := p.ProduceN(3); err != nil {
		return nil, err
	}
	staked := p.Height()
	// the list now holds the other token only (two-step time challenge)
	tuple := definition.ABILiquidity.PackMethodPanic(definition.SetTokenTupleMethodName, []string{f.foreignToken.String()}, []uint32{10000}, []uint32{10000}, []*big.Int{big.NewInt(2000)})
	f.send(g.User5, types.LiquidityContract, types.ZeroTokenStandard, big.NewInt(0), tuple)
	if err := p.ProduceN(int(constants.MinSoftDelay) + 4); err != nil {
		return nil, err
	}
	f.send(g.User5, types.LiquidityContract, types.ZeroTokenStandard, big.NewInt(0), tuple)
	if err := p.ProduceN(2); err != nil {
		return nil, err
	}
	li, err := definition.GetLiquidityInfo(p.Chain.GetFrontierMomentumStore().GetAccountStore(types.LiquidityContract).Storage())
	if err != nil || len(li.TokenTuples) != 1 {
		return nil, fmt.Errorf("liquidity-delisted scenario: the token was not taken off the list (%v)", err)
	}
	cancel := definition.ABILiquidity.PackMethodPanic(definition.CancelLiquidityStakeMethodName, st.Hash)
	asked := 0
	for p.Height() < staked+uint64(lock/10)+8 {
		if (p.Height()-staked)%5 == 0 || p.Height() >= staked+uint64(lock/10)-2 {
			if f.send(g.User1, types.LiquidityContract, types.ZeroTokenStandard, big.NewInt(0), cancel) != nil {
				asked++
			}
		}
		if err := p.Produce(0); err != nil {
			find("producer-stops", "the producing node cannot produce: %v (problems %v)", err, p.Problems)
			break
		}
	}
	if drained, err := f.w.Drain(40); err != nil || !drained {
		find("inbox-not-drained", "the contract inboxes do not drain (%v)", err)
	}
	for _, pb := range p.Problems {
		find("producer-problem", "producing pillar reported: %s", pb)
	}
	left := 0
	definition.IterateLiquidityStakeEntries(p.Chain.GetFrontierMomentumStore().GetAccountStore(types.LiquidityContract).Storage(), func(e *definition.LiquidityStakeEntry) error {
		if e.Id == st.Hash && e.Amount.Sign() > 0 {
			left++
		}
		return nil
	})
	if left != 0 {
		find("matured-stake-of-a-delisted-token-not-released", "the stake of the delisted token is still held %d momentums after its expiry although its owner asked for it %d times", p.Height()-staked-uint64(lock/10), asked)
	}
	ids := cap.ChainIDs()
	if len(ids) != 1 {
		return nil, fmt.Errorf("expected one chain in capture, got %v", ids)
	}
	pr := ledger.NewProjector()
	pr.Observer = ledger.StandardObserver(walk.EpochMomentums)
	if err := cap.Project(ids[0], pr); err != nil {
		return nil, err
	}
	name := fmt.Sprintf("liquidity delisted-token scenario seed=%d enforced=true", a.Seed)
	res.Run = ledgerRun{Name: name, Events: pr.Events, Note: pr.Note}
	res.Stats = fmt.Sprintf("%s: %d momentums, %d blocks, the stake was asked back %d times", name, pr.Momentums, pr.Blocks, asked)
	return res, nil
}
