package checks

import (
	"encoding/json"
	"fmt"
	"math/big"
	"math/rand"
	"os"
	"sync"
	"time"

	"github.com/zenon-network/go-zenon/chain/nom"
	"github.com/zenon-network/go-zenon/common/types"
	"github.com/zenon-network/go-zenon/p2p"
	"github.com/zenon-network/go-zenon/p2p/discover"
	"github.com/zenon-network/go-zenon/protocol"

	"verif/lab/core"
	"verif/lab/node"
	"verif/lab/walk"
)

// GossipSession.tla replayed over TCP/RLPx against the real ProtocolManager and fetcher: a remote at the node's own height
// pushes a momentum or announces hashes, the node asks for what it does not know, the remote answers by class.

type gossipStep struct {
	K   string `json:"k"`
	A   string `json:"a"`
	Has bool   `json:"has"`
}
type gossipBehaviour struct {
	Steps []gossipStep `json:"steps"`
}

func (b gossipBehaviour) key() string { js, _ := json.Marshal(b.Steps); return string(js) }

type gossipArg struct {
	Behaviours []gossipBehaviour
	Seed       int64
	Progress   string
}

func init() {
	core.RegisterChild("gossip-session", func(arg json.RawMessage) (interface{}, error) {
		var a gossipArg
		if err := json.Unmarshal(arg, &a); err != nil {
			return nil, err
		}
		node.Quiet()
		return gossipChild(a)
	})
}

func gossipChild(a gossipArg) (*syncSessResult, error) {
	walk.LabConstants()
	r := rand.New(rand.NewSource(a.Seed))
	res := &syncSessResult{Outcomes: map[string]int{}}
	src, err := node.New("gossip-source", node.Options{Producer: true})
	if err != nil {
		return nil, err
	}
	defer src.Stop()
	if err := src.ProduceN(40); err != nil {
		return nil, err
	}
	n, err := node.New("gossip-node", node.Options{})
	if err != nil {
		return nil, err
	}
	defer n.Stop()
	base, err := src.Detailed(2, src.Height())
	if err != nil {
		return nil, err
	}
	if _, err := n.InsertChain(wireAll(base)); err != nil {
		return nil, err
	}
	pm := protocol.NewProtocolManager(1, n.Chain.ChainIdentifier(), n.Bridge)
	pm.Start()
	key := newKey(r)
	srv := &p2p.Server{PrivateKey: key, MaxPeers: 200, MaxPendingPeers: 200, Name: "lab-node", Protocols: pm.SubProtocols, ListenAddr: "127.0.0.1:0", NoDial: true}
	if err := srv.Start(); err != nil {
		return nil, fmt.Errorf("p2p server: %v", err)
	}
	ws := &wireServer{srv: srv, id: discover.PubkeyID(&key.PublicKey), genesis: n.Genesis.GetGenesisMomentum().Hash, chainID: n.Chain.ChainIdentifier()}
	waitHeight := func(h uint64, d time.Duration) bool {
		deadline := time.Now().Add(d)
		for time.Now().Before(deadline) {
			if n.Height() >= h {
				return true
			}
			time.Sleep(50 * time.Millisecond)
		}
		return n.Height() >= h
	}
	wire := func(h uint64) *nom.DetailedMomentum {
		dm := src.Bridge.GetBlock(src.MomentumAt(h).Hash)
		w, _ := node.Wire(dm)
		return w
	}
	for i, b := range a.Behaviours {
		if a.Progress != "" {
			os.WriteFile(a.Progress, []byte(fmt.Sprintf("%d %s", i, b.key())), 0o644)
		}
		label := b.key()
		mis := func(key, format string, args ...interface{}) {
			res.Mismatches = append(res.Mismatches, [2]string{key, fmt.Sprintf(format, args...) + " (behaviour " + label + ")"})
		}
		if n.Height() != src.Height() {
			return nil, fmt.Errorf("gossip replay: node at %d, source at %d before a behaviour", n.Height(), src.Height())
		}
		h := n.Height()
		oldHead := n.Frontier().Hash
		// M: the genuine next momentum, with an account block in it
		if _, err := src.Submit(&nom.AccountBlock{BlockType: nom.BlockTypeUserSend, Address: syncVariantUsers["a"][0].Address, ToAddress: syncVariantUsers["a"][1].Address,
			TokenStandard: types.ZnnTokenStandard, Amount: big.NewInt(1)}, syncVariantUsers["a"][0]); err != nil {
			return nil, err
		}
		if err := src.Produce(0); err != nil {
			return nil, err
		}
		node.Clock.Set(src.Frontier().Timestamp.Add(time.Minute))
		M := wire(h + 1)
		ann := b.Steps[0].A
		plan := map[string]string{}
		if len(b.Steps) > 1 {
			plan["blocks-1"] = b.Steps[1].A
		}
		if ann == "push-bad-signature" || ann == "push-wrong-producer" || ann == "push-orphans-then-valid" {
			// a pushed momentum above the remote's announced height makes the node synchronise with the remote; this remote
			// does not answer the synchronisation's requests, so the genuine momentum cannot arrive that way
			for _, st := range []string{"hashes-1", "hashes-2", "search-1", "search-2", "blocks-1"} {
				plan[st] = "silent"
			}
		}
		if ann == "hash-orphans-then-valid" {
			// requests for momentums are answered (that is how the orphans arrive), the synchronisation's hash requests are not
			for _, st := range []string{"hashes-1", "hashes-2", "search-1", "search-2"} {
				plan[st] = "silent"
			}
		}
		remoteKey := newKey(r)
		sr, err := newSyncRemoteAs(ws, src, plan, r, h, remoteKey) // announces the node's own height: no synchronisation is started
		if err != nil {
			mis("node-does-not-accept-a-remote", "%v", err)
			break
		}
		time.Sleep(200 * time.Millisecond)
		switch ann {
		case "push-valid":
			sr.send(7, M)
		case "push-bad-signature":
			M.Momentum.Signature = append([]byte{}, M.Momentum.Signature...)
			M.Momentum.Signature[5] ^= 0x40
			sr.send(7, M)
		case "push-wrong-producer":
			corrupt([]*nom.DetailedMomentum{M}, "wrong-producer")
			sr.send(7, M)
		case "push-known":
			sr.send(7, wire(h-3))
		case "hash-orphans-then-valid":
			sr.extra = map[types.Hash]*nom.DetailedMomentum{}
			var hs []types.Hash
			for k := 0; k < 64; k++ {
				o := wire(h + 1)
				o.Momentum.PreviousHash = types.NewHash([]byte(fmt.Sprint("no such predecessor", i, k, r.Int())))
				o.Momentum.Hash = o.Momentum.ComputeHash()
				sr.extra[o.Momentum.Hash] = o
				hs = append(hs, o.Momentum.Hash)
			}
			sr.send(1, hs)
			time.Sleep(3 * time.Second) // the arrival time-out, the node's requests, the answers, sixty-four imports given up
			sr.send(7, M)
		case "push-orphans-then-valid":
			for k := 0; k < 64; k++ {
				o := wire(h + 1)
				o.Momentum.PreviousHash = types.NewHash([]byte(fmt.Sprint("no such predecessor", i, k, r.Int())))
				o.Momentum.Hash = o.Momentum.ComputeHash()
				sr.send(7, o)
			}
			// a pushed momentum above the remote's announced height makes the node synchronise with it; this remote does not answer,
			// the node gives the synchronisation up and drops it. The same remote (same key, same peer to the node) comes back
			// and pushes the genuine momentum: it is taken - what could not be imported has not used up the remote's allowance
			if !sr.ended(40 * time.Second) {
				sr.close()
				sr.ended(3 * time.Second)
			}
			time.Sleep(500 * time.Millisecond)
			sr, err = newSyncRemoteAs(ws, src, plan, r, h, remoteKey)
			if err != nil {
				mis("node-does-not-accept-a-remote", "the remote that pushed orphans is not accepted again: %v", err)
				return res, nil
			}
			time.Sleep(200 * time.Millisecond)
			sr.send(7, M)
		case "hash-valid":
			sr.send(1, []types.Hash{M.Momentum.Hash})
		case "hash-valid-twice":
			sr.send(1, []types.Hash{M.Momentum.Hash, M.Momentum.Hash})
			sr.send(1, []types.Hash{M.Momentum.Hash})
		case "hash-unknown":
			sr.send(1, []types.Hash{types.NewHash([]byte(fmt.Sprint("no such momentum", i, r.Int())))})
		case "hash-many":
			hs := make([]types.Hash, 300)
			for k := range hs {
				hs[k] = types.NewHash([]byte(fmt.Sprint("announced", i, k, r.Int())))
			}
			sr.send(1, hs)
		case "hash-known":
			sr.send(1, []types.Hash{src.MomentumAt(h - 2).Hash, oldHead})
		default:
			return nil, fmt.Errorf("gossip replay: unknown announcement %q", ann)
		}
		want := b.Steps[len(b.Steps)-1].Has
		got := false
		if want {
			got = waitHeight(h+1, 20*time.Second)
		} else {
			// long enough for the arrival time-out, the request and the import of whatever came back
			got = waitHeight(h+1, 2500*time.Millisecond)
		}
		res.Outcomes[fmt.Sprintf("%s -> holds M: %v", label, got)]++
		head := n.Frontier().Hash
		switch {
		case got != want && want:
			mis("honest-gossip-not-imported-"+ann, "the genuine next momentum reached the node (%s) and is not imported within 20 s", ann)
		case got != want:
			mis("imported-without-the-genuine-momentum-"+ann, "the node moved to height %d although the genuine momentum never reached it", n.Height())
		}
		if head != oldHead && head != src.Frontier().Hash {
			mis("holds-a-momentum-nobody-produced-"+ann, "the node's frontier %v is neither its old one nor the source's", head)
		}
		sr.close()
		sr.ended(3 * time.Second)
		// afterwards: the node is synchronised with by a well-behaved remote (which announces the source's height), and a
		// genuine push by yet another remote is imported
		okc := false
		for attempt := 0; attempt < 3 && !okc; attempt++ {
			good, err := newSyncRemote(ws, src, map[string]string{}, r, src.Height())
			if err != nil {
				time.Sleep(time.Second)
				continue
			}
			if n.Height() < src.Height() {
				okc = waitHeight(src.Height(), 45*time.Second)
			} else {
				okc = true
			}
			if okc {
				if err := src.Produce(0); err != nil {
					return nil, err
				}
				node.Clock.Set(src.Frontier().Timestamp.Add(time.Minute))
				good.send(7, wire(src.Height()))
				okc = waitHeight(src.Height(), 20*time.Second)
			}
			good.close()
			good.ended(3 * time.Second)
		}
		if !okc {
			mis("node-no-longer-takes-gossip-after-"+ann, "after the exchange three well-behaved remotes in a row neither synchronise the node nor get a genuine pushed momentum imported (node %d, source %d)", n.Height(), src.Height())
			break
		}
		if n.Frontier().Hash != src.Frontier().Hash {
			mis("node-on-another-chain-after-"+ann, "node and source are at the same height with different frontiers")
			break
		}
		res.Done++
	}
	return res, nil
}

func gossipCheck(run *core.Run) {
	cfg := "CONSTANTS\n  WithHist = %s\nINIT Init\nNEXT Next\n%s\nCHECK_DEADLOCK FALSE\n"
	res, err := core.RunTLC(core.TLCOpts{Module: "GossipSession", CfgText: fmt.Sprintf(cfg, "FALSE", "INVARIANTS NodeAlive OnlyGenuineImported HonestGossipWorks"), Timeout: 5 * time.Minute})
	if err != nil || res.Violated != "" || res.Err != "" {
		core.Fatal("GossipSession: %v %s %s", err, res.Violated, res.Err)
	}
	run.States += res.Distinct
	run.Transitions += res.Generated
	var behaviours []gossipBehaviour
	seen := map[string]bool{}
	_, err = core.RunTLC(core.TLCOpts{Module: "GossipSession", CfgText: fmt.Sprintf(cfg, "TRUE", "VIEW GenView\nACTION_CONSTRAINT EmitEdge"), Workers: 1, Timeout: 5 * time.Minute,
		OnLine: func(line string) {
			if js, ok := core.ParseB(line, "B"); ok {
				var b gossipBehaviour
				if json.Unmarshal([]byte(js), &b) == nil && !seen[b.key()] {
					seen[b.key()] = true
					behaviours = append(behaviours, b)
				}
			}
		}})
	if err != nil || len(behaviours) < 20 {
		core.Fatal("GossipSession generation: %v (%d behaviours)", err, len(behaviours))
	}
	if run.Thorough() {
		// every exchange three times (other neighbours in the child, other random hashes)
		behaviours = append(append(append([]gossipBehaviour{}, behaviours...), behaviours...), behaviours...)
	}
	const parts = 6
	dir, err := os.MkdirTemp(core.Scratch(), "gossip-")
	if err != nil {
		core.Fatal("%v", err)
	}
	defer os.RemoveAll(dir)
	args := make([]gossipArg, parts)
	for i, b := range behaviours {
		k := (i + int(run.Seed) + i/29) % parts
		args[k].Behaviours = append(args[k].Behaviours, b)
	}
	outs := make([]syncSessResult, parts)
	crashes := make([]*core.Crash, parts)
	errs := make([]error, parts)
	var wg sync.WaitGroup
	for i := range args {
		args[i].Seed = run.Seed*10 + int64(i)
		args[i].Progress = fmt.Sprintf("%s/progress-%d", dir, i)
		wg.Add(1)
		go func(i int) {
			defer wg.Done()
			crashes[i], errs[i] = core.Child("gossip-session", args[i], &outs[i], 20*time.Minute)
		}(i)
	}
	wg.Wait()
	outcomes := map[string]int{}
	for i := range args {
		if errs[i] != nil {
			core.Fatal("%v", errs[i])
		}
		if c := crashes[i]; c != nil {
			prog, _ := os.ReadFile(args[i].Progress)
			run.Report("C15:node-terminated-"+c.Key(), fmt.Sprintf("the node process died (%s) during the gossip exchange %s", c.String(), tail(string(prog), 400)),
				map[string]interface{}{"kind": "gossip-session", "behaviour": string(prog), "stderr_tail": c.Text})
			continue
		}
		for _, m := range outs[i].Mismatches {
			run.Report("C15:"+m[0], m[1], map[string]interface{}{"kind": "gossip-session", "what": m[1]})
		}
		run.Traces += int64(outs[i].Done)
		for k, v := range outs[i].Outcomes {
			outcomes[k] += v
		}
	}
	run.Set("gossip_sessions", fmt.Sprintf("%d behaviours of GossipSession.tla (every announcement, every pair of announced hash and answer) replayed over TCP/RLPx against the real ProtocolManager and fetcher; after each one the node must be synchronised with by a well-behaved remote and import a genuine pushed momentum", len(behaviours)))
	run.Set("gossip_session_outcomes", outcomes)
}

// DebugGossip is used by cmd/dbg2: every behaviour, in this process.
func DebugGossip(seed int64, only string) string {
	node.Quiet()
	var bs []gossipBehaviour
	for _, a := range []string{"push-valid", "push-bad-signature", "push-wrong-producer", "push-known", "hash-known", "push-orphans-then-valid", "hash-orphans-then-valid"} {
		bs = append(bs, gossipBehaviour{Steps: []gossipStep{{K: "announce", A: a, Has: a == "push-valid" || a == "push-orphans-then-valid" || a == "hash-orphans-then-valid"}}})
	}
	for _, a := range []string{"hash-valid", "hash-valid-twice", "hash-unknown", "hash-many"} {
		for _, b := range []string{"correct", "unrequested", "tampered-signature", "garbage", "empty", "silent"} {
			bs = append(bs, gossipBehaviour{Steps: []gossipStep{{K: "announce", A: a}, {K: "answer", A: b, Has: (a == "hash-valid" || a == "hash-valid-twice") && b == "correct"}}})
		}
	}
	if only != "" {
		var f []gossipBehaviour
		for _, b := range bs {
			if b.Steps[0].A == only {
				f = append(f, b)
			}
		}
		bs = f
	}
	t0 := time.Now()
	res, err := gossipChild(gossipArg{Behaviours: bs, Seed: seed})
	js, _ := json.MarshalIndent(res, "", " ")
	return fmt.Sprint(string(js), err, time.Since(t0))
}
