package checks

import "verif/lab/core"

// C06 — reorganisation leaves no trace of the abandoned branch.
func C06(run *core.Run) {
	run.Assume = []string{
		"store half: VStore.tla (PopExact, PatchesMatch, FreshViewRight after Pop) checked exhaustively and replayed by C07; node half: every Sync.tla behaviour ends with the comparison against a node that only ever saw the adopted chain",
		"historical views are requested for every element before every delivery (warm caches), fork depths 1..3 abstract = 15..45 real momentums",
		"consensus statistics are compared through GetMomentumProducer of the next slots and through the per-epoch statistics, weights and delegations a node serves",
	}
	vsModelCheck(run, 3, 1, "abcde")
	every := int64(40)
	if run.Thorough() {
		every = 3
	}
	syncCheck(run, 4, 15, 2, every, syncOpts{label: "pass1(unit 15) ", warmViews: true})
	// a second pass with single-momentum elements: fork depth exactly 1, 2, 3 real momentums
	syncCheck(run, 4, 1, 30, every, syncOpts{label: "pass2(unit 1, local dependent block) ", warmViews: true, local: true})
	// a third pass with two silent election periods before every element: rollbacks end inside ticks and epochs that had been
	// finished on the abandoned branch (F24), branches elect from different proof momentums
	syncCheck(run, 4, 1, 30, every, syncOpts{label: "pass3(two election periods between elements) ", gap: 61})
	run.Finish()
}
