package checks

import (
	"fmt"
	"time"

	"verif/lab/core"
	"verif/lab/node"
	"verif/lab/walk"
)

// C02 — replay determinism: same momentums in, byte-identical ledger out.
func C02(run *core.Run) {
	run.Assume = []string{
		"delivery schedules (batch boundaries, overlaps, re-deliveries, forks) are enumerated by TLC on Sync.tla over short abstract histories and replayed with gossip-first and restarts; long histories (all contracts, rewards across epochs) are delivered under a fixed list of schedules",
		"equality is byte equality of the logical store content (frontier and historical views) plus InsertChain returning (0, nil)",
	}
	every := int64(40)
	if run.Thorough() {
		every = 3
	}
	// schedules from the specification: gossip before the momentum, restarts between deliveries
	syncCheck(run, 4, 1, 30, every, syncOpts{label: "pass1(gossip,restart) ", gossip: true, restart: true})
	// a rival of the batch's first block (same account and height) is pooled before the batch arrives
	syncCheck(run, 3, 1, 30, every/2, syncOpts{label: "pass2(rival block) ", rival: true})
	// forks across an epoch end, followed by the reward update computed by the follower
	syncCheckP(run, 4, 15, 2, every*2, syncOpts{label: "pass3(forks across an epoch end) ", warmViews: true}, 30)
	c02Walk(run)
	// a producer that went through a reorganisation keeps producing: a fresh node must accept what it builds (reorg.go)
	n := 3
	if run.Thorough() {
		n = 12
	}
	rr := reorgRuns(run, "C02", n)
	run.Traces += int64(len(rr))
	run.Finish()
}

// c02Walk: a long seeded history on a producer, delivered to fresh followers under different schedules.
func c02Walk(run *core.Run) {
	walk.LabConstants()
	node.Clock.Set(time.Unix(1000000000, 0))
	p, err := node.New("producer", node.Options{Producer: true})
	if err != nil {
		core.Fatal("%v", err)
	}
	defer p.Stop()
	w := walk.New(p, run.Seed+77)
	if id, err := w.ActivateSpork("spork-htlc"); err == nil {
		setHtlcSpork(id)
		w.HtlcOn = true
	}
	n := 160
	if run.Thorough() {
		n = 400
	}
	// a third of the way in the network falls silent across an epoch end (the last ticks of an epoch without a momentum)
	if err := w.Run(n / 3); err != nil {
		core.Fatal("C02 walk: %v", err)
	}
	if err := p.Produce(walk.EpochMomentums - int(p.Height())%walk.EpochMomentums + 7); err != nil {
		core.Fatal("C02 walk (silence): %v", err)
	}
	w.Stalls = true
	if err := w.Run(n - n/3); err != nil {
		core.Fatal("C02 walk: %v", err)
	}
	w.Drain(40)
	top := p.Height()
	all, err := p.Detailed(2, top)
	if err != nil {
		core.Fatal("%v", err)
	}
	want := p.Dump()
	histHeights := []uint64{2, top / 4, top / 2, top - 31, top - 1}
	wantHist := map[uint64]string{}
	for _, h := range histHeights {
		d, ok := p.DumpAt(p.MomentumAt(h).Identifier())
		if !ok {
			core.Fatal("producer cannot serve a view at %d", h)
		}
		wantHist[h] = d
	}
	node.Clock.Set(p.Frontier().Timestamp.Add(time.Hour))
	type sched struct {
		name    string
		batch   func(i int) int
		gossip  bool
		overlap int
		restart int  // restart after this many momentums (0 = never)
		queries bool // read-only ledger and consensus queries between the deliveries
	}
	scheds := []sched{
		{"one batch", func(int) int { return len(all) }, false, 0, 0, false},
		{"batches of 7", func(int) int { return 7 }, false, 0, 0, false},
		{"one by one, account blocks gossiped first", func(int) int { return 1 }, true, 0, 0, false},
		{"batches of 13, restart in the middle", func(int) int { return 13 }, false, 0, len(all) / 2, false},
		{"batches of 10 overlapping by 3", func(int) int { return 10 }, false, 3, 0, false},
		{"growing batches 1,2,3,.. gossip first", func(i int) int { return i + 1 }, true, 0, 0, false},
		{"one by one, queries between the deliveries", func(int) int { return 1 }, false, 0, 0, true},
		{"batches of 5, queries between the deliveries, restart in the middle", func(int) int { return 5 }, false, 0, len(all) / 2, true},
	}
	var blocks int
	for _, dm := range all {
		blocks += len(dm.AccountBlocks)
	}
	run.Set("walk_history", fmt.Sprintf("%d momentums, %d account blocks, methods %v", len(all), blocks, w.Methods))
	for _, sc := range scheds {
		f, err := node.New("follower", node.Options{})
		if err != nil {
			core.Fatal("%v", err)
		}
		rep := map[string]interface{}{"kind": "walk-delivery", "schedule": sc.name, "walk_seed": run.Seed + 77, "momentums": len(all)}
		pos, bi := 0, 0
		failed := false
		for pos < len(all) && !failed {
			size := sc.batch(bi)
			bi++
			from := pos - sc.overlap
			if from < 0 {
				from = 0
			}
			to := pos + size
			if to > len(all) {
				to = len(all)
			}
			var batch = make([]*nomDM, 0)
			_ = batch
			wire := wireAll(all[from:to])
			if sc.queries {
				readOnlyQueries(f)
			}
			if sc.gossip {
				for _, dm := range wire {
					for _, b := range dm.AccountBlocks {
						c, _ := node.WireBlock(b)
						f.Offer(c)
					}
				}
			}
			idx, err := f.InsertChain(wire)
			if err != nil || idx != 0 {
				run.Report("C02:follower-rejects-producer-momentum", fmt.Sprintf("schedule %q: InsertChain of momentums %d..%d returned (%d, %v): a momentum produced and accepted by an honest node is refused by a follower holding its predecessor", sc.name, from+2, to+1, idx, err), rep)
				failed = true
			}
			if sc.restart > 0 && pos < sc.restart && to >= sc.restart {
				dir := f.Dir
				f.StopKeepDir()
				nf, err := node.New("follower-r", node.Options{Dir: dir})
				if err != nil {
					core.Fatal("restart: %v", err)
				}
				nf.OwnDir()
				f = nf
			}
			pos = to
		}
		if !failed {
			if got := f.Dump(); got != want {
				run.Report("C02:state-differs", fmt.Sprintf("schedule %q: same momentums, different ledger state: %s", sc.name, firstDiff(want, got)), rep)
			}
			for _, h := range histHeights {
				d, ok := f.DumpAt(p.MomentumAt(h).Identifier())
				if !ok || d != wantHist[h] {
					run.Report("C02:historical-view-differs", fmt.Sprintf("schedule %q: view at height %d differs from the producer's (available=%v): %s", sc.name, h, ok, firstDiff(wantHist[h], d)), rep)
				}
			}
			if np := len(f.Chain.GetAllUncommittedAccountBlocks()); np != 0 {
				run.Report("C02:pool-not-empty", fmt.Sprintf("schedule %q: %d blocks left in the follower's pool", sc.name, np), rep)
			}
			run.Count("walk_schedules_delivered", 1)
			run.Traces++
		}
		f.Stop()
	}
}

// readOnlyQueries asks a node what an RPC client or a dashboard asks: nothing here may change what the node accepts next.
func readOnlyQueries(f *node.Node) {
	defer func() { recover() }()
	fr := f.Frontier()
	reader := f.Cons.FrontierPillarReader()
	tick := reader.EpochTicker().ToTick(*fr.Timestamp)
	for e := uint64(0); e <= tick+1; e++ {
		if e+2 < tick {
			continue
		}
		reader.EpochStats(e)
		reader.GetPillarDelegationsByEpoch(e)
	}
	reader.GetPillarWeights()
	if fr.Height > 3 {
		old := f.MomentumAt(fr.Height - 2)
		fixed := f.Cons.FixedPillarReader(old.Identifier())
		fixed.EpochStats(tick)
		fixed.GetPillarWeights()
		f.DumpAt(old.Identifier())
	}
	for i := 1; i <= 3; i++ {
		f.Cons.GetMomentumProducer(fr.Timestamp.Add(time.Duration(10*i) * time.Second))
	}
}
