package checks

import (
	"bytes"
	"crypto/ecdsa"
	"encoding/json"
	"fmt"
	"io"
	"math/big"
	"math/rand"
	"net"
	"os"
	"runtime"
	"strings"
	"sync"
	"time"

	"github.com/ethereum/go-ethereum/crypto"
	"github.com/ethereum/go-ethereum/rlp"
	"github.com/inconshreveable/log15"
	g "github.com/zenon-network/go-zenon/chain/genesis/mock"
	"github.com/zenon-network/go-zenon/chain/nom"
	"github.com/zenon-network/go-zenon/common"
	"github.com/zenon-network/go-zenon/common/types"
	"github.com/zenon-network/go-zenon/p2p"
	"github.com/zenon-network/go-zenon/p2p/discover"
	"github.com/zenon-network/go-zenon/protocol"
	"github.com/zenon-network/go-zenon/vm/embedded/definition"

	"verif/lab/core"
	"verif/lab/node"
	"verif/lab/walk"
)

// WireSession.tla replayed against a real p2p.Server (TCP, RLPx) and a real discovery listener (UDP) on the loopback
// interface, in a child process.

type wireStep struct {
	In    string `json:"in"`
	At    string `json:"at"`
	To    string `json:"to"`
	Reply string `json:"reply"`
}
type wireBehaviour struct {
	Steps []wireStep `json:"steps"`
}

const wireCfg = `CONSTANTS
  MaxMsgs = %d
  WithHist = %s
INIT Init
NEXT Next
%s
CHECK_DEADLOCK FALSE
`

type wireArg struct {
	Behaviours []wireBehaviour
	Seed       int64
	Progress   string
	Pressure   bool // end with pings under scheduler pressure
}
type wireResult struct {
	Mismatches [][2]string
	Done       int
	MaxAlloc   map[string]uint64 // input -> largest allocation observed around it (bytes)
	Replies    map[string]int
}

func init() {
	core.RegisterChild("wire-session", func(arg json.RawMessage) (interface{}, error) {
		var a wireArg
		if err := json.Unmarshal(arg, &a); err != nil {
			return nil, err
		}
		node.Quiet()
		return wireChild(a)
	})
}

// tapConn lets the client hold back what the frame writer writes, alter it, and release it.
type tapConn struct {
	net.Conn
	mu        sync.Mutex
	hold      bool
	buf       []byte
	flipOne   bool          // flip one bit of the next write (used for the auth message)
	holdLimit int           // keep only about this many held bytes (the rest of a huge frame is never needed)
	deaf      chan struct{} // non-nil: reads do not touch the socket any more (a remote that stops reading); closed to release them
}

func (t *tapConn) Read(b []byte) (int, error) {
	t.mu.Lock()
	deaf := t.deaf
	t.mu.Unlock()
	if deaf != nil {
		<-deaf
		return 0, io.EOF
	}
	return t.Conn.Read(b)
}

func (t *tapConn) Write(b []byte) (int, error) {
	t.mu.Lock()
	defer t.mu.Unlock()
	if t.hold {
		if t.holdLimit == 0 || len(t.buf) < t.holdLimit {
			t.buf = append(t.buf, b...)
		}
		return len(b), nil
	}
	if t.flipOne {
		t.flipOne = false
		c := append([]byte{}, b...)
		c[len(c)/2] ^= 0x10
		_, err := t.Conn.Write(c)
		return len(b), err
	}
	return t.Conn.Write(b)
}
func (t *tapConn) take() []byte {
	t.mu.Lock()
	defer t.mu.Unlock()
	b := t.buf
	t.buf = nil
	return b
}
func (t *tapConn) setHold(h bool) {
	t.mu.Lock()
	t.hold = h
	t.mu.Unlock()
}

type labHandshake struct {
	Version    uint64
	Name       string
	Caps       []p2p.Cap
	ListenPort uint64
	ID         discover.NodeID
}
type labHandshakeExtra struct {
	Version    uint64
	Name       string
	Caps       []p2p.Cap
	ListenPort uint64
	ID         discover.NodeID
	Extra1     uint64
	Extra2     string
}

type wireClient struct {
	srvID       discover.NodeID
	addr        string
	key         *ecdsa.PrivateKey
	tap         *tapConn
	rw          p2p.MsgReadWriter
	msgs        chan p2p.Msg // everything the node sends after the encryption handshake
	closed      chan struct{}
	status      *statusData
	answerPings bool            // answer the node's keep-alive pings
	onMsg       func(m p2p.Msg) // sub-protocol messages go here instead of the channel
	td          uint64          // total difficulty (height) announced in the Status; 0 = 1
	head        types.Hash
	nodeAlloc   uint64 // bytes allocated in the process while only the node was working on the last input
	r           *rand.Rand
}

func (c *wireClient) startReader() {
	c.msgs = make(chan p2p.Msg, 64)
	c.closed = make(chan struct{})
	go func() {
		for {
			m, err := c.rw.ReadMsg()
			if err != nil {
				close(c.closed)
				return
			}
			data, _ := io.ReadAll(m.Payload)
			m.Payload = bytes.NewReader(data)
			if m.Code == 2 && c.answerPings {
				go c.sendRaw(3, []byte{0xC0}) // keep the session alive as a real remote does
				continue
			}
			if c.onMsg != nil && m.Code >= 16 {
				c.onMsg(m)
				continue
			}
			select {
			case c.msgs <- m:
			default:
			}
		}
	}()
}

// waitMsg waits for a message with the given code; ok=false on close or timeout.
func (c *wireClient) waitMsg(code uint64, d time.Duration) (p2p.Msg, bool) {
	deadline := time.After(d)
	for {
		select {
		case m := <-c.msgs:
			if m.Code == code {
				return m, true
			}
		case <-c.closed:
			// drain what arrived before the close
			for {
				select {
				case m := <-c.msgs:
					if m.Code == code {
						return m, true
					}
				default:
					return p2p.Msg{}, false
				}
			}
		case <-deadline:
			return p2p.Msg{}, false
		}
	}
}

func (c *wireClient) isClosed(d time.Duration) bool {
	select {
	case <-c.closed:
		return true
	case <-time.After(d):
		return false
	}
}

func (c *wireClient) sendRaw(code uint64, payload []byte) error {
	return c.rw.WriteMsg(p2p.Msg{Code: code, Size: uint32(len(payload)), Payload: bytes.NewReader(payload)})
}

func (c *wireClient) garbage(n int) []byte {
	b := make([]byte, n)
	c.r.Read(b)
	return b
}

func (c *wireClient) handshake(name string) labHandshake {
	return labHandshake{Version: 4, Name: name, Caps: []p2p.Cap{{Name: "eth", Version: 61}}, ID: discover.PubkeyID(&c.key.PublicKey)}
}

// frame returns the bytes of one valid frame (a ping) without sending them.
func (c *wireClient) frame() []byte {
	c.tap.setHold(true)
	c.sendRaw(2, []byte{0xC0})
	c.tap.setHold(false)
	return c.tap.take()
}

type zeroReader struct{}

func (zeroReader) Read(p []byte) (int, error) {
	for i := range p {
		p[i] = 0
	}
	return len(p), nil
}

func (c *wireClient) rawWrite(b []byte) {
	c.tap.Conn.SetWriteDeadline(time.Now().Add(3 * time.Second))
	c.tap.Conn.Write(b)
}

func (c *wireClient) sendFrameKind(kind string) {
	switch kind {
	case "frame-bad-header-mac":
		f := c.frame()
		f[20] ^= 1
		c.rawWrite(f)
	case "frame-bad-frame-mac":
		f := c.frame()
		f[len(f)-3] ^= 1
		c.rawWrite(f)
	case "frame-truncated-close":
		f := c.frame()
		c.rawWrite(f[:len(f)/2])
		c.tap.Conn.Close()
	case "frame-oversize-announced":
		// a header that announces the largest frame the format allows, a little of it, then silence and close
		c.tap.holdLimit = 4096
		c.tap.setHold(true)
		c.rw.WriteMsg(p2p.Msg{Code: 2, Size: 1<<24 - 2, Payload: io.LimitReader(zeroReader{}, 1<<24-2)})
		c.tap.setHold(false)
		c.tap.holdLimit = 0
		f := c.tap.take()
		// what the NODE allocates while it waits for the announced frame (the client's own work is done)
		var m0, m1 runtime.MemStats
		runtime.ReadMemStats(&m0)
		c.rawWrite(f[:32+1024])
		time.Sleep(300 * time.Millisecond)
		runtime.ReadMemStats(&m1)
		c.nodeAlloc = m1.TotalAlloc - m0.TotalAlloc
		c.tap.Conn.Close()
	case "frames-swapped":
		f1, f2 := c.frame(), c.frame()
		c.rawWrite(append(f2, f1...))
	case "frame-replayed":
		f := c.frame()
		c.rawWrite(append(append([]byte{}, f...), f...))
	}
}

func (c *wireClient) sendDisc(kind string) {
	switch kind {
	case "disc-reason":
		p2p.Send(c.rw, 1, []uint{4})
	case "disc-empty-list":
		c.sendRaw(1, []byte{0xC0})
	case "disc-empty-payload":
		c.sendRaw(1, nil)
	case "disc-garbage":
		c.sendRaw(1, c.garbage(1+c.r.Intn(40)))
	case "disc-big-reason":
		b, _ := rlp.EncodeToBytes([]interface{}{[]byte{0xff, 0xff, 0xff, 0xff, 0xff, 0xff, 0xff, 0xff, 0xff, 0xff}})
		c.sendRaw(1, b)
	case "disc-long-list":
		p2p.Send(c.rw, 1, []uint{1, 2, 3, 4, 5, 6, 7, 8})
	}
}

type wireServer struct {
	srv     *p2p.Server
	id      discover.NodeID
	genesis types.Hash
	chainID uint64
	udp     *discover.Table
	udpAddr *net.UDPAddr
	fat     types.Hash // a momentum with many account blocks that carry data: 128 copies of it are several MiB
}

func newKey(r *rand.Rand) *ecdsa.PrivateKey {
	for {
		b := make([]byte, 32)
		r.Read(b)
		if k, err := crypto.ToECDSA(b); err == nil {
			return k
		}
	}
}

func (s *wireServer) dial(r *rand.Rand) (*wireClient, error) {
	return s.dialAs(r, newKey(r))
}

// dialAs connects as the remote with the given key (the same key is the same peer to the node).
func (s *wireServer) dialAs(r *rand.Rand, key *ecdsa.PrivateKey) (*wireClient, error) {
	fd, err := net.DialTimeout("tcp", s.srv.ListenAddr, 3*time.Second)
	if err != nil {
		return nil, err
	}
	return &wireClient{srvID: s.id, addr: s.srv.ListenAddr, key: key, tap: &tapConn{Conn: fd}, r: r}, nil
}

// observeClosed: the node closed the TCP connection (read returns an error other than timeout).
func rawClosed(fd net.Conn, d time.Duration) bool {
	fd.SetReadDeadline(time.Now().Add(d))
	buf := make([]byte, 4096)
	for {
		_, err := fd.Read(buf)
		if err == nil {
			continue
		}
		if ne, ok := err.(net.Error); ok && ne.Timeout() {
			return false
		}
		return true
	}
}

// step performs one input and returns the observed (stage afterwards, reply).
func (s *wireServer) step(c *wireClient, st wireStep) (to, reply string) {
	switch st.At {
	case "tcp":
		switch st.In {
		case "auth-valid", "auth-bitflip":
			c.tap.flipOne = st.In == "auth-bitflip"
			c.tap.Conn.SetDeadline(time.Now().Add(8 * time.Second))
			rw, err := p2p.VerifDialRLPX(c.tap, c.key, c.srvID)
			c.tap.Conn.SetDeadline(time.Time{})
			if err != nil {
				return "closed", "none"
			}
			c.rw = rw
			c.startReader()
			return "enc", "auth-ack"
		case "auth-garbage":
			c.rawWrite(c.garbage(307))
		case "auth-short-close":
			c.rawWrite(c.garbage(100))
			c.tap.Conn.Close()
			return "closed", "none"
		case "close":
			c.tap.Conn.Close()
			return "closed", "none"
		}
		if rawClosed(c.tap.Conn, 8*time.Second) {
			return "closed", "none"
		}
		return "tcp", "none"
	case "enc":
		switch {
		case st.In == "hs-valid":
			p2p.Send(c.rw, 0, c.handshake("lab-remote"))
			if _, ok := c.waitMsg(16, 5*time.Second); !ok {
				return "closed", "none"
			}
			td, head := uint64(1), s.genesis
			if c.td > 0 {
				td, head = c.td, c.head
			}
			p2p.Send(c.rw, 16, &statusData{61, uint32(s.chainID), td, head, s.genesis})
			if c.isClosed(300 * time.Millisecond) {
				return "closed", "status"
			}
			return "ready", "status"
		case st.In == "hs-extra-fields":
			h := c.handshake("lab-remote")
			p2p.Send(c.rw, 0, labHandshakeExtra{h.Version, h.Name, h.Caps, h.ListenPort, h.ID, 7, "extra"})
		case st.In == "hs-garbage":
			c.sendRaw(0, c.garbage(1+c.r.Intn(80)))
		case st.In == "hs-empty-list":
			c.sendRaw(0, []byte{0xC0})
		case st.In == "hs-wrong-version":
			h := c.handshake("lab-remote")
			h.Version = 3
			p2p.Send(c.rw, 0, h)
		case st.In == "hs-zero-id":
			h := c.handshake("lab-remote")
			h.ID = discover.NodeID{}
			p2p.Send(c.rw, 0, h)
		case st.In == "hs-no-caps":
			h := c.handshake("lab-remote")
			h.Caps = nil
			p2p.Send(c.rw, 0, h)
		case st.In == "hs-too-big":
			p2p.Send(c.rw, 0, c.handshake(strings.Repeat("n", 3000)))
		case st.In == "ping":
			c.sendRaw(2, []byte{0xC0})
		case st.In == "base-unknown":
			c.sendRaw(0x0f, c.garbage(5))
		case st.In == "sub-code":
			p2p.Send(c.rw, 16, &statusData{61, uint32(s.chainID), 1, s.genesis, s.genesis})
		case strings.HasPrefix(st.In, "disc-"):
			c.sendDisc(st.In)
		case strings.HasPrefix(st.In, "frame"):
			c.sendFrameKind(st.In)
		}
		if c.isClosed(8 * time.Second) {
			return "closed", "none"
		}
		return "enc", "none"
	case "ready":
		switch {
		case st.In == "ping":
			c.sendRaw(2, []byte{0xC0})
			if _, ok := c.waitMsg(3, 5*time.Second); ok {
				return "ready", "pong"
			}
			if c.isClosed(100 * time.Millisecond) {
				return "closed", "none"
			}
			return "ready", "none"
		case st.In == "sub-request":
			p2p.Send(c.rw, 16+8, &getHashesFromNumber{1, 5})
			if _, ok := c.waitMsg(16+4, 5*time.Second); ok {
				return "ready", "hashes"
			}
			if c.isClosed(100 * time.Millisecond) {
				return "closed", "none"
			}
			return "ready", "none"
		case st.In == "timed-request":
			hashes := make([]types.Hash, 128)
			for i := range hashes {
				hashes[i] = s.fat
			}
			t0 := time.Now()
			p2p.Send(c.rw, 16+5, hashes)
			m, ok := c.waitMsg(16+6, 60*time.Second)
			fmt.Fprintf(os.Stderr, "timed-request: answered=%v size=%d after %v\n", ok, m.Size, time.Since(t0))
		case st.In == "deaf-requests":
			// ask for 128 copies of the largest momentum the node has (one message of almost 10 MiB); stop reading; keep pinging.
			// The node cannot write its replies; its write time-out (20 s) must end the session. Seen from here: a ping fails.
			// only decisive where the reply (about 10 MiB, the largest one message may be is 16 MiB) does not fit into the node's
			// send buffer: on a host whose TCP send buffers grow beyond 6 MiB the node never has to wait, so there is nothing to see
			if data, err := os.ReadFile("/proc/sys/net/ipv4/tcp_wmem"); err == nil {
				var lo, def, max int
				if n, _ := fmt.Sscan(string(data), &lo, &def, &max); n == 3 && max > 6*1024*1024 {
					c.tap.Conn.Close()
					return "closed", "none"
				}
			}
			if tc, ok := c.tap.Conn.(*net.TCPConn); ok {
				tc.SetReadBuffer(4096)
			}
			deaf := make(chan struct{})
			c.tap.mu.Lock()
			c.tap.deaf = deaf
			c.tap.mu.Unlock()
			defer close(deaf)
			hashes := make([]types.Hash, 128)
			for i := range hashes {
				hashes[i] = s.fat
			}
			// ONE request: a second one would wait in the session's read loop for the handler, and the keep-alives behind it
			// would not be read at all
			c.tap.Conn.SetWriteDeadline(time.Now().Add(3 * time.Second))
			p2p.Send(c.rw, 16+5, hashes)
			deadline := time.Now().Add(50 * time.Second)
			for time.Now().Before(deadline) {
				c.tap.Conn.SetWriteDeadline(time.Now().Add(3 * time.Second))
				if err := c.sendRaw(2, []byte{0xC0}); err != nil {
					return "closed", "none"
				}
				time.Sleep(300 * time.Millisecond)
			}
			return "ready", "none"
		case st.In == "pong":
			c.sendRaw(3, []byte{0xC0})
		case st.In == "get-peers":
			c.sendRaw(4, []byte{0xC0})
		case st.In == "peers-garbage":
			c.sendRaw(5, c.garbage(1+c.r.Intn(60)))
		case st.In == "hs-again":
			p2p.Send(c.rw, 0, c.handshake("lab-remote"))
		case st.In == "base-unknown":
			c.sendRaw(0x0f, c.garbage(5))
		case st.In == "sub-out-of-range":
			c.sendRaw(16+100, c.garbage(5))
		case st.In == "sub-garbage":
			c.sendRaw(16+2, c.garbage(1+c.r.Intn(60)))
		case strings.HasPrefix(st.In, "disc-"):
			c.sendDisc(st.In)
		case strings.HasPrefix(st.In, "frame"):
			c.sendFrameKind(st.In)
		}
		if st.To == "ready" {
			// ignored messages: the session must still answer a ping
			c.sendRaw(2, []byte{0xC0})
			if _, ok := c.waitMsg(3, 5*time.Second); ok {
				return "ready", "none"
			}
			return "closed", "none"
		}
		if c.isClosed(8 * time.Second) {
			return "closed", "none"
		}
		return "ready", "none"
	}
	return "?", "?"
}

// control: a well-behaved remote is served (handshakes, status, ping/pong).
func (s *wireServer) control(r *rand.Rand) error {
	c, err := s.dial(r)
	if err != nil {
		return fmt.Errorf("dial: %v", err)
	}
	defer c.tap.Conn.Close()
	if to, _ := s.step(c, wireStep{In: "auth-valid", At: "tcp"}); to != "enc" {
		return fmt.Errorf("encryption handshake refused")
	}
	if to, _ := s.step(c, wireStep{In: "hs-valid", At: "enc"}); to != "ready" {
		return fmt.Errorf("protocol handshake / status refused")
	}
	if _, reply := s.step(c, wireStep{In: "ping", At: "ready"}); reply != "pong" {
		return fmt.Errorf("no pong")
	}
	c.sendDisc("disc-reason")
	// discovery: a new remote is answered, bonded with, and served a findnode
	if s.udpAddr != nil {
		// bondings are served one or a few at a time (DESIGN section 12): a new remote may have to wait behind time-outs of
		// earlier ones; what must not happen is that the listener stays unable to bond - three remotes, one after the other
		reply := ""
		for attempt := 0; attempt < 3 && reply != "neighbors"; attempt++ {
			if attempt > 0 {
				time.Sleep(2 * time.Second)
			}
			var err error
			if reply, err = s.datagram(r, "findnode-bonded"); err != nil {
				return err
			}
		}
		if reply != "neighbors" {
			return fmt.Errorf("the discovery listener does not complete the ping/pong exchange with any of three new remotes and serve its findnode (answer: %s)", reply)
		}
	}
	return nil
}

// ---- datagrams -------------------------------------------------------------------------------------

type rpcEndpoint struct {
	IP  net.IP
	UDP uint16
	TCP uint16
}
type dgPing struct {
	Version    uint
	From, To   rpcEndpoint
	Expiration uint64
}
type dgPingExtra struct {
	Version    uint
	From, To   rpcEndpoint
	Expiration uint64
	Extra      uint64
}
type dgPong struct {
	To         rpcEndpoint
	ReplyTok   []byte
	Expiration uint64
}
type dgFindnode struct {
	Target     discover.NodeID
	Expiration uint64
}
type dgNode struct {
	IP  net.IP
	UDP uint16
	TCP uint16
	ID  discover.NodeID
}
type dgNeighbors struct {
	Nodes      []dgNode
	Expiration uint64
}

func encodeDatagram(key *ecdsa.PrivateKey, ptype byte, req interface{}) []byte {
	body, _ := rlp.EncodeToBytes(req)
	return signDatagram(key, append([]byte{ptype}, body...))
}
func signDatagram(key *ecdsa.PrivateKey, typeAndBody []byte) []byte {
	sig, _ := crypto.Sign(crypto.Keccak256(typeAndBody), key)
	rest := append(append([]byte{}, sig...), typeAndBody...)
	return append(crypto.Keccak256(rest), rest...)
}

type dgClient struct {
	conn *net.UDPConn
	key  *ecdsa.PrivateKey
	to   *net.UDPAddr
	r    *rand.Rand

	answered bool // a ping of the node has been answered
}

func (d *dgClient) endpoint() rpcEndpoint {
	a := d.conn.LocalAddr().(*net.UDPAddr)
	return rpcEndpoint{IP: net.IPv4(127, 0, 0, 1).To4(), UDP: uint16(a.Port), TCP: uint16(a.Port)}
}
func (d *dgClient) toEndpoint() rpcEndpoint {
	return rpcEndpoint{IP: d.to.IP.To4(), UDP: uint16(d.to.Port), TCP: uint16(d.to.Port)}
}
func (d *dgClient) exp(in time.Duration) uint64 { return uint64(time.Now().Add(in).Unix()) }

// read waits for a datagram of the given type from the node; pings of the node are answered on the way (bonding).
func (d *dgClient) read(want byte, wait time.Duration) bool {
	if want == 1 {
		d.answered = false
	}
	deadline := time.Now().Add(wait)
	buf := make([]byte, 2048)
	for time.Now().Before(deadline) {
		d.conn.SetReadDeadline(deadline)
		n, _, err := d.conn.ReadFromUDP(buf)
		if err != nil {
			return false
		}
		if n < 98 {
			continue
		}
		ptype := buf[97]
		if ptype == 1 { // the node pings back: answer, so that it bonds with us
			d.conn.WriteToUDP(encodeDatagram(d.key, 2, dgPong{To: d.toEndpoint(), ReplyTok: append([]byte{}, buf[:32]...), Expiration: d.exp(20 * time.Second)}), d.to)
			d.answered = true
		}
		if ptype == want {
			return true
		}
	}
	return false
}

func (d *dgClient) bond() bool {
	d.conn.WriteToUDP(encodeDatagram(d.key, 1, dgPing{Version: 4, From: d.endpoint(), To: d.toEndpoint(), Expiration: d.exp(20 * time.Second)}), d.to)
	ok := d.read(2, 3*time.Second)
	if !d.answered {
		d.read(1, 10*time.Second) // answer the node's own ping (bondings are served one or a few at a time)
	}
	time.Sleep(150 * time.Millisecond) // the node records the bond after our pong
	return ok && d.answered
}

func (s *wireServer) datagram(r *rand.Rand, in string) (reply string, err error) {
	conn, e := net.ListenUDP("udp", &net.UDPAddr{IP: net.IPv4(127, 0, 0, 1)})
	if e != nil {
		return "", e
	}
	defer conn.Close()
	d := &dgClient{conn: conn, key: newKey(r), to: s.udpAddr, r: r}
	ping := dgPing{Version: 4, From: d.endpoint(), To: d.toEndpoint(), Expiration: d.exp(20 * time.Second)}
	var pkt []byte
	expect := byte(2)
	switch in {
	case "ping-valid":
		pkt = encodeDatagram(d.key, 1, ping)
	case "ping-expired":
		ping.Expiration = uint64(time.Now().Add(-time.Minute).Unix())
		pkt = encodeDatagram(d.key, 1, ping)
	case "ping-wrong-version":
		ping.Version = 3
		pkt = encodeDatagram(d.key, 1, ping)
	case "ping-bad-hash":
		pkt = encodeDatagram(d.key, 1, ping)
		pkt[5] ^= 1
	case "ping-bad-signature":
		pkt = encodeDatagram(d.key, 1, ping)
		for i := 32; i < 97; i++ {
			pkt[i] = 0xff
		}
		copy(pkt, crypto.Keccak256(pkt[32:]))
	case "ping-truncated-rlp":
		body, _ := rlp.EncodeToBytes(ping)
		pkt = signDatagram(d.key, append([]byte{1}, body[:len(body)/2]...))
	case "ping-extra-fields":
		pkt = encodeDatagram(d.key, 1, dgPingExtra{4, ping.From, ping.To, ping.Expiration, 9})
	case "ping-huge-fields":
		ping.From.IP = bytes.Repeat([]byte{1}, 900)
		pkt = encodeDatagram(d.key, 1, ping)
	case "pong-unsolicited":
		pkt = encodeDatagram(d.key, 2, dgPong{To: d.toEndpoint(), ReplyTok: d.garbageN(32), Expiration: d.exp(20 * time.Second)})
	case "findnode-unbonded":
		expect = 4
		pkt = encodeDatagram(d.key, 3, dgFindnode{Target: discover.PubkeyID(&d.key.PublicKey), Expiration: d.exp(20 * time.Second)})
	case "findnode-bonded":
		expect = 4
		if !d.bond() {
			return "none", nil // the node does not complete the ping/pong exchange with a new remote
		}
		pkt = encodeDatagram(d.key, 3, dgFindnode{Target: discover.PubkeyID(&d.key.PublicKey), Expiration: d.exp(20 * time.Second)})
	case "findnode-expired":
		expect = 4
		d.bond()
		pkt = encodeDatagram(d.key, 3, dgFindnode{Target: discover.PubkeyID(&d.key.PublicKey), Expiration: uint64(time.Now().Add(-time.Minute).Unix())})
	case "neighbors-unsolicited":
		var nodes []dgNode
		for i := 0; i < 12; i++ {
			nodes = append(nodes, dgNode{IP: net.IPv4(10, 0, 0, byte(i)).To4(), UDP: 30303, TCP: 30303, ID: discover.PubkeyID(&newKey(r).PublicKey)})
		}
		pkt = encodeDatagram(d.key, 4, dgNeighbors{Nodes: nodes, Expiration: d.exp(20 * time.Second)})
	case "unknown-type":
		pkt = signDatagram(d.key, append([]byte{9}, d.garbageN(40)...))
	case "too-small":
		pkt = d.garbageN(60)
	case "empty":
		pkt = []byte{}
	case "garbage-1280":
		pkt = d.garbageN(1280)
	case "oversize-2000":
		body := append([]byte{1}, d.garbageN(1900)...)
		pkt = signDatagram(d.key, body)
	default:
		return "", fmt.Errorf("unknown datagram class %s", in)
	}
	if _, err := conn.WriteToUDP(pkt, s.udpAddr); err != nil {
		return "", err
	}
	wait := 900 * time.Millisecond
	if in == "ping-valid" || in == "ping-huge-fields" || in == "findnode-bonded" {
		wait = 4 * time.Second // an answer is required: wait longer for it than for silence
	}
	if d.read(expect, wait) {
		if expect == 2 {
			// the node now pings back to bond with us: answer, so that its bonding slot is not held until a timeout
			if !d.answered {
				d.read(1, 2*time.Second)
			}
			return "pong", nil
		}
		return "neighbors", nil
	}
	return "none", nil
}

func (d *dgClient) garbageN(n int) []byte {
	b := make([]byte, n)
	d.r.Read(b)
	return b
}

// ---- child -----------------------------------------------------------------------------------------

func wireChild(a wireArg) (*wireResult, error) {
	walk.LabConstants()
	r := rand.New(rand.NewSource(a.Seed))
	p, err := node.New("wire-node", node.Options{Producer: true})
	if err != nil {
		return nil, err
	}
	if err := p.ProduceN(40); err != nil {
		return nil, err
	}
	// one momentum with fifty account blocks of 1 200 bytes of data each
	if _, err := p.Submit(&nom.AccountBlock{BlockType: nom.BlockTypeUserSend, Address: g.User1.Address, ToAddress: types.PlasmaContract, TokenStandard: types.QsrTokenStandard,
		Amount: big.NewInt(3000 * 100000000), Data: definition.ABIPlasma.PackMethodPanic(definition.FuseMethodName, g.User1.Address)}, g.User1); err != nil {
		return nil, fmt.Errorf("wire node: fuse refused: %v", err)
	}
	if err := p.ProduceN(3); err != nil {
		return nil, err
	}
	for i := 0; i < 50; i++ {
		if _, err := p.Submit(&nom.AccountBlock{BlockType: nom.BlockTypeUserSend, Address: g.User1.Address, ToAddress: g.User2.Address, TokenStandard: types.ZnnTokenStandard,
			Amount: big.NewInt(1), Data: bytes.Repeat([]byte{byte(i)}, 1200)}, g.User1); err != nil {
			return nil, fmt.Errorf("wire node: data block %d refused: %v", i, err)
		}
	}
	if err := p.ProduceN(2); err != nil {
		return nil, err
	}
	var fat types.Hash
	for h := p.Height(); h > 1 && fat.IsZero(); h-- {
		if m := p.MomentumAt(h); len(m.Content) >= 50 {
			fat = m.Hash
		}
	}
	if fat.IsZero() {
		return nil, fmt.Errorf("wire node: the momentum with fifty data blocks was not produced")
	}
	node.Clock.Set(p.Frontier().Timestamp.Add(time.Minute))
	pm := protocol.NewProtocolManager(1, p.Chain.ChainIdentifier(), p.Bridge)
	pm.Start()
	key := newKey(r)
	srv := &p2p.Server{PrivateKey: key, MaxPeers: 200, MaxPendingPeers: 200, Name: "lab-node", Protocols: pm.SubProtocols, ListenAddr: "127.0.0.1:0", NoDial: true}
	if err := srv.Start(); err != nil {
		return nil, fmt.Errorf("p2p server: %v", err)
	}
	tab, err := discover.ListenUDP(newKey(r), "127.0.0.1:0", nil, "")
	if err != nil {
		return nil, fmt.Errorf("discovery listener: %v", err)
	}
	self := tab.Self()
	s := &wireServer{srv: srv, id: discover.PubkeyID(&key.PublicKey), genesis: p.Genesis.GetGenesisMomentum().Hash, chainID: p.Chain.ChainIdentifier(),
		udp: tab, udpAddr: &net.UDPAddr{IP: net.IPv4(127, 0, 0, 1), Port: int(self.UDP)}, fat: fat}
	res := &wireResult{MaxAlloc: map[string]uint64{}, Replies: map[string]int{}}
	if err := s.control(r); err != nil {
		return nil, fmt.Errorf("the lab's well-behaved remote is not served on a fresh node: %v", err)
	}
	var ms runtime.MemStats
	for i, b := range a.Behaviours {
		if a.Progress != "" {
			js, _ := json.Marshal(b)
			os.WriteFile(a.Progress, []byte(fmt.Sprintf("%d %s", i, js)), 0o644)
		}
		label := func() string { js, _ := json.Marshal(b.Steps); return string(js) }
		if len(b.Steps) > 0 && b.Steps[0].At == "udp" {
			for si, st := range b.Steps {
				reply, err := s.datagram(r, st.In)
				if err != nil {
					return nil, err
				}
				for attempt := 0; st.In == "findnode-bonded" && reply != st.Reply && attempt < 2; attempt++ {
					time.Sleep(2 * time.Second) // bonding queues behind earlier time-outs (see control)
					if reply, err = s.datagram(r, st.In); err != nil {
						return nil, err
					}
				}
				res.Replies[st.In+"->"+reply]++
				if reply != st.Reply {
					res.Mismatches = append(res.Mismatches, [2]string{"datagram-" + st.In + "-answered-" + reply + "-specified-" + st.Reply,
						fmt.Sprintf("step %d: datagram %s is answered with %q, the specification says %q (behaviour %s)", si+1, st.In, reply, st.Reply, label())})
					break
				}
			}
		} else {
			c, err := s.dial(r)
			if err != nil {
				res.Mismatches = append(res.Mismatches, [2]string{"node-does-not-accept-connections", fmt.Sprintf("before behaviour %s: %v", label(), err)})
				break
			}
			for si, st := range b.Steps {
				runtime.ReadMemStats(&ms)
				before := ms.TotalAlloc
				to, reply := s.step(c, st)
				runtime.ReadMemStats(&ms)
				d := ms.TotalAlloc - before
				if c.nodeAlloc > 0 {
					d, c.nodeAlloc = c.nodeAlloc, 0
				}
				if d > res.MaxAlloc[st.In] {
					res.MaxAlloc[st.In] = d
				}
				res.Replies[st.At+":"+st.In+"->"+to+"/"+reply]++
				if to != st.To || reply != st.Reply {
					res.Mismatches = append(res.Mismatches, [2]string{"wire-" + st.At + "-" + st.In + "-" + to + "-" + reply + "-specified-" + st.To + "-" + st.Reply,
						fmt.Sprintf("step %d: at stage %s input %s leaves the connection %q with reply %q; the specification says %q with reply %q (behaviour %s)", si+1, st.At, st.In, to, reply, st.To, st.Reply, label())})
					break
				}
			}
			c.tap.Conn.Close()
		}
		// the node keeps serving the others
		if err := s.control(r); err != nil {
			res.Mismatches = append(res.Mismatches, [2]string{"others-not-served-after-" + b.Steps[len(b.Steps)-1].In,
				fmt.Sprintf("after behaviour %s a well-behaved remote is not served any more: %v", label(), err)})
			break
		}
		res.Done++
	}
	if a.Pressure && len(res.Mismatches) == 0 {
		// pings from twenty-eight distinct node ids while the scheduler is kept busy (helper goroutines of the node run late), then:
		// a new remote is still bonded with (F22)
		stop := make(chan struct{})
		for i := 0; i < 64; i++ {
			go func() {
				x := 0
				for {
					select {
					case <-stop:
						return
					default:
						x++
					}
				}
			}()
		}
		old := runtime.GOMAXPROCS(2)
		for i := 0; i < 28; i++ {
			s.datagram(rand.New(rand.NewSource(a.Seed*1000+int64(i))), "ping-valid")
		}
		close(stop)
		runtime.GOMAXPROCS(old)
		time.Sleep(2 * time.Second)
		if err := s.control(r); err != nil {
			res.Mismatches = append(res.Mismatches, [2]string{"others-not-served-after-pings-under-load",
				fmt.Sprintf("after pings from twenty-eight distinct node ids under scheduler pressure a well-behaved remote is not served any more: %v", err)})
		} else {
			res.Done++
		}
	}
	return res, nil
}

// wireCheck: model check, generate, replay in a child; crash = verdict.
func wireCheck(run *core.Run) {
	maxMsgs := 4
	if run.Thorough() {
		maxMsgs = 5
	}
	res, err := core.RunTLC(core.TLCOpts{Module: "WireSession", CfgText: fmt.Sprintf(wireCfg, maxMsgs, "FALSE", "INVARIANTS NodeAlive\nPROPERTIES Monotone"), Timeout: 5 * time.Minute})
	if err != nil || res.Violated != "" || res.Err != "" {
		core.Fatal("WireSession: %v %s %s", err, res.Violated, res.Err)
	}
	run.States += res.Distinct
	run.Transitions += res.Generated
	var behaviours []wireBehaviour
	_, err = core.RunTLC(core.TLCOpts{Module: "WireSession", CfgText: fmt.Sprintf(wireCfg, maxMsgs, "TRUE", "VIEW GenView\nACTION_CONSTRAINT EmitEdge"), Workers: 1, Timeout: 5 * time.Minute,
		OnLine: func(line string) {
			if js, ok := core.ParseB(line, "B"); ok {
				var b wireBehaviour
				if json.Unmarshal([]byte(js), &b) == nil {
					behaviours = append(behaviours, b)
				}
			}
		}})
	if err != nil || len(behaviours) == 0 {
		core.Fatal("WireSession generation: %v (%d behaviours)", err, len(behaviours))
	}
	// four children, each with its own node
	const parts = 4
	dir, err := os.MkdirTemp(core.Scratch(), "wire-")
	if err != nil {
		core.Fatal("%v", err)
	}
	defer os.RemoveAll(dir)
	args := make([]wireArg, parts)
	for i, b := range behaviours {
		k := (i + int(run.Seed)) % parts
		args[k].Behaviours = append(args[k].Behaviours, b)
	}
	outs := make([]wireResult, parts)
	crashes := make([]*core.Crash, parts)
	errs := make([]error, parts)
	var wg sync.WaitGroup
	for i := range args {
		args[i].Seed = run.Seed*10 + int64(i)
		args[i].Progress = fmt.Sprintf("%s/progress-%d", dir, i)
		args[i].Pressure = i == 0
		wg.Add(1)
		go func(i int) {
			defer wg.Done()
			crashes[i], errs[i] = core.Child("wire-session", args[i], &outs[i], 25*time.Minute)
		}(i)
	}
	wg.Wait()
	replies := map[string]int{}
	maxAlloc := map[string]uint64{}
	for i := range args {
		if errs[i] != nil {
			core.Fatal("%v", errs[i])
		}
		if c := crashes[i]; c != nil {
			prog, _ := os.ReadFile(args[i].Progress)
			run.Report("C15:node-terminated-"+c.Key(), fmt.Sprintf("the node process died (%s) while a remote performed behaviour %s", c.String(), tail(string(prog), 600)),
				map[string]interface{}{"kind": "wire-behaviour", "behaviour": string(prog), "stderr_tail": c.Text})
			continue
		}
		for _, m := range outs[i].Mismatches {
			run.Report("C15:"+m[0], m[1], map[string]interface{}{"kind": "wire-behaviour", "what": m[1]})
		}
		run.Traces += int64(outs[i].Done)
		for k, v := range outs[i].Replies {
			replies[k] += v
		}
		for k, v := range outs[i].MaxAlloc {
			if v > maxAlloc[k] {
				maxAlloc[k] = v
			}
		}
	}
	run.Set("wire_behaviours", fmt.Sprintf("%d behaviours (one per transition of WireSession.tla, <= 4 inputs, 5 in the thorough tier) replayed over TCP/RLPx and UDP on the loopback interface against a real p2p.Server and discovery listener; after each one a well-behaved remote must still be served", len(behaviours)))
	run.Set("wire_reactions_observed", replies)
	run.Set("wire_largest_allocation_around_an_input_bytes", maxAlloc)
	// the stated limit: 10 MiB per message (1 MiB of slack for whatever else the process does meanwhile)
	for in, v := range maxAlloc {
		if in == "deaf-requests" {
			continue // the answer is a message of almost the limit, encoded and framed: several buffers of that size
		}
		if v > 11*1024*1024 {
			run.Report("C15:allocates-more-than-the-message-limit-on-"+in, fmt.Sprintf("while handling input %s the node allocates %d bytes; the protocol's stated limit is 10 MiB per message", in, v),
				map[string]interface{}{"kind": "wire-allocation", "input": in, "bytes": v})
		}
	}
}

// DebugDatagram is used by cmd/dbg2.
func DebugDatagram(in string) string {
	if strings.HasPrefix(in, "wire:") {
		b := wireBehaviour{Steps: []wireStep{{In: "auth-valid", At: "tcp", To: "enc", Reply: "auth-ack"}, {In: "hs-valid", At: "enc", To: "ready", Reply: "status"}}}
		for _, x := range strings.Split(in[5:], ",") {
			b.Steps = append(b.Steps, wireStep{In: x, At: "ready", To: "closed", Reply: "none"})
		}
		node.Quiet()
		if os.Getenv("VERIF_DEBUG") != "" {
			h := log15.StreamHandler(os.Stderr, log15.LogfmtFormat())
			common.ProtocolLogger.SetHandler(h)
			common.P2PLogger.SetHandler(h)
		}
		t0 := time.Now()
		res, err := wireChild(wireArg{Behaviours: []wireBehaviour{b}, Seed: 10})
		return fmt.Sprint(res, err, time.Since(t0))
	}
	if strings.HasPrefix(in, "child:") {
		var b wireBehaviour
		for _, x := range strings.Split(in[6:], ",") {
			rep := "none"
			if x == "ping-valid" {
				rep = "pong"
			}
			if x == "findnode-bonded" {
				rep = "neighbors"
			}
			b.Steps = append(b.Steps, wireStep{In: x, At: "udp", To: "udp", Reply: rep})
		}
		res, err := wireChild(wireArg{Behaviours: []wireBehaviour{b}, Seed: 10})
		return fmt.Sprint(res, err)
	}
	r := rand.New(rand.NewSource(1))
	tab, err := discover.ListenUDP(newKey(r), "127.0.0.1:0", nil, "")
	if err != nil {
		return err.Error()
	}
	s := &wireServer{udp: tab, udpAddr: &net.UDPAddr{IP: net.IPv4(127, 0, 0, 1), Port: int(tab.Self().UDP)}}
	out := ""
	if strings.HasPrefix(in, "starve:") {
		// many sequential bondings while the scheduler is kept busy, then: does bonding still work at all?
		var n int
		fmt.Sscan(in[7:], &n)
		stop := make(chan struct{})
		for i := 0; i < 64; i++ {
			go func() {
				x := 0
				for {
					select {
					case <-stop:
						return
					default:
						x++
					}
				}
			}()
		}
		good := 0
		for i := 0; i < n; i++ {
			rr := rand.New(rand.NewSource(int64(i + 500)))
			if reply, _ := s.datagram(rr, "ping-valid"); reply == "pong" {
				good++
			}
		}
		close(stop)
		out := fmt.Sprintf("%d pings answered under load;", good)
		for _, w := range []int{5, 30, 60} {
			time.Sleep(time.Duration(w) * time.Second)
			reply, _ := s.datagram(r, "findnode-bonded")
			out += fmt.Sprintf(" +%ds: %s goroutines=%d;", w, reply, runtime.NumGoroutine())
		}
		return out
	}
	if strings.HasPrefix(in, "storm:") {
		var n int
		fmt.Sscan(in[6:], &n)
		var wg sync.WaitGroup
		okc := make(chan bool, n)
		for i := 0; i < n; i++ {
			wg.Add(1)
			rr := rand.New(rand.NewSource(int64(i + 5)))
			go func() {
				defer wg.Done()
				reply, _ := s.datagram(rr, "findnode-bonded")
				okc <- reply == "neighbors"
			}()
		}
		wg.Wait()
		good := 0
		for i := 0; i < n; i++ {
			if <-okc {
				good++
			}
		}
		out := fmt.Sprintf("storm of %d: %d served;", n, good)
		for _, w := range []int{2, 30, 60, 120} {
			time.Sleep(time.Duration(w) * time.Second)
			reply, _ := s.datagram(r, "findnode-bonded")
			out += fmt.Sprintf(" +%ds: %s goroutines=%d;", w, reply, runtime.NumGoroutine())
		}
		return out
	}
	for _, x := range strings.Split(in, ",") {
		reply, err := s.datagram(r, x)
		out += fmt.Sprint(x, "->", reply, err, " ")
	}
	return out
}
