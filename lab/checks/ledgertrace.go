package checks

import (
	"bufio"
	"bytes"
	"encoding/json"
	"fmt"
	"os"
	"os/exec"
	"path/filepath"
	"regexp"
	"sort"
	"strconv"
	"strings"
	"time"

	"github.com/zenon-network/go-zenon/common/types"

	"verif/lab/core"
	"verif/lab/ledger"
)

// A run is one execution of a real chain (one repository test, one lab scenario) projected to abstract events.
type ledgerRun struct {
	Name   string
	Events []ledger.Event
	Note   string
}

func ledgerCfg(invariants string) string {
	var cs []string
	for _, a := range types.EmbeddedContracts {
		cs = append(cs, `"`+a.String()+`"`)
	}
	return fmt.Sprintf(`CONSTANTS
  NAdd <- BAdd
  NSub <- BSub
  NLeq <- BLeq
  NZero <- BZero
  Contracts = {%s}
  TokenContract = "%s"
  StrictFifo = TRUE
  TraceFile = "trace.ndjson"
INIT TInit
NEXT TNext
VIEW TraceView
CONSTRAINT HighWater
INVARIANTS %s
POSTCONDITION Accepted
CHECK_DEADLOCK FALSE
`, strings.Join(cs, ","), types.TokenContract.String(), invariants)
}

var reRejected = regexp.MustCompile(`"REJECTED_AT", (\d+)`)

type ledgerVerdict struct {
	Run      string
	Line     int // index into the run's events (0-based) of the offending event, -1 if invariant
	Event    ledger.Event
	Inv      string
	PrevNote string
}

// validateLedgerRuns checks the runs against LedgerTrace.tla. A rejected run is reported and removed,
// the remaining runs are validated again, so every run is examined.
func validateLedgerRuns(runs []ledgerRun, invariants string) (verdicts []ledgerVerdict, states int64, err error) {
	todo := runs
	for len(todo) > 0 {
		var buf bytes.Buffer
		type span struct{ from, to int }
		spans := make([]span, len(todo))
		n := 0
		for i, r := range todo {
			spans[i].from = n + 1
			for _, ev := range r.Events {
				line, e := json.Marshal(ev)
				if e != nil {
					return nil, states, e
				}
				buf.Write(line)
				buf.WriteByte('\n')
				n++
			}
			spans[i].to = n
		}
		if n == 0 {
			return verdicts, states, nil
		}
		rejectedAt := 0
		res, e := core.RunTLC(core.TLCOpts{Module: "LedgerTrace", CfgText: ledgerCfg(invariants), Workers: 1, Timeout: 30 * time.Minute,
			Files: map[string]string{"trace.ndjson": buf.String()},
			OnLine: func(line string) {
				if m := reRejected.FindStringSubmatch(line); m != nil {
					rejectedAt, _ = strconv.Atoi(m[1])
				}
			}})
		if e != nil {
			return nil, states, e
		}
		states += res.Distinct
		if res.Err != "" && res.Violated == "" && rejectedAt == 0 {
			os.WriteFile("/tmp/ledger_fail.ndjson", buf.Bytes(), 0o644)
			return nil, states, fmt.Errorf("TLC error during trace validation: %s (tail: %s)", res.Err, strings.Join(res.Tail, " | "))
		}
		if res.Violated == "" && rejectedAt == 0 {
			return verdicts, states, nil // all accepted
		}
		// locate the run. For an invariant violation TLC stops at the violating state = number of distinct states found so far
		line := rejectedAt
		if res.Violated != "" {
			line = int(res.Distinct) - 1 // states explored: initial + one per consumed line
			if line < 1 {
				line = 1
			}
		}
		idx := -1
		for i, s := range spans {
			if line >= s.from && line <= s.to {
				idx = i
			}
		}
		if idx < 0 {
			return nil, states, fmt.Errorf("cannot locate rejected line %d (violated=%q)", line, res.Violated)
		}
		v := ledgerVerdict{Run: todo[idx].Name, Line: line - spans[idx].from, Inv: res.Violated}
		if v.Line >= 0 && v.Line < len(todo[idx].Events) {
			v.Event = todo[idx].Events[v.Line]
		}
		verdicts = append(verdicts, v)
		todo = append(append([]ledgerRun{}, todo[:idx]...), todo[idx+1:]...)
	}
	return verdicts, states, nil
}

// traceRepoTests compiles a test binary of the repository with the hooks on, runs the tests matching
// runPattern in parallel shards and returns one projected run per chain created by the tests.
func traceRepoTests(pkg, runPattern string, observer func(p *ledger.Projector)) ([]ledgerRun, map[string]int, error) {
	dir, err := os.MkdirTemp(core.Scratch(), "vtrace-")
	if err != nil {
		return nil, nil, err
	}
	defer os.RemoveAll(dir)
	env := append(os.Environ(), "GOFLAGS=-mod=mod", "GOPROXY=off", "GOSUMDB=off", "GOTOOLCHAIN=local")
	bin := filepath.Join(dir, "pkg.test")
	build := exec.Command("go", "test", "-c", "-tags", "verif", "-vet=off", "-o", bin, pkg)
	build.Dir = core.RepoDir
	build.Env = env
	if out, err := build.CombinedOutput(); err != nil {
		return nil, nil, fmt.Errorf("go test -c -tags verif %s failed: %v\n%s", pkg, err, tail(string(out), 2000))
	}
	list := exec.Command(bin, "-test.list", runPattern)
	list.Dir = filepath.Join(core.RepoDir, pkg)
	list.Env = env
	out, err := list.Output()
	if err != nil {
		return nil, nil, fmt.Errorf("listing tests: %v", err)
	}
	var names []string
	for _, n := range strings.Fields(string(out)) {
		if strings.HasPrefix(n, "Test") && n != "TestSimple_MomentumInsertionBenchmark" {
			names = append(names, n)
		}
	}
	if len(names) == 0 {
		return nil, nil, fmt.Errorf("no test matches %q in %s", runPattern, pkg)
	}
	nsh := 16
	if len(names) < nsh {
		nsh = len(names)
	}
	shards := make([][]string, nsh)
	for i, n := range names {
		shards[i%nsh] = append(shards[i%nsh], n)
	}
	errs := make(chan error, nsh)
	for i := range shards {
		go func(i int) {
			sd := filepath.Join(dir, fmt.Sprintf("shard%02d", i))
			os.MkdirAll(sd, 0o755)
			cmd := exec.Command(bin, "-test.run", "^("+strings.Join(shards[i], "|")+")$", "-test.count=1", "-test.timeout=30m")
			cmd.Dir = filepath.Join(core.RepoDir, pkg)
			cmd.Env = append(env, "VERIF_TRACE_DIR="+sd)
			if out, err := cmd.CombinedOutput(); err != nil {
				errs <- fmt.Errorf("repository tests failed under hooks (%v): %s", err, tail(string(out), 1500))
				return
			}
			errs <- nil
		}(i)
	}
	for range shards {
		if e := <-errs; e != nil {
			return nil, nil, e
		}
	}
	files, _ := filepath.Glob(filepath.Join(dir, "shard*", "*.ndjson"))
	sort.Strings(files)
	stats := map[string]int{"tests": len(names)}
	var runs []ledgerRun
	for _, f := range files {
		fh, err := os.Open(f)
		if err != nil {
			return nil, nil, err
		}
		projs := map[int]*ledger.Projector{}
		var order []int
		rd := bufio.NewReaderSize(fh, 1<<20)
		for {
			line, err := rd.ReadBytes('\n')
			if len(bytes.TrimSpace(line)) > 0 {
				e, perr := ledger.ParseRaw(line)
				if perr != nil {
					fh.Close()
					return nil, nil, fmt.Errorf("bad trace line: %v", perr)
				}
				stats["raw_"+e.Ev]++
				if e.Chain != 0 {
					p := projs[e.Chain]
					if p == nil {
						p = ledger.NewProjector()
						if observer != nil {
							observer(p)
						}
						projs[e.Chain] = p
						order = append(order, e.Chain)
					}
					if ferr := p.Feed(e); ferr != nil {
						fh.Close()
						return nil, nil, fmt.Errorf("projector: %v", ferr)
					}
				}
			}
			if err != nil {
				break
			}
		}
		fh.Close()
		for _, c := range order {
			p := projs[c]
			if len(p.Events) <= 2 {
				continue
			}
			runs = append(runs, ledgerRun{Name: fmt.Sprintf("%s %s chain#%d", pkg, filepath.Base(filepath.Dir(f)), c), Events: p.Events, Note: p.Note})
			stats["blocks"] += p.Blocks
			stats["momentums"] += p.Momentums
			stats["truncated_runs"] += p.Truncated
		}
	}
	return runs, stats, nil
}

func tail(s string, n int) string {
	if len(s) > n {
		return s[len(s)-n:]
	}
	return s
}
