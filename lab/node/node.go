// Package node assembles real go-zenon nodes (chain + consensus + supervisor + pillars + chain bridge)
// from the packages under /repo, several per process, for the lab's drivers.
package node

import (
	"path/filepath"

	"fmt"
	"github.com/syndtr/goleveldb/leveldb"
	"os"
	"sync"
	"time"

	"github.com/inconshreveable/log15"

	"github.com/zenon-network/go-zenon/chain"
	"github.com/zenon-network/go-zenon/chain/genesis"
	g "github.com/zenon-network/go-zenon/chain/genesis/mock"
	"github.com/zenon-network/go-zenon/chain/nom"
	"github.com/zenon-network/go-zenon/chain/store"
	"github.com/zenon-network/go-zenon/common"
	"github.com/zenon-network/go-zenon/common/db"
	"github.com/zenon-network/go-zenon/common/types"
	"github.com/zenon-network/go-zenon/consensus"
	"github.com/zenon-network/go-zenon/pillar"
	"github.com/zenon-network/go-zenon/protocol"
	"github.com/zenon-network/go-zenon/verifier"
	"github.com/zenon-network/go-zenon/vm"
	"github.com/zenon-network/go-zenon/wallet"
	"github.com/zenon-network/go-zenon/zenon"
)

// LabClock is the process-wide clock (common.Clock); drivers set it to the slot they are producing.
type LabClock struct {
	mu sync.Mutex
	t  time.Time
}

func (c *LabClock) Now() time.Time {
	c.mu.Lock()
	defer c.mu.Unlock()
	return c.t
}
func (c *LabClock) Set(t time.Time) {
	c.mu.Lock()
	c.t = t
	c.mu.Unlock()
}

var Clock = &LabClock{t: time.Unix(1000000000, 0)}

var quietOnce sync.Once

// Quiet silences the node loggers and installs the lab clock.
func Quiet() {
	quietOnce.Do(func() {
		for _, l := range []common.Logger{common.ZenonLogger, common.ChainLogger, common.SupervisorLogger, common.P2PLogger,
			common.PillarLogger, common.RPCLogger, common.WalletLogger, common.EmbeddedLogger, common.VmLogger,
			common.ProtocolLogger, common.FetcherLogger, common.DownloaderLogger, common.ConsensusLogger} {
			l.SetHandler(log15.DiscardHandler())
		}
		common.Clock = Clock
	})
}

type Node struct {
	Name     string
	Dir      string
	Mgr      db.Manager
	Chain    chain.Chain
	Cons     consensus.Consensus
	Sup      *vm.Supervisor
	Ver      verifier.Verifier
	Bridge   protocol.ChainBridge
	Pillars  []pillar.Manager
	Genesis  store.Genesis
	ownDir   bool
	consLdb  *leveldb.DB
	stopped  bool
	mu       sync.Mutex
	Problems []string // errors swallowed by the broadcaster callbacks
}

// Broadcaster (what a pillar calls for its own momentums and contract receives)
func (n *Node) SyncInfo() *protocol.SyncInfo {
	return &protocol.SyncInfo{State: protocol.SyncDone}
}
func (n *Node) CreateMomentum(tx *nom.MomentumTransaction) {
	insert := n.Chain.AcquireInsert("lab create-momentum")
	defer insert.Unlock()
	if err := n.Chain.AddMomentumTransaction(insert, tx); err != nil {
		n.problem("own momentum %v not inserted: %v", tx.Momentum.Identifier(), err)
	}
}
func (n *Node) CreateAccountBlock(tx *nom.AccountBlockTransaction) {
	insert := n.Chain.AcquireInsert("lab create-account-block")
	defer insert.Unlock()
	if err := n.Chain.AddAccountBlockTransaction(insert, tx); err != nil {
		n.problem("own account block %v not inserted: %v", tx.Block.Header(), err)
	}
}
func (n *Node) problem(format string, args ...interface{}) {
	n.mu.Lock()
	n.Problems = append(n.Problems, fmt.Sprintf(format, args...))
	n.mu.Unlock()
}

type Options struct {
	Dir      string                 // "" = fresh temp dir (removed on Stop)
	Producer bool                   // run the eight mock pillars
	Genesis  *genesis.GenesisConfig // nil = the mock genesis
}

func New(name string, o Options) (*Node, error) {
	Quiet()
	n := &Node{Name: name, Dir: o.Dir}
	if n.Dir == "" {
		base := os.TempDir()
		if st, err := os.Stat("/dev/shm"); err == nil && st.IsDir() {
			base = "/dev/shm"
		}
		if b := os.Getenv("VERIF_NODE_BASE"); b != "" {
			base = b // a child process: inside the scratch directory its parent removes
		}
		d, err := os.MkdirTemp(base, "labnode-")
		if err != nil {
			return nil, err
		}
		n.Dir = d
		n.ownDir = true
	}
	cfg := o.Genesis
	if cfg == nil {
		cfg = g.EmbeddedGenesis
	}
	n.Genesis = genesis.NewGenesis(cfg)
	n.Mgr = db.NewLevelDBManager(n.Dir)
	n.Chain = chain.NewChain(n.Mgr, n.Genesis)
	// as in zenon.NewZenon: the consensus database is a leveldb of its own next to the chain's, and survives a restart
	cdb, cldb := db.NewLevelDB(filepath.Join(n.Dir, "consensus"))
	n.consLdb = cldb
	n.Cons = consensus.NewConsensus(cdb, n.Chain, true)
	if err := n.Chain.Init(); err != nil {
		return nil, err
	}
	if err := n.Cons.Init(); err != nil {
		return nil, err
	}
	n.Chain.Start()
	n.Cons.Start()
	n.Sup = vm.NewSupervisor(n.Chain, n.Cons)
	n.Ver = verifier.NewVerifier(n.Chain, n.Cons)
	n.Bridge = protocol.NewChainBridge(n.Chain, n.Cons, n.Ver, n.Sup)
	if o.Producer {
		for _, key := range g.PillarKeys {
			p := pillar.NewPillar(n.Chain, n.Cons, n)
			p.SetCoinBase(key)
			if err := p.Init(); err != nil {
				return nil, err
			}
			p.Start()
			n.Pillars = append(n.Pillars, p)
		}
	}
	return n, nil
}

func (n *Node) Stop() {
	if n.stopped {
		return
	}
	n.stopped = true
	for _, p := range n.Pillars {
		p.Stop()
	}
	n.Cons.Stop()
	n.Chain.Stop()
	if n.consLdb != nil {
		n.consLdb.Close()
	}
	if n.ownDir {
		os.RemoveAll(n.Dir)
	}
}

// OwnDir makes the node remove its directory when it stops.
func (n *Node) OwnDir() { n.ownDir = true }

// StopKeepDir stops the node but keeps its directory (restart scenarios).
func (n *Node) StopKeepDir() {
	n.ownDir = false
	n.Stop()
}

func (n *Node) Frontier() *nom.Momentum {
	m, err := n.Chain.GetFrontierMomentumStore().GetFrontierMomentum()
	if err != nil {
		panic(err)
	}
	return m
}

func (n *Node) Height() uint64 { return n.Frontier().Height }

// Produce makes the elected pillar produce the momentum of the slot `skip` slots after the next one
// (skip = 0: the very next slot). Contract receives and contract updates follow, as in the pillar worker.
func (n *Node) Produce(skip int) error {
	if len(n.Pillars) == 0 {
		return fmt.Errorf("%s is not a producer", n.Name)
	}
	prev := n.Frontier()
	var t time.Time
	var expected *types.Address
	// a slot whose elected pillar is not run by the lab (a pillar registered during the run) is a missed slot
	for try := 0; ; try++ {
		t = prev.Timestamp.Add(time.Duration(10*(skip+1)) * time.Second)
		Clock.Set(t)
		var err error
		expected, err = n.Cons.GetMomentumProducer(t)
		if err != nil {
			return err
		}
		if expected == nil {
			return fmt.Errorf("no producer for %v", t)
		}
		ours := false
		for _, p := range n.Pillars {
			if *p.GetCoinBase() == *expected {
				ours = true
			}
		}
		if ours {
			break
		}
		if try > 200 {
			return fmt.Errorf("no lab pillar elected in 200 slots after %v (last: %v)", prev.Timestamp, expected)
		}
		skip++
	}
	done := false
	for _, p := range n.Pillars {
		if *p.GetCoinBase() == *expected {
			task := p.Process(consensus.ProducerEvent{Producer: *expected, StartTime: t, EndTime: t.Add(10 * time.Second)})
			if task != nil {
				task.Wait()
			}
			done = true
		}
	}
	if !done {
		return fmt.Errorf("elected producer %v is not one of the lab pillars", expected)
	}
	if n.Frontier().Height != prev.Height+1 {
		return fmt.Errorf("%s: momentum %d was not produced (problems: %v)", n.Name, prev.Height+1, n.Problems)
	}
	Clock.Set(n.Frontier().Timestamp.Add(0))
	return nil
}

func (n *Node) ProduceN(k int) error {
	for i := 0; i < k; i++ {
		if err := n.Produce(0); err != nil {
			return err
		}
	}
	return nil
}

// Submit builds a user block from a template (honest path: supervisor fills in plasma, links, hash, signature)
// and offers it to the node's pool.
func (n *Node) Submit(template *nom.AccountBlock, key *wallet.KeyPair) (*nom.AccountBlock, error) {
	tx, err := n.Sup.GenerateFromTemplate(template, key.Signer)
	if err != nil {
		return nil, err
	}
	insert := n.Chain.AcquireInsert("lab submit")
	defer insert.Unlock()
	if err := n.Chain.AddAccountBlockTransaction(insert, tx); err != nil {
		return nil, err
	}
	return tx.Block, nil
}

// Offer verifies and executes a finished block (as received from a peer) and adds it to the pool.
func (n *Node) Offer(block *nom.AccountBlock) error {
	return n.Bridge.AddAccountBlocks([]*nom.AccountBlock{block})
}

// Detailed returns momentums [from, to] with their account blocks, passed through the protobuf codecs
// so that nothing crosses between nodes as a Go pointer.
func (n *Node) Detailed(from, to uint64) ([]*nom.DetailedMomentum, error) {
	var out []*nom.DetailedMomentum
	st := n.Chain.GetFrontierMomentumStore()
	for h := from; h <= to; h++ {
		m, err := st.GetMomentumByHeight(h)
		if err != nil || m == nil {
			return nil, fmt.Errorf("momentum %d: %v", h, err)
		}
		dm := n.Bridge.GetBlock(m.Hash)
		if dm == nil {
			return nil, fmt.Errorf("momentum %d not found by hash", h)
		}
		rt, err := Wire(dm)
		if err != nil {
			return nil, err
		}
		out = append(out, rt)
	}
	return out, nil
}

// Wire passes a detailed momentum through serialisation, as the network would.
func Wire(dm *nom.DetailedMomentum) (*nom.DetailedMomentum, error) {
	md, err := dm.Momentum.Serialize()
	if err != nil {
		return nil, err
	}
	m, err := nom.DeserializeMomentum(md)
	if err != nil {
		return nil, err
	}
	out := &nom.DetailedMomentum{Momentum: m}
	for _, b := range dm.AccountBlocks {
		c, err := WireBlock(b)
		if err != nil {
			return nil, err
		}
		out.AccountBlocks = append(out.AccountBlocks, c)
	}
	return out, nil
}

func WireBlock(b *nom.AccountBlock) (*nom.AccountBlock, error) {
	data, err := b.Serialize()
	if err != nil {
		return nil, err
	}
	return nom.DeserializeAccountBlock(data)
}

func (n *Node) InsertChain(dms []*nom.DetailedMomentum) (idx int, err error) {
	defer func() {
		if r := recover(); r != nil {
			idx = -1
			err = fmt.Errorf("PANIC in InsertChain: %v", r)
		}
	}()
	return n.Bridge.InsertChain(dms)
}

// Dump returns the logical content of the frontier momentum store (hex key - hex value lines).
func (n *Node) Dump() string { return db.DebugDB(n.Mgr.Frontier()) }

// DumpAt returns the content of the historical view at the given identifier ("" if it cannot be served).
func (n *Node) DumpAt(id types.HashHeight) (s string, ok bool) {
	d := n.Mgr.Get(id)
	if d == nil {
		return "", false
	}
	return db.DebugDB(d), true
}

func (n *Node) MomentumAt(h uint64) *nom.Momentum {
	m, _ := n.Chain.GetFrontierMomentumStore().GetMomentumByHeight(h)
	return m
}

var Users = []*wallet.KeyPair{g.User1, g.User2, g.User3, g.User4, g.User5, g.User6}

// Z adapts a lab node to the zenon.Zenon interface the RPC APIs take.
type Z struct{ N *Node }

func (z Z) Init() error                         { return nil }
func (z Z) Start() error                        { return nil }
func (z Z) Stop() error                         { return nil }
func (z Z) Chain() chain.Chain                  { return z.N.Chain }
func (z Z) Consensus() consensus.Consensus      { return z.N.Cons }
func (z Z) Verifier() verifier.Verifier         { return z.N.Ver }
func (z Z) Protocol() *protocol.ProtocolManager { return nil }
func (z Z) Producer() pillar.Manager            { return nil }
func (z Z) Config() *zenon.Config               { return nil }
func (z Z) Broadcaster() protocol.Broadcaster   { return z.N }

// GenerateMomentum does what pillar.worker.generateMomentum does, with the same public calls, and returns the error
// the worker only logs.
func (n *Node) GenerateMomentum(skip int) (*nom.MomentumTransaction, error) {
	insert := n.Chain.AcquireInsert("lab momentum-generator")
	defer insert.Unlock()
	prev := n.Frontier()
	t := prev.Timestamp.Add(time.Duration(10*(skip+1)) * time.Second)
	Clock.Set(t)
	producer, err := n.Cons.GetMomentumProducer(t)
	if err != nil {
		return nil, err
	}
	var key *wallet.KeyPair
	for _, k := range g.PillarKeys {
		if k.Address == *producer {
			key = k
		}
	}
	if key == nil {
		return nil, fmt.Errorf("no key for producer %v", producer)
	}
	blocks := n.Chain.GetNewMomentumContent()
	m := &nom.Momentum{ChainIdentifier: n.Chain.ChainIdentifier(), PreviousHash: prev.Hash, Height: prev.Height + 1, TimestampUnix: uint64(t.Unix()), Content: nom.NewMomentumContent(blocks), Version: 1}
	m.EnsureCache()
	return n.Sup.GenerateMomentum(&nom.DetailedMomentum{Momentum: m, AccountBlocks: blocks}, key.Signer)
}

// InsertOwn is broadcaster.CreateMomentum: the generated momentum goes into the node's own chain.
func (n *Node) InsertOwn(tx *nom.MomentumTransaction) error {
	insert := n.Chain.AcquireInsert("lab create-momentum")
	defer insert.Unlock()
	return n.Chain.AddMomentumTransaction(insert, tx)
}
