// Package ledger projects raw ledger events (recorded by the verif hooks of package chain) to the
// abstract events of spec/LedgerTrace.tla.
package ledger

import (
	"bytes"
	"encoding/base64"
	"encoding/hex"
	"encoding/json"
	"fmt"
	"math/big"
	"sort"

	"github.com/zenon-network/go-zenon/chain/account"
	"github.com/zenon-network/go-zenon/chain/momentum"
	"github.com/zenon-network/go-zenon/chain/store"
	"github.com/zenon-network/go-zenon/common/db"
	"github.com/zenon-network/go-zenon/common/types"
	"github.com/zenon-network/go-zenon/vm/embedded/definition"
)

// ---- raw events -------------------------------------------------------------------------------

type RawHH struct {
	Hash   string `json:"hash"`
	Height uint64 `json:"height"`
}

type RawBlock struct {
	BlockType        uint64      `json:"blockType"`
	Hash             string      `json:"hash"`
	PreviousHash     string      `json:"previousHash"`
	Height           uint64      `json:"height"`
	MomentumAck      RawHH       `json:"momentumAcknowledged"`
	Address          string      `json:"address"`
	ToAddress        string      `json:"toAddress"`
	Amount           string      `json:"amount"`
	TokenStandard    string      `json:"tokenStandard"`
	FromBlockHash    string      `json:"fromBlockHash"`
	DescendantBlocks []*RawBlock `json:"descendantBlocks"`
	Data             string      `json:"data"`
	FusedPlasma      uint64      `json:"fusedPlasma"`
	Difficulty       uint64      `json:"difficulty"`
	BasePlasma       uint64      `json:"basePlasma"`
	TotalPlasma      uint64      `json:"usedPlasma"`
	ChangesHash      string      `json:"changesHash"`
}

func (b *RawBlock) Amt() *big.Int {
	v, ok := new(big.Int).SetString(b.Amount, 10)
	if !ok {
		return big.NewInt(0)
	}
	return v
}
func (b *RawBlock) DataBytes() []byte {
	d, _ := base64.StdEncoding.DecodeString(b.Data)
	return d
}

type RawMomentum struct {
	Hash         string `json:"hash"`
	PreviousHash string `json:"previousHash"`
	Height       uint64 `json:"height"`
	Timestamp    uint64 `json:"timestamp"`
	Content      []struct {
		Address string `json:"address"`
		Hash    string `json:"hash"`
		Height  uint64 `json:"height"`
	} `json:"content"`
}

type RawEvent struct {
	Ev       string       `json:"ev"`
	Chain    int          `json:"chain"`
	Seq      uint64       `json:"seq"`
	Force    bool         `json:"force"`
	Block    *RawBlock    `json:"block"`
	Patch    string       `json:"patch"`
	Momentum *RawMomentum `json:"momentum"`
	Blocks   []*RawBlock  `json:"blocks"`
	Height   uint64       `json:"height"`
	Hash     string       `json:"hash"`
	Producer string       `json:"producer"`
}

// ---- abstract events --------------------------------------------------------------------------

type Digits []int // BigNat: little-endian base-10^4, normalised

func ToDigits(v *big.Int) Digits {
	d := Digits{}
	if v == nil || v.Sign() <= 0 {
		return d
	}
	x := new(big.Int).Set(v)
	base := big.NewInt(10000)
	m := new(big.Int)
	for x.Sign() > 0 {
		x.DivMod(x, base, m)
		d = append(d, int(m.Int64()))
	}
	return d
}

type TV struct {
	T string `json:"t"`
	V Digits `json:"v"`
}
type ATV struct {
	A string `json:"a"`
	T string `json:"t"`
	V Digits `json:"v"`
}
type Desc struct {
	Id  int    `json:"id"`
	To  string `json:"to"`
	T   string `json:"tok"`
	Amt Digits `json:"amt"`
}
type Sup struct {
	T     string `json:"tok"`
	Total Digits `json:"total"`
	Max   Digits `json:"max"`
}
type GenSup struct {
	T     string `json:"t"`
	Total Digits `json:"total"`
	Max   Digits `json:"max"`
}
type Liab struct {
	C    string `json:"c"`
	T    string `json:"t"`
	Owed Digits `json:"owed"`
	Note string `json:"note,omitempty"`
	// Strict: the contract's balance of this token moves with its locked entries alone (see observe.go)
	Strict bool `json:"strict"`
}

// Event is one line of the abstract trace (fields unused by an event kind are omitted).
type Event map[string]interface{}

// ---- projector --------------------------------------------------------------------------------

type pooled struct {
	id     int
	acct   string
	height uint64
}

type Projector struct {
	Events []Event
	// per run statistics
	Blocks, Momentums, Truncated int
	Note                         string

	mirror   db.DB // mirror of the momentum store, rebuilt from the momentum patches
	ids      map[string]int
	nextID   int
	isSend   map[int]bool
	sendTo   map[int]string
	poolTop  map[string]uint64 // account -> height of its last pooled/confirmed block seen
	started  bool
	dead     bool
	Observer func(p *Projector, h uint64, ms store.Momentum, ev Event) // adds liabilities / rewards to a Mom event
	LastRaw  *RawEvent                                                  // the momentum event being projected (for observers)
	LastMom  uint64
}

func NewProjector() *Projector {
	return &Projector{ids: map[string]int{}, isSend: map[int]bool{}, sendTo: map[int]string{}, poolTop: map[string]uint64{}}
}

func (p *Projector) id(hash string) int {
	if v, ok := p.ids[hash]; ok {
		return v
	}
	p.nextID++
	p.ids[hash] = p.nextID
	return p.nextID
}

func (p *Projector) emit(ev Event) { p.Events = append(p.Events, ev) }

// balances written by an account-level patch: token -> amount
func balancesOfAccountPatch(patchHex string) ([]TV, int, error) {
	raw, err := hex.DecodeString(patchHex)
	if err != nil {
		return nil, 0, err
	}
	if len(raw) == 0 {
		return nil, 0, nil
	}
	pt, err := db.NewPatchFromDump(raw)
	if err != nil {
		return nil, 0, err
	}
	c := &collect{}
	pt.Replay(c)
	var out []TV
	storage := 0
	for _, kv := range c.kvs {
		if len(kv.k) == 11 && kv.k[0] == 3 {
			zts, err := types.BytesToZTS(kv.k[1:])
			if err != nil {
				return nil, 0, err
			}
			var v *big.Int
			if kv.del {
				v = big.NewInt(0)
			} else {
				v = new(big.Int).SetBytes(kv.v)
			}
			out = append(out, TV{zts.String(), ToDigits(v)})
		}
		if len(kv.k) > 0 && kv.k[0] == 4 {
			storage++
		}
	}
	sort.Slice(out, func(i, j int) bool { return out[i].T < out[j].T })
	return out, storage, nil
}

type kv struct {
	k, v []byte
	del  bool
}
type collect struct{ kvs []kv }

func (c *collect) Put(k, v []byte) {
	c.kvs = append(c.kvs, kv{append([]byte{}, k...), append([]byte{}, v...), false})
}
func (c *collect) Delete(k []byte) { c.kvs = append(c.kvs, kv{append([]byte{}, k...), nil, true}) }

// token records written by an account-level patch of the token contract
func tokenInfosOfPatch(patchHex string) ([]Sup, error) {
	raw, err := hex.DecodeString(patchHex)
	if err != nil || len(raw) == 0 {
		return nil, err
	}
	pt, err := db.NewPatchFromDump(raw)
	if err != nil {
		return nil, err
	}
	tmp := db.NewMemDB()
	if err := tmp.Apply(pt); err != nil {
		return nil, err
	}
	st := account.NewAccountStore(types.TokenContract, tmp)
	list, err := definition.GetTokenInfoList(st.Storage())
	if err != nil {
		return nil, err
	}
	var out []Sup
	for _, ti := range list {
		out = append(out, Sup{ti.TokenStandard.String(), ToDigits(ti.TotalSupply), ToDigits(ti.MaxSupply)})
	}
	sort.Slice(out, func(i, j int) bool { return out[i].T < out[j].T })
	return out, nil
}

// Feed consumes one raw event of this projector's chain.
func (p *Projector) Feed(e *RawEvent) error {
	if p.dead {
		return nil
	}
	switch e.Ev {
	case "momentum":
		return p.momentum(e)
	case "block":
		if !p.started {
			return nil
		}
		return p.block(e)
	case "pop":
		p.dead = true
		p.Truncated++
		p.Note = fmt.Sprintf("trace ends at rollback of momentum %d (reorganisations are covered by the Sync checks)", e.Height)
		return nil
	}
	return nil
}

func (p *Projector) block(e *RawEvent) error {
	b := e.Block
	if top, ok := p.poolTop[b.Address]; ok && b.Height <= top {
		p.dead = true
		p.Truncated++
		p.Note = fmt.Sprintf("trace ends at replacement of unconfirmed block %s/%d (covered by the Pool checks)", b.Address, b.Height)
		return nil
	}
	post, storage, err := balancesOfAccountPatch(e.Patch)
	if err != nil {
		return err
	}
	p.Blocks++
	switch b.BlockType {
	case 2: // user send
		id := p.id(b.Hash)
		p.isSend[id] = true
		p.sendTo[id] = b.ToAddress
		p.poolTop[b.Address] = b.Height
		p.emit(Event{"ev": "Send", "id": id, "a": b.Address, "to": b.ToAddress, "t": b.TokenStandard, "v": ToDigits(b.Amt()), "post": nonNil(post)})
	case 3: // user receive
		id := p.id(b.Hash)
		sid := p.id(b.FromBlockHash)
		p.poolTop[b.Address] = b.Height
		name := "Recv"
		if to, ok := p.sendTo[sid]; ok && to != b.Address {
			name = "MisRecv"
		}
		p.emit(Event{"ev": name, "id": id, "a": b.Address, "sid": sid, "post": nonNil(post)})
	case 5: // contract receive (with its descendant sends)
		id := p.id(b.Hash)
		sid := p.id(b.FromBlockHash)
		p.poolTop[b.Address] = b.Height
		status := "ok"
		data := b.DataBytes()
		if len(data) != 8 || data[7] == 2 {
			status = "fail"
		}
		if len(data) == 8 && data[7] != 1 && data[7] != 2 {
			status = "invalid"
		}
		desc := []Desc{}
		for _, d := range b.DescendantBlocks {
			did := p.id(d.Hash)
			p.isSend[did] = true
			p.sendTo[did] = d.ToAddress
			desc = append(desc, Desc{did, d.ToAddress, d.TokenStandard, ToDigits(d.Amt())})
		}
		sup := []Sup{}
		if b.Address == types.TokenContract.String() {
			s, err := tokenInfosOfPatch(e.Patch)
			if err != nil {
				return err
			}
			if s != nil {
				sup = s
			}
		}
		p.emit(Event{"ev": "CRecv", "id": id, "c": b.Address, "sid": sid, "status": status, "desc": desc, "sup": sup,
			"storage": storage, "post": nonNil(post)})
	case 1: // genesis receive: part of the genesis momentum
	default:
		return fmt.Errorf("unexpected block type %d in pool event", b.BlockType)
	}
	return nil
}

func nonNil(tv []TV) []TV {
	if tv == nil {
		return []TV{}
	}
	return tv
}

func (p *Projector) momentum(e *RawEvent) error {
	raw, err := hex.DecodeString(e.Patch)
	if err != nil {
		return err
	}
	pt, err := db.NewPatchFromDump(raw)
	if err != nil {
		return err
	}
	m := e.Momentum
	if m.Height == 1 {
		p.mirror = db.NewMemDB()
		if err := p.mirror.Apply(pt); err != nil {
			return err
		}
		p.started = true
		p.emit(Event{"ev": "Reset"})
		ms := momentum.NewStore(nil, p.mirror)
		bal := AllBalances(p.mirror)
		infos, err := definition.GetTokenInfoList(ms.GetAccountStore(types.TokenContract).Storage())
		if err != nil {
			return err
		}
		sup := []GenSup{}
		for _, ti := range infos {
			sup = append(sup, GenSup{ti.TokenStandard.String(), ToDigits(ti.TotalSupply), ToDigits(ti.MaxSupply)})
		}
		p.emit(Event{"ev": "Genesis", "bal": bal, "supply": sup})
		p.Momentums++
		p.LastMom = 1
		return nil
	}
	if !p.started {
		return nil
	}
	if err := p.mirror.Apply(pt); err != nil {
		return err
	}
	p.Momentums++
	p.LastMom = m.Height
	bids := []int{}
	sids := []int{}
	for _, h := range m.Content {
		id := p.id(h.Hash)
		bids = append(bids, id)
		if p.isSend[id] {
			sids = append(sids, id)
		}
	}
	// balances recorded by the momentum's own patch
	c := &collect{}
	pt.Replay(c)
	cpost := []ATV{}
	for _, kv := range c.kvs {
		// accountStorePrefix(3) ‖ address(20) ‖ balanceKeyPrefix(3) ‖ zts(10)
		if len(kv.k) == 32 && kv.k[0] == 3 && kv.k[21] == 3 {
			addr, err := types.BytesToAddress(kv.k[1:21])
			if err != nil {
				return err
			}
			zts, err := types.BytesToZTS(kv.k[22:])
			if err != nil {
				return err
			}
			v := big.NewInt(0)
			if !kv.del {
				v = new(big.Int).SetBytes(kv.v)
			}
			cpost = append(cpost, ATV{addr.String(), zts.String(), ToDigits(v)})
		}
	}
	ev := Event{"ev": "Mom", "h": m.Height, "bids": bids, "sids": sids, "cpost": cpost, "liab": []Liab{}, "rew": []Rew{},
		"time": m.Timestamp, "rel": []Released{}, "app": []Appeared{}, "pays": []Pay{}}
	p.LastRaw = e
	if p.Observer != nil {
		p.Observer(p, m.Height, momentum.NewStore(nil, p.mirror), ev)
	}
	if len(bids) == 0 && len(cpost) == 0 {
		return nil // empty momentum: nothing to validate
	}
	p.emit(ev)
	return nil
}

// AllBalances scans a momentum store for every balance of every account.
func AllBalances(d db.DB) []ATV {
	out := []ATV{}
	it := d.NewIterator([]byte{3})
	defer it.Release()
	for it.Next() {
		k := it.Key()
		if it.Value() == nil || len(k) != 32 || k[21] != 3 {
			continue
		}
		addr, err1 := types.BytesToAddress(k[1:21])
		zts, err2 := types.BytesToZTS(k[22:])
		if err1 != nil || err2 != nil {
			continue
		}
		out = append(out, ATV{addr.String(), zts.String(), ToDigits(new(big.Int).SetBytes(it.Value()))})
	}
	return out
}

// Mirror gives access to the momentum-store mirror (after the last momentum fed).
func (p *Projector) Mirror() store.Momentum { return momentum.NewStore(nil, p.mirror) }

// ParseRaw parses one ndjson line written by the hooks.
func ParseRaw(line []byte) (*RawEvent, error) {
	var e RawEvent
	dec := json.NewDecoder(bytes.NewReader(line))
	if err := dec.Decode(&e); err != nil {
		return nil, err
	}
	return &e, nil
}
