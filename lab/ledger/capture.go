//go:build verif

package ledger

import (
	"encoding/json"
	"sync"

	"github.com/zenon-network/go-zenon/chain"
)

// Capture collects the raw hook events of all chains of this process in memory.
type Capture struct {
	mu     sync.Mutex
	Events []*RawEvent
}

// StartCapture installs the tracer. Only one capture at a time.
func StartCapture() *Capture {
	c := &Capture{}
	chain.VerifTracer = func(ev chain.VerifEvent) {
		data, err := json.Marshal(ev)
		if err != nil {
			return
		}
		var e RawEvent
		if json.Unmarshal(data, &e) != nil {
			return
		}
		c.mu.Lock()
		c.Events = append(c.Events, &e)
		c.mu.Unlock()
	}
	return c
}

func (c *Capture) Stop() { chain.VerifTracer = nil }

// ChainOf returns the id the hooks gave to the n-th chain initialised after the capture started
// (ids are global per process): the first momentum event with height 1 of each chain id, in order.
func (c *Capture) ChainIDs() []int {
	c.mu.Lock()
	defer c.mu.Unlock()
	seen := map[int]bool{}
	var ids []int
	for _, e := range c.Events {
		if e.Ev == "momentum" && e.Momentum != nil && e.Momentum.Height == 1 && !seen[e.Chain] {
			seen[e.Chain] = true
			ids = append(ids, e.Chain)
		}
	}
	return ids
}

// Project feeds the events of one chain through a projector.
func (c *Capture) Project(chainID int, p *Projector) error {
	c.mu.Lock()
	evs := append([]*RawEvent{}, c.Events...)
	c.mu.Unlock()
	for _, e := range evs {
		if e.Chain == chainID {
			if err := p.Feed(e); err != nil {
				return err
			}
		}
	}
	return nil
}
