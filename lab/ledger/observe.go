package ledger

import (
	"encoding/binary"
	"fmt"
	"math/big"
	"sort"

	"github.com/zenon-network/go-zenon/chain/store"
	"github.com/zenon-network/go-zenon/common/db"
	"github.com/zenon-network/go-zenon/common/types"
	"github.com/zenon-network/go-zenon/vm/constants"
	"github.com/zenon-network/go-zenon/vm/embedded/definition"
)

// Entry is one locked amount a contract owes (C10).
type Entry struct {
	C      string   `json:"c"`
	Kind   string   `json:"kind"`
	Id     string   `json:"id"`
	Owner  string   `json:"owner"`
	T      string   `json:"t"`
	Amt    *big.Int `json:"-"`
	Unlock int64    `json:"unlock"` // time (stake, htlc) or height (fusion); 0 = any time
	Alt    string   `json:"alt,omitempty"`
	Reg    int64    `json:"reg"` // registration time (pillar, sentinel: the revoke window is periodic from here)
}

func storageOf(ms store.Momentum, a types.Address) db.DB {
	return ms.GetAccountStore(a).Storage()
}

// Liabilities lists every locked amount recorded in the contracts' storage.
func Liabilities(ms store.Momentum) []Entry {
	var out []Entry
	znn, qsr := types.ZnnTokenStandard.String(), types.QsrTokenStandard.String()
	// plasma fusions
	{
		st := storageOf(ms, types.PlasmaContract)
		it := st.NewIterator([]byte{1})
		for it.Next() {
			k := it.Key()
			if it.Value() == nil || len(k) != 53 {
				continue
			}
			owner, _ := types.BytesToAddress(k[1:21])
			id, _ := types.BytesToHash(k[21:53])
			if fi, err := definition.GetFusionInfo(st, owner, id); err == nil {
				out = append(out, Entry{C: types.PlasmaContract.String(), Kind: "fusion", Id: id.String(), Owner: owner.String(), T: qsr, Amt: fi.Amount, Unlock: int64(fi.ExpirationHeight), Alt: fi.Beneficiary.String()})
			}
		}
		it.Release()
	}
	// stakes
	definition.IterateStakeEntries(storageOf(ms, types.StakeContract), func(s *definition.StakeInfo) error {
		out = append(out, Entry{C: types.StakeContract.String(), Kind: "stake", Id: s.Id.String(), Owner: s.StakeAddress.String(), T: znn, Amt: s.Amount, Unlock: s.ExpirationTime})
		return nil
	})
	// htlc
	{
		st := storageOf(ms, types.HtlcContract)
		it := st.NewIterator([]byte{1})
		for it.Next() {
			k := it.Key()
			if it.Value() == nil || len(k) != 33 {
				continue
			}
			id, _ := types.BytesToHash(k[1:33])
			if h, err := definition.GetHtlcInfo(st, id); err == nil {
				out = append(out, Entry{C: types.HtlcContract.String(), Kind: "htlc", Id: id.String(), Owner: h.TimeLocked.String(), Alt: h.HashLocked.String(), T: h.TokenStandard.String(), Amt: h.Amount, Unlock: h.ExpirationTime})
			}
		}
		it.Release()
	}
	// pillars: collateral of active pillars, deposited QSR
	if list, err := definition.GetPillarsList(storageOf(ms, types.PillarContract), true, definition.AnyPillarType); err == nil {
		for _, p := range list {
			out = append(out, Entry{C: types.PillarContract.String(), Kind: "pillar", Id: p.Name, Owner: p.StakeAddress.String(), T: znn, Amt: p.Amount, Reg: p.RegistrationTime})
		}
	}
	for _, c := range []types.Address{types.PillarContract, types.SentinelContract} {
		st := storageOf(ms, c)
		it := st.NewIterator([]byte{130})
		for it.Next() {
			k := it.Key()
			if it.Value() == nil || len(k) != 21 {
				continue
			}
			a, _ := types.BytesToAddress(k[1:21])
			if d, err := definition.GetQsrDeposit(st, &a); err == nil && d.Qsr != nil {
				out = append(out, Entry{C: c.String(), Kind: "qsr-deposit", Id: a.String(), Owner: a.String(), T: qsr, Amt: d.Qsr})
			}
		}
		it.Release()
	}
	// sentinels
	definition.IterateSentinelEntries(storageOf(ms, types.SentinelContract), func(s *definition.SentinelInfo) error {
		if s.RevokeTimestamp == 0 {
			out = append(out, Entry{C: types.SentinelContract.String(), Kind: "sentinel-znn", Id: s.Owner.String(), Owner: s.Owner.String(), T: znn, Amt: s.ZnnAmount, Reg: s.RegistrationTimestamp})
			out = append(out, Entry{C: types.SentinelContract.String(), Kind: "sentinel-qsr", Id: s.Owner.String(), Owner: s.Owner.String(), T: qsr, Amt: s.QsrAmount, Reg: s.RegistrationTimestamp})
		}
		return nil
	})
	// liquidity stakes
	definition.IterateLiquidityStakeEntries(storageOf(ms, types.LiquidityContract), func(s *definition.LiquidityStakeEntry) error {
		out = append(out, Entry{C: types.LiquidityContract.String(), Kind: "liquidity-stake", Id: s.Id.String(), Owner: s.StakeAddress.String(), T: s.TokenStandard.String(), Amt: s.Amount, Unlock: s.ExpirationTime})
		return nil
	})
	return out
}

// Released: a locked entry that is gone (or smaller) after a momentum; Appeared: one that is new (or larger);
// Pay: a send by an embedded contract confirmed by the momentum.
type Released struct {
	C      string `json:"c"`
	Kind   string `json:"kind"`
	Owner  string `json:"owner"`
	Alt    string `json:"alt"`
	T      string `json:"t"`
	Amt    Digits `json:"amt"`
	Unlock int64  `json:"unlock"`
	Reg    int64  `json:"reg"`
	Lock   int64  `json:"lock"` // periodic revoke window: locked for Lock seconds, revocable for Win seconds, from Reg on (0/0 = not applicable)
	Win    int64  `json:"win"`
}
type Appeared struct {
	Kind  string `json:"kind"`
	Owner string `json:"owner"`
}
type Pay struct {
	C   string `json:"c"`
	To  string `json:"to"`
	T   string `json:"t"`
	Amt Digits `json:"amt"`
	Ctx int64  `json:"ctx"` // time of the momentum the paying contract receive executed against (0 = unknown)
}

// EntryDiff compares the locked entries before and after a momentum.
func EntryDiff(prev, cur []Entry, windows bool) ([]Released, []Appeared) {
	key := func(e Entry) string { return e.C + "|" + e.Kind + "|" + e.Id + "|" + e.Owner }
	amt := func(e Entry) *big.Int {
		if e.Amt == nil || e.Amt.Sign() < 0 {
			return big.NewInt(0)
		}
		return e.Amt
	}
	now := map[string]Entry{}
	for _, e := range cur {
		now[key(e)] = e
	}
	was := map[string]Entry{}
	for _, e := range prev {
		was[key(e)] = e
	}
	rel, app := []Released{}, []Appeared{}
	for _, e := range prev {
		left := big.NewInt(0)
		if n, ok := now[key(e)]; ok {
			left = amt(n)
		}
		if d := new(big.Int).Sub(amt(e), left); d.Sign() > 0 {
			r := Released{C: e.C, Kind: e.Kind, Owner: e.Owner, Alt: e.Alt, T: e.T, Amt: ToDigits(d), Unlock: e.Unlock, Reg: e.Reg}
			if windows {
				switch e.Kind {
				case "pillar":
					r.Lock, r.Win = constants.PillarEpochLockTime, constants.PillarEpochRevokeTime
				case "sentinel-znn", "sentinel-qsr":
					r.Lock, r.Win = constants.SentinelLockTimeWindow, constants.SentinelRevokeTimeWindow
				}
			}
			rel = append(rel, r)
		}
	}
	for _, e := range cur {
		had := big.NewInt(0)
		if o, ok := was[key(e)]; ok {
			had = amt(o)
		}
		if amt(e).Cmp(had) > 0 {
			app = append(app, Appeared{Kind: e.Kind, Owner: e.Owner})
		}
	}
	return rel, app
}

// ContractPays lists the sends of embedded contracts among the blocks of a momentum (descendants included).
func ContractPays(blocks []*RawBlock, timeOf func(height uint64) int64) []Pay {
	out := []Pay{}
	for _, b := range blocks {
		if b.BlockType != 5 { // nom.BlockTypeContractReceive: its descendants are the contract's sends
			continue
		}
		ctx := int64(0)
		if timeOf != nil {
			ctx = timeOf(b.MomentumAck.Height)
		}
		for _, d := range b.DescendantBlocks {
			if d.BlockType == 4 { // nom.BlockTypeContractSend
				out = append(out, Pay{C: d.Address, To: d.ToAddress, T: d.TokenStandard, Amt: ToDigits(d.Amt()), Ctx: ctx})
			}
		}
	}
	return out
}

// strictKeepers: contracts whose balance of a token moves with their locked entries alone (no rewards paid out of the balance,
// nothing burnt or spent): the surplus over what they owe never shrinks.
var strictKeepers = map[string]bool{types.PlasmaContract.String(): true, types.StakeContract.String(): true, types.HtlcContract.String(): true}

// LiabSums: per contract and token, what the contract owes.
func LiabSums(entries []Entry) []Liab {
	sum := map[[2]string]*big.Int{}
	for _, e := range entries {
		if e.Amt == nil || e.Amt.Sign() <= 0 {
			continue
		}
		k := [2]string{e.C, e.T}
		if sum[k] == nil {
			sum[k] = new(big.Int)
		}
		sum[k].Add(sum[k], e.Amt)
	}
	out := []Liab{}
	for k, v := range sum {
		out = append(out, Liab{C: k[0], T: k[1], Owed: ToDigits(v), Strict: strictKeepers[k[0]]})
	}
	sort.Slice(out, func(i, j int) bool { return out[i].C+out[i].T < out[j].C+out[j].T })
	return out
}

// ---- rewards (C11) ----------------------------------------------------------------------------

type EpochCredit struct {
	E      int    `json:"e"`
	Znn    Digits `json:"znn"`
	Qsr    Digits `json:"qsr"`
	CapZnn Digits `json:"capZnn"`
	CapQsr Digits `json:"capQsr"`
}
type Rew struct {
	C    string        `json:"c"`
	Last int           `json:"last"`
	Hist []EpochCredit `json:"hist"`
	DZnn Digits        `json:"depZnn"` // sum of uncollected deposits
	DQsr Digits        `json:"depQsr"`
	// Unconditional: the contract pays every epoch it consumes whatever the participants (the liquidity contract before the
	// bridge-and-liquidity spork mints the epoch's emission to itself); Paid = epochs paid by the receives of this momentum
	Unconditional bool `json:"unconditional"`
	Paid          int  `json:"paid"`
	// bookkeeping of collections: everything ever credited (the sum over Hist), and what the contract asked the token contract
	// to mint for somebody else in this momentum's receives
	SumZnn  Digits `json:"sumZnn"`
	SumQsr  Digits `json:"sumQsr"`
	MintZnn Digits `json:"mintZnn"`
	MintQsr Digits `json:"mintQsr"`
	Known   bool   `json:"known"` // the momentum's blocks were available: MintZnn / MintQsr are meaningful
}

// mintsAskedBy: the ZNN and QSR the contract c asked the token contract to mint for an address other than itself, in the
// descendants of its receives among blocks.
func mintsAskedBy(c string, blocks []*RawBlock) (*big.Int, *big.Int) {
	z, q := new(big.Int), new(big.Int)
	for _, b := range blocks {
		if b.BlockType != 5 || b.Address != c {
			continue
		}
		for _, d := range b.DescendantBlocks {
			if d.ToAddress != types.TokenContract.String() {
				continue
			}
			param := new(definition.MintParam)
			if definition.ABIToken.UnpackMethod(param, definition.MintMethodName, d.DataBytes()) != nil || param.ReceiveAddress.String() == c {
				continue
			}
			switch param.TokenStandard {
			case types.ZnnTokenStandard:
				z.Add(z, param.Amount)
			case types.QsrTokenStandard:
				q.Add(q, param.Amount)
			}
		}
	}
	return z, q
}

// LegacyLiquidity is set by drivers that know the liquidity contract runs its pre-spork update (lab walks without the HTLC /
// bridge sporks). Unknown (traced repository tests) = false: the rule is not applied.
var LegacyLiquidity bool

// liquidityEpochsPaid counts the epochs the liquidity contract pays in a momentum: one ZNN mint to itself per epoch.
func liquidityEpochsPaid(blocks []*RawBlock) int {
	n := 0
	for _, b := range blocks {
		if b.BlockType != 5 || b.Address != types.LiquidityContract.String() {
			continue
		}
		for _, d := range b.DescendantBlocks {
			if d.ToAddress != types.TokenContract.String() {
				continue
			}
			data := d.DataBytes()
			param := new(definition.MintParam)
			if definition.ABIToken.UnpackMethod(param, definition.MintMethodName, data) == nil &&
				param.TokenStandard == types.ZnnTokenStandard && param.ReceiveAddress == types.LiquidityContract {
				n++
			}
		}
	}
	return n
}

// Emission cap of contract c for epoch e. epochMomentums is the number of momentum slots of an epoch
// (constants.MomentumsPerEpoch for 24 h epochs).
func EmissionCap(c types.Address, e uint64, epochMomentums int64) (*big.Int, *big.Int) {
	switch c {
	case types.PillarContract:
		if epochMomentums <= 0 {
			// unknown configuration of the traced process (tests change constants.MomentumsPerEpoch): no bound
			return new(big.Int).Exp(big.NewInt(10), big.NewInt(60), nil), big.NewInt(0)
		}
		d, p := constants.PillarRewardPerMomentum(e)
		t := new(big.Int).Add(d, p)
		return t.Mul(t, big.NewInt(epochMomentums)), big.NewInt(0)
	case types.SentinelContract:
		return constants.SentinelRewardForEpoch(e)
	case types.StakeContract:
		return big.NewInt(0), constants.StakeQsrRewardPerEpoch(e)
	case types.LiquidityContract:
		return constants.LiquidityRewardForEpoch(e)
	}
	return big.NewInt(0), big.NewInt(0)
}

var RewardContracts = []types.Address{types.PillarContract, types.SentinelContract, types.StakeContract, types.LiquidityContract}

// extra holds, per reward contract, an allowance on top of the protocol emission: the liquidity
// contract distributes an administrator-configured additional reward out of its own (donated) balance.
func Rewards(ms store.Momentum, epochMomentums int64, extra map[string][2]*big.Int) []Rew {
	out := []Rew{}
	for _, c := range RewardContracts {
		st := storageOf(ms, c)
		last, err := definition.GetLastEpochUpdate(st)
		if err != nil {
			continue
		}
		r := Rew{C: c.String(), Last: int(last.LastEpoch), Hist: []EpochCredit{}}
		sums := map[uint64][2]*big.Int{}
		it := st.NewIterator([]byte{132})
		for it.Next() {
			k := it.Key()
			if it.Value() == nil || len(k) != 29 {
				continue
			}
			a, _ := types.BytesToAddress(k[1:21])
			e := binary.LittleEndian.Uint64(k[21:29])
			h, err := definition.GetRewardDepositHistory(st, e, &a)
			if err != nil {
				continue
			}
			s, ok := sums[e]
			if !ok {
				s = [2]*big.Int{new(big.Int), new(big.Int)}
			}
			s[0].Add(s[0], h.Znn)
			s[1].Add(s[1], h.Qsr)
			sums[e] = s
		}
		it.Release()
		var es []uint64
		for e := range sums {
			es = append(es, e)
		}
		sort.Slice(es, func(i, j int) bool { return es[i] < es[j] })
		for _, e := range es {
			cz, cq := EmissionCap(c, e, epochMomentums)
			if x, ok := extra[c.String()]; ok {
				cz = new(big.Int).Add(cz, x[0])
				cq = new(big.Int).Add(cq, x[1])
			}
			r.Hist = append(r.Hist, EpochCredit{E: int(e), Znn: ToDigits(sums[e][0]), Qsr: ToDigits(sums[e][1]), CapZnn: ToDigits(cz), CapQsr: ToDigits(cq)})
		}
		dz, dq := new(big.Int), new(big.Int)
		it = st.NewIterator([]byte{128})
		for it.Next() {
			k := it.Key()
			if it.Value() == nil || len(k) != 21 {
				continue
			}
			a, _ := types.BytesToAddress(k[1:21])
			if d, err := definition.GetRewardDeposit(st, &a); err == nil {
				dz.Add(dz, d.Znn)
				dq.Add(dq, d.Qsr)
			}
		}
		it.Release()
		r.DZnn, r.DQsr = ToDigits(dz), ToDigits(dq)
		sz, sq := new(big.Int), new(big.Int)
		for _, e := range es {
			sz.Add(sz, sums[e][0])
			sq.Add(sq, sums[e][1])
		}
		r.SumZnn, r.SumQsr = ToDigits(sz), ToDigits(sq)
		r.MintZnn, r.MintQsr = ToDigits(new(big.Int)), ToDigits(new(big.Int))
		out = append(out, r)
	}
	return out
}

// StandardObserver adds liabilities and rewards to every Mom event.
func StandardObserver(epochMomentums int64) func(p *Projector, h uint64, ms store.Momentum, ev Event) {
	maxAdd := [2]*big.Int{new(big.Int), new(big.Int)}
	var prev []Entry
	havePrev := false
	beneficiaries := map[string]bool{} // every address fused for so far (its counter must go back to zero when the fusions are cancelled)
	return func(p *Projector, h uint64, ms store.Momentum, ev Event) {
		entries := Liabilities(ms)
		// the plasma an account can use is computed from a per-beneficiary counter kept next to the fusion entries: the two agree
		fused := map[string]*big.Int{}
		for _, e := range entries {
			if e.Kind == "fusion" {
				beneficiaries[e.Alt] = true
				if fused[e.Alt] == nil {
					fused[e.Alt] = new(big.Int)
				}
				fused[e.Alt].Add(fused[e.Alt], e.Amt)
			}
		}
		bad := []string{}
		for a := range beneficiaries {
			addr, err := types.ParseAddress(a)
			if err != nil {
				continue
			}
			want := fused[a]
			if want == nil {
				want = new(big.Int)
			}
			if got, err := ms.GetStakeBeneficialAmount(addr); err != nil || got == nil || got.Cmp(want) != 0 {
				bad = append(bad, fmt.Sprintf("%s: counter %v, entries %v", a, got, want))
			}
		}
		sort.Strings(bad)
		ev["fusebad"] = bad
		if havePrev && p.LastRaw != nil {
			ev["rel"], ev["app"] = EntryDiff(prev, entries, epochMomentums > 0)
			ev["pays"] = ContractPays(p.LastRaw.Blocks, func(h uint64) int64 {
				if m, err := ms.GetMomentumByHeight(h); err == nil && m != nil {
					return m.Timestamp.Unix()
				}
				return 0
			})
		}
		prev, havePrev = entries, true
		ev["liab"] = LiabSums(entries)
		if li, err := definition.GetLiquidityInfo(storageOf(ms, types.LiquidityContract)); err == nil && li != nil {
			if li.ZnnReward != nil && li.ZnnReward.Cmp(maxAdd[0]) > 0 {
				maxAdd[0] = new(big.Int).Set(li.ZnnReward)
			}
			if li.QsrReward != nil && li.QsrReward.Cmp(maxAdd[1]) > 0 {
				maxAdd[1] = new(big.Int).Set(li.QsrReward)
			}
		}
		rews := Rewards(ms, epochMomentums, map[string][2]*big.Int{types.LiquidityContract.String(): maxAdd})
		if p.LastRaw != nil {
			for i := range rews {
				z, q := mintsAskedBy(rews[i].C, p.LastRaw.Blocks)
				rews[i].MintZnn, rews[i].MintQsr, rews[i].Known = ToDigits(z), ToDigits(q), true
			}
		}
		if LegacyLiquidity && p.LastRaw != nil {
			for i := range rews {
				if rews[i].C == types.LiquidityContract.String() {
					rews[i].Unconditional = true
					rews[i].Paid = liquidityEpochsPaid(p.LastRaw.Blocks)
				}
			}
		}
		ev["rew"] = rews
	}
}
