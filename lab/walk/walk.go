// Package walk drives a producing lab node through seeded histories that mix transfers, receives and
// calls to the embedded contracts (valid, failing-with-refund, repeated, by strangers, too early).
package walk

import (
	"fmt"
	"math/big"
	"math/rand"
	"time"

	g "github.com/zenon-network/go-zenon/chain/genesis/mock"
	"github.com/zenon-network/go-zenon/chain/nom"
	"github.com/zenon-network/go-zenon/common/types"
	"github.com/zenon-network/go-zenon/consensus"
	"github.com/zenon-network/go-zenon/vm/constants"
	"github.com/zenon-network/go-zenon/vm/embedded/definition"
	"github.com/zenon-network/go-zenon/wallet"

	"verif/lab/node"
)

// LabConstants shortens the protocol's `var` windows the way the repository's tests do, so that
// expiries and epoch boundaries are a few momentums away. EpochMomentums is the resulting epoch length.
const EpochMomentums = 60

// UpdateMomentums: a reward contract accepts an Update only this many momentums after the previous one.
const UpdateMomentums = 20

func LabConstants() {
	consensus.EpochDuration = 10 * time.Minute
	constants.MomentumsPerEpoch = EpochMomentums
	constants.RewardTimeLimit = 60
	constants.UpdateMinNumMomentums = UpdateMomentums
	constants.FuseExpiration = 6
	constants.StakeTimeUnitSec = 60
	constants.StakeTimeMinSec = 60
	constants.StakeTimeMaxSec = 60 * 12
	constants.SentinelLockTimeWindow = 200
	constants.SentinelRevokeTimeWindow = 100
	constants.PillarEpochLockTime = 200
	constants.PillarEpochRevokeTime = 100
}

type lock struct {
	owner *wallet.KeyPair
	id    types.Hash
}

type World struct {
	N           *node.Node
	R           *rand.Rand
	Pending     map[types.Address][]types.Hash // confirmed sends to user accounts not yet received
	ToContracts []types.Hash                   // recent confirmed sends addressed to embedded contracts
	Fusions     []lock
	Stakes      []lock
	Htlcs       []htlc
	Tokens      []token
	Log         []string
	// statistics
	Submitted, RejectedAtSend int
	Methods                   map[string]int
	scanned                   uint64
	HtlcOn                    bool
	StallCount                int
	Stalls                    bool // now and then no momentum for one to three epochs
}

type htlc struct {
	lock
	hashLocked *wallet.KeyPair
	preimage   []byte
}
type token struct {
	owner *wallet.KeyPair
	zts   types.ZenonTokenStandard
}

func New(n *node.Node, seed int64) *World {
	return &World{N: n, R: rand.New(rand.NewSource(seed)), Pending: map[types.Address][]types.Hash{}, Methods: map[string]int{}, scanned: 1}
}

func (w *World) user() *wallet.KeyPair { return node.Users[w.R.Intn(len(node.Users))] }

func (w *World) note(format string, a ...interface{}) {
	if len(w.Log) < 4000 {
		w.Log = append(w.Log, fmt.Sprintf(format, a...))
	}
}

func (w *World) balance(a types.Address, t types.ZenonTokenStandard) *big.Int {
	b, err := w.N.Chain.GetFrontierAccountStore(a).GetBalance(t)
	if err != nil || b == nil {
		return big.NewInt(0)
	}
	return b
}

// submit offers a user block; returns the block if the pool accepted it
func (w *World) submit(what string, key *wallet.KeyPair, b *nom.AccountBlock) *nom.AccountBlock {
	b.Address = key.Address
	if b.Amount == nil {
		b.Amount = big.NewInt(0)
	}
	w.Submitted++
	blk, err := w.N.Submit(b, key)
	if err != nil {
		w.RejectedAtSend++
		w.note("h%d %s by %s: refused (%v)", w.N.Height(), what, key.Address.String()[:8], err)
		return nil
	}
	w.Methods[what]++
	w.note("h%d %s by %s: accepted %s", w.N.Height(), what, key.Address.String()[:8], blk.Hash.String()[:8])
	return blk
}

func (w *World) call(what string, key *wallet.KeyPair, c types.Address, t types.ZenonTokenStandard, amt *big.Int, data []byte) *nom.AccountBlock {
	return w.submit(what, key, &nom.AccountBlock{BlockType: nom.BlockTypeUserSend, ToAddress: c, TokenStandard: t, Amount: amt, Data: data})
}

// boundary returns a boundary value of the unsigned 256-bit range (argument class "boundary integers").
func (w *World) boundary() *big.Int {
	p := func(e uint) *big.Int { return new(big.Int).Lsh(big.NewInt(1), e) }
	vals := []*big.Int{big.NewInt(0), big.NewInt(1), p(63), new(big.Int).Sub(p(64), big.NewInt(1)), p(64),
		new(big.Int).Sub(p(255), big.NewInt(1)), p(255), new(big.Int).Sub(p(256), big.NewInt(1))}
	return vals[w.R.Intn(len(vals))]
}

func units(n int64) *big.Int { return new(big.Int).Mul(big.NewInt(n), big.NewInt(constants.Decimals)) }

func (w *World) amount(max int64) *big.Int {
	switch w.R.Intn(10) {
	case 0:
		return big.NewInt(0)
	case 1:
		return big.NewInt(1)
	default:
		return units(1 + w.R.Int63n(max))
	}
}

// scan looks at the momentums produced since the last scan and remembers sends to user accounts
func (w *World) scan() {
	for h := w.scanned + 1; h <= w.N.Height(); h++ {
		m := w.N.MomentumAt(h)
		dm := w.N.Bridge.GetBlock(m.Hash)
		for _, b := range dm.AccountBlocks {
			if b.IsSendBlock() && !types.IsEmbeddedAddress(b.ToAddress) {
				w.Pending[b.ToAddress] = append(w.Pending[b.ToAddress], b.Hash)
			}
			if b.IsSendBlock() && types.IsEmbeddedAddress(b.ToAddress) && b.Amount != nil && b.Amount.Sign() > 0 {
				w.ToContracts = append(w.ToContracts, b.Hash)
				if len(w.ToContracts) > 8 {
					w.ToContracts = w.ToContracts[1:]
				}
			}
		}
	}
	w.scanned = w.N.Height()
}

// ReceivePending receives everything confirmed for key's account.
func (w *World) ReceivePending(key *wallet.KeyPair) {
	w.scan()
	for _, h := range w.Pending[key.Address] {
		w.submit("receive", key, &nom.AccountBlock{BlockType: nom.BlockTypeUserReceive, FromBlockHash: h})
	}
	w.Pending[key.Address] = nil
}

func (w *World) keyOf(a types.Address) *wallet.KeyPair {
	for _, k := range g.AllKeyPairs {
		if k.Address == a {
			return k
		}
	}
	return nil
}

// Step performs one random action.
func (w *World) Step() {
	u := w.user()
	znn, qsr := types.ZnnTokenStandard, types.QsrTokenStandard
	switch k := w.R.Intn(35); {
	case k < 4: // plain transfer
		t := znn
		if w.R.Intn(2) == 0 {
			t = qsr
		}
		if w.R.Intn(6) == 0 {
			// a data-only send: no token at all
			w.submit("transfer-data-only", u, &nom.AccountBlock{BlockType: nom.BlockTypeUserSend, ToAddress: w.user().Address, TokenStandard: types.ZeroTokenStandard, Amount: big.NewInt(0), Data: []byte("note")})
			break
		}
		w.submit("transfer", u, &nom.AccountBlock{BlockType: nom.BlockTypeUserSend, ToAddress: w.user().Address, TokenStandard: t, Amount: w.amount(50)})
	case k < 8: // receive something pending (by the addressee, sometimes by a stranger)
		if len(w.ToContracts) > 0 && w.R.Intn(4) == 0 {
			// a user account tries to receive a send that was addressed to an embedded contract
			w.submit("receive-of-contract-send", u, &nom.AccountBlock{BlockType: nom.BlockTypeUserReceive, FromBlockHash: w.ToContracts[w.R.Intn(len(w.ToContracts))]})
			break
		}
		for a, list := range w.Pending {
			if len(list) == 0 {
				continue
			}
			key := w.keyOf(a)
			if key == nil {
				continue
			}
			if w.R.Intn(8) == 0 {
				key = w.user() // a stranger tries
			}
			h := list[0]
			if b := w.submit("receive", key, &nom.AccountBlock{BlockType: nom.BlockTypeUserReceive, FromBlockHash: h}); b != nil && key.Address == a {
				w.Pending[a] = list[1:]
			}
			if w.R.Intn(3) == 0 { // try to receive it a second time
				w.submit("receive-again", key, &nom.AccountBlock{BlockType: nom.BlockTypeUserReceive, FromBlockHash: h})
			}
			break
		}
	case k < 10: // fuse
		ftok := qsr
		if w.R.Intn(5) == 0 {
			ftok = znn // the wrong token, in an amount that would do
		}
		if b := w.call("plasma.Fuse", u, types.PlasmaContract, ftok, units(10+w.R.Int63n(30)),
			definition.ABIPlasma.PackMethodPanic(definition.FuseMethodName, w.user().Address)); b != nil {
			w.Fusions = append(w.Fusions, lock{u, b.Hash})
		}
	case k < 12: // cancel a fusion: own or somebody else's, expired or not, possibly again
		if len(w.Fusions) > 0 {
			l := w.Fusions[w.R.Intn(len(w.Fusions))]
			key := l.owner
			if w.R.Intn(4) == 0 {
				key = w.user()
			}
			w.call("plasma.CancelFuse", key, types.PlasmaContract, types.ZeroTokenStandard, big.NewInt(0),
				definition.ABIPlasma.PackMethodPanic(definition.CancelFuseMethodName, l.id))
		}
	case k < 14: // stake
		dur := constants.StakeTimeUnitSec * (1 + w.R.Int63n(3))
		if b := w.call("stake.Stake", u, types.StakeContract, znn, units(1+w.R.Int63n(20)),
			definition.ABIStake.PackMethodPanic(definition.StakeMethodName, dur)); b != nil {
			w.Stakes = append(w.Stakes, lock{u, b.Hash})
		}
	case k < 16:
		if len(w.Stakes) > 0 {
			l := w.Stakes[w.R.Intn(len(w.Stakes))]
			key := l.owner
			if w.R.Intn(4) == 0 {
				key = w.user()
			}
			w.call("stake.Cancel", key, types.StakeContract, types.ZeroTokenStandard, big.NewInt(0),
				definition.ABIStake.PackMethodPanic(definition.CancelStakeMethodName, l.id))
		}
	case k < 17:
		names := []string{"TEST-pillar-1", "TEST-pillar-cool", "TEST-pillar-znn", "no-such-pillar"}
		w.call("pillar.Delegate", u, types.PillarContract, types.ZeroTokenStandard, big.NewInt(0),
			definition.ABIPillars.PackMethodPanic(definition.DelegateMethodName, names[w.R.Intn(len(names))]))
	case k < 18:
		w.call("pillar.Undelegate", u, types.PillarContract, types.ZeroTokenStandard, big.NewInt(0),
			definition.ABIPillars.PackMethodPanic(definition.UndelegateMethodName))
	case k < 20: // deposit / withdraw QSR at pillar or sentinel contract
		c := types.PillarContract
		if w.R.Intn(2) == 0 {
			c = types.SentinelContract
		}
		if w.R.Intn(2) == 0 {
			w.call("DepositQsr", u, c, qsr, w.amount(100), definition.ABIPillars.PackMethodPanic(definition.DepositQsrMethodName))
		} else {
			w.call("WithdrawQsr", u, c, types.ZeroTokenStandard, big.NewInt(0), definition.ABIPillars.PackMethodPanic(definition.WithdrawQsrMethodName))
		}
	case k < 22: // token: issue / mint / burn
		switch w.R.Intn(3) {
		case 0:
			name := fmt.Sprintf("tok%d", w.R.Intn(1000))
			max := units(1000)
			total := units(int64(w.R.Intn(500)))
			if w.R.Intn(3) == 0 { // boundary supplies, mintable or not
				max = w.boundary()
				total = max
				if w.R.Intn(2) == 0 {
					total = w.boundary()
				}
			}
			mintable := w.R.Intn(3) != 0
			if !mintable && w.R.Intn(4) != 0 {
				total = max // the only shape a non-mintable token is accepted in
			}
			if b := w.call("token.Issue", u, types.TokenContract, znn, constants.TokenIssueAmount,
				definition.ABIToken.PackMethodPanic(definition.IssueMethodName, name, "T"+fmt.Sprint(w.R.Intn(99)), "", total, max, uint8(w.R.Intn(19)), mintable, w.R.Intn(2) == 0, w.R.Intn(2) == 0)); b != nil {
				w.Tokens = append(w.Tokens, token{u, types.NewZenonTokenStandard(b.Hash.Bytes())})
			}
		case 1:
			if len(w.Tokens) > 0 {
				t := w.Tokens[w.R.Intn(len(w.Tokens))]
				key := t.owner
				if w.R.Intn(3) == 0 {
					key = w.user()
				}
				amt := units(1 + w.R.Int63n(700)) // sometimes beyond the maximum supply
				if w.R.Intn(4) == 0 {
					amt = w.boundary()
				}
				w.call("token.Mint", key, types.TokenContract, types.ZeroTokenStandard, big.NewInt(0),
					definition.ABIToken.PackMethodPanic(definition.MintMethodName, t.zts, amt, w.user().Address))
			}
		case 2:
			t := znn
			if len(w.Tokens) > 0 && w.R.Intn(2) == 0 {
				t = w.Tokens[w.R.Intn(len(w.Tokens))].zts
			}
			w.call("token.Burn", u, types.TokenContract, t, w.amount(5), definition.ABIToken.PackMethodPanic(definition.BurnMethodName))
		}
	case k < 24: // collect rewards / trigger updates
		cs := []types.Address{types.PillarContract, types.SentinelContract, types.StakeContract, types.LiquidityContract}
		c := cs[w.R.Intn(len(cs))]
		if w.R.Intn(2) == 0 {
			w.call("CollectReward", u, c, types.ZeroTokenStandard, big.NewInt(0), definition.ABICommon.PackMethodPanic(definition.CollectRewardMethodName))
		} else {
			w.call("Update", u, c, types.ZeroTokenStandard, big.NewInt(0), definition.ABICommon.PackMethodPanic(definition.UpdateMethodName))
		}
	case k < 26: // sentinel register / revoke
		if w.R.Intn(2) == 0 {
			w.call("sentinel.Register", u, types.SentinelContract, znn, constants.SentinelZnnRegisterAmount,
				definition.ABISentinel.PackMethodPanic(definition.RegisterSentinelMethodName))
		} else {
			w.call("sentinel.Revoke", u, types.SentinelContract, types.ZeroTokenStandard, big.NewInt(0),
				definition.ABISentinel.PackMethodPanic(definition.RevokeSentinelMethodName))
		}
	case k < 28 && w.HtlcOn: // htlc create
		pre := []byte(fmt.Sprintf("preimage-%d", w.R.Int63()))
		hl := w.user()
		lockH := types.NewHash(pre)
		exp := w.N.Frontier().Timestamp.Unix() + 40 + w.R.Int63n(80)
		if b := w.call("htlc.Create", u, types.HtlcContract, znn, w.amount(10),
			definition.ABIHtlc.PackMethodPanic(definition.CreateHtlcMethodName, hl.Address, exp, uint8(0), uint8(32), lockH.Bytes())); b != nil {
			w.Htlcs = append(w.Htlcs, htlc{lock{u, b.Hash}, hl, pre})
		}
	case k < 30 && w.HtlcOn:
		if len(w.Htlcs) > 0 {
			h := w.Htlcs[w.R.Intn(len(w.Htlcs))]
			switch w.R.Intn(4) {
			case 0:
				w.call("htlc.Reclaim", h.owner, types.HtlcContract, types.ZeroTokenStandard, big.NewInt(0), definition.ABIHtlc.PackMethodPanic(definition.ReclaimHtlcMethodName, h.id))
			case 1:
				w.call("htlc.Unlock", h.hashLocked, types.HtlcContract, types.ZeroTokenStandard, big.NewInt(0), definition.ABIHtlc.PackMethodPanic(definition.UnlockHtlcMethodName, h.id, h.preimage))
			case 2:
				w.call("htlc.Unlock-wrong", w.user(), types.HtlcContract, types.ZeroTokenStandard, big.NewInt(0), definition.ABIHtlc.PackMethodPanic(definition.UnlockHtlcMethodName, h.id, []byte("wrong")))
			case 3:
				w.call("htlc.Reclaim-stranger", w.user(), types.HtlcContract, types.ZeroTokenStandard, big.NewInt(0), definition.ABIHtlc.PackMethodPanic(definition.ReclaimHtlcMethodName, h.id))
			}
		}
	case k < 33: // pillar registration by a funded non-pillar account: deposit QSR, register (with the right or a wrong collateral), revoke
		key := g.Pillar4
		switch w.R.Intn(4) {
		case 0:
			w.call("pillar.DepositQsr", key, types.PillarContract, qsr, units(150000), definition.ABIPillars.PackMethodPanic(definition.DepositQsrMethodName))
		case 1, 2:
			amt, tok := constants.PillarStakeAmount, znn
			switch w.R.Intn(4) {
			case 0:
				amt = units(1)
			case 1:
				tok = qsr
			}
			w.call("pillar.Register", key, types.PillarContract, tok, amt,
				definition.ABIPillars.PackMethodPanic(definition.RegisterMethodName, g.Pillar4Name, key.Address, w.user().Address, uint8(w.R.Intn(101)), uint8(w.R.Intn(101)))) // rewards go to somebody else
		case 3:
			w.call("pillar.Revoke", key, types.PillarContract, types.ZeroTokenStandard, big.NewInt(0),
				definition.ABIPillars.PackMethodPanic(definition.RevokeMethodName, g.Pillar4Name))
		}
	case k < 35: // token: update (owner / mintable / burnable) - often right after a mint or burn of the same token
		if len(w.Tokens) > 0 {
			t := w.Tokens[w.R.Intn(len(w.Tokens))]
			if w.R.Intn(2) == 0 {
				w.call("token.Mint", t.owner, types.TokenContract, types.ZeroTokenStandard, big.NewInt(0),
					definition.ABIToken.PackMethodPanic(definition.MintMethodName, t.zts, units(1+w.R.Int63n(20)), w.user().Address))
			}
			w.call("token.Update", t.owner, types.TokenContract, types.ZeroTokenStandard, big.NewInt(0),
				definition.ABIToken.PackMethodPanic(definition.UpdateTokenMethodName, t.zts, t.owner.Address, true, true))
		}
	default:
		w.submit("transfer", u, &nom.AccountBlock{BlockType: nom.BlockTypeUserSend, ToAddress: w.user().Address, TokenStandard: znn, Amount: w.amount(5)})
	}
}

// Run performs `momentums` rounds: a few actions, then one momentum (sometimes after skipped slots).
func (w *World) Run(momentums int) error {
	for i := 0; i < momentums; i++ {
		for k := w.R.Intn(4); k > 0; k-- {
			w.Step()
		}
		skip := 0
		if w.R.Intn(10) == 0 {
			skip = 1 + w.R.Intn(2)
		}
		if w.Stalls && w.R.Intn(50) == 0 {
			// the network stalls for one to three epochs: the next Update of each reward contract has several epochs to catch up
			skip = EpochMomentums + w.R.Intn(2*EpochMomentums)
			w.StallCount++
		}
		if err := w.N.Produce(skip); err != nil {
			return err
		}
		w.scan()
	}
	return nil
}

// Drain produces momentums without new user blocks until every contract inbox is empty (or gives up).
func (w *World) Drain(max int) (drained bool, err error) {
	for i := 0; i < max; i++ {
		if w.InboxesEmpty() {
			return true, nil
		}
		if err := w.N.Produce(0); err != nil {
			return false, err
		}
		w.scan()
	}
	return w.InboxesEmpty(), nil
}

// InboxesEmpty: every confirmed send to an embedded contract has been received (pool inclusive).
func (w *World) InboxesEmpty() bool {
	ms := w.N.Chain.GetFrontierMomentumStore()
	for _, c := range types.EmbeddedContracts {
		if w.N.Chain.GetFrontierAccountStore(c).SequencerFront(ms.GetAccountMailbox(c)) != nil {
			return false
		}
	}
	return true
}

// ActivateSpork creates and activates a spork with the genesis spork key and waits for its enforcement.
func (w *World) ActivateSpork(name string) (types.Hash, error) {
	b := w.call("spork.Create", g.Spork, types.SporkContract, types.ZeroTokenStandard, big.NewInt(0),
		definition.ABISpork.PackMethodPanic(definition.SporkCreateMethodName, name, "lab spork "+name))
	if b == nil {
		return types.ZeroHash, fmt.Errorf("spork create refused")
	}
	if err := w.N.ProduceN(2); err != nil {
		return types.ZeroHash, err
	}
	id := b.Hash
	if a := w.call("spork.Activate", g.Spork, types.SporkContract, types.ZeroTokenStandard, big.NewInt(0),
		definition.ABISpork.PackMethodPanic(definition.SporkActivateMethodName, id)); a == nil {
		return types.ZeroHash, fmt.Errorf("spork activate refused")
	}
	types.ImplementedSporksMap[id] = true
	if err := w.N.ProduceN(int(constants.SporkMinHeightDelay) + 4); err != nil {
		return types.ZeroHash, err
	}
	w.scan()
	return id, nil
}
