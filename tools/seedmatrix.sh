#!/bin/sh
# seedmatrix.sh [seed-dir-names...]: run every seeded change against the check of its property (quick tier), in isolation,
# and write one line per seed to /tmp/seedmatrix.tsv: seed, property, verdict, first violation key.
out=/tmp/seedmatrix.tsv
[ $# -eq 0 ] && set -- $(ls /verif/seeded | grep -E '^C[0-9]+-seed[0-9]+$')
for s in "$@"; do
  p=${s%%-*}
  log=/tmp/seedmatrix-$s.log
  /verif/tools/seedtest.sh $s $p quick > $log 2>&1
  if grep -q "^VIOLATION property=$p" $log; then v=caught; else if grep -q "held on everything" $log; then v=missed; else v=broken; fi; fi
  key=$(grep -m1 "violation detail:" $log | sed -e 's/^violation detail: \[\([^]]*\)\].*/\1/' | cut -c1-120)
  grep -v "^$s	" $out > $out.tmp 2>/dev/null; mv $out.tmp $out 2>/dev/null
  printf "%s\t%s\t%s\t%s\n" "$s" "$p" "$v" "$key" >> $out
done
sort -o $out $out
