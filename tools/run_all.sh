#!/bin/sh
# run_all.sh <tier> <seed> [properties...]: every check in turn; one line per check in /tmp/all_<tier>_<seed>.log
tier=${1:-quick}; seed=${2:-1}; shift 2 2>/dev/null
props="$@"
[ -z "$props" ] && props="C01 C02 C03 C04 C05 C06 C07 C08 C09 C10 C11 C12 C13 C14 C15 C16 C17 C18 C19 C20"
log=/tmp/all_${tier}_${seed}.log
: > $log
for p in $props; do
  start=$(date +%s)
  VERIF_SEED=$seed VERIF_TIER=$tier /verif/vcheck $p > /tmp/all_${tier}_${seed}_$p.out 2>&1
  rc=$?
  end=$(date +%s)
  echo "$p rc=$rc $((end-start))s $(grep -E 'held on|VIOLATION|CHECK-BROKEN' /tmp/all_${tier}_${seed}_$p.out | head -3 | cut -c1-200 | tr '\n' '|')" >> $log
done
echo DONE >> $log
