#!/bin/bash
# tools/seedtest.sh <seed-dir-name> <property> [tier] — applies a seeded change to /repo, runs the check, reverts.
set -u
S=/verif/seeded/$1; P=$2; T=${3:-quick}
cd /repo && git diff --quiet || { echo "repo dirty"; exit 3; }
git -C /repo apply $S/patch.diff || { echo "patch does not apply"; exit 3; }
cd /verif && ./vcheck $P --tier $T 2>&1 | grep -v "^$\|Congrat\|Just activ\|Initialized" | grep -E "VIOLATION|violation detail|KNOWN|held on|CHECK-BROKEN" | cut -c1-400 | head -8
git -C /repo checkout -- . 
git -C /repo status --short | head -3
