#!/bin/bash
# tools/seedtest.sh <seed-dir-name> <property> [tier]
# Runs a check against a seeded change WITHOUT touching /repo or /verif: a scratch worktree of /repo with the
# patch applied and a scratch copy of /verif whose lab module is pointed at it.
set -u
S=/verif/seeded/$1; P=$2; T=${3:-quick}
W=/tmp/seedrun-$1-$P
rm -rf $W; mkdir -p $W
git -C /repo worktree add -q --detach $W/repo HEAD || exit 3
( cd $W/repo && git apply $S/patch.diff ) || { echo "patch does not apply"; git -C /repo worktree remove --force $W/repo; exit 3; }
mkdir -p $W/verif && cp -r /verif/lab /verif/spec /verif/known_findings.json /verif/properties.jsonl $W/verif/
sed -i "s#=> /repo#=> $W/repo#" $W/verif/lab/go.mod
export GOFLAGS=-mod=mod GOPROXY=off GOSUMDB=off GOTOOLCHAIN=local VERIF_DIR=$W/verif VERIF_REPO=$W/repo
( cd $W/verif/lab && go build -tags verif -o $W/vcheck ./cmd/vcheck ) || { echo "BUILD FAILED"; git -C /repo worktree remove --force $W/repo; rm -rf $W; exit 3; }
( cd $W/verif && timeout 1500 $W/vcheck $P --tier $T 2>&1 | tee /tmp/seedtest-last.log | grep -E "VIOLATION|violation detail|KNOWN|held on|CHECK-BROKEN" | cut -c1-330 | sed "s#$W##g" | head -6 )
git -C /repo worktree remove --force $W/repo; rm -rf $W
