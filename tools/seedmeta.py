#!/usr/bin/env python3
# Merges what was run on each seeded change (tools/confirm_seed.sh -> confirm.json, tools/seedmatrix.sh -> /tmp/seedmatrix.tsv)
# into seeded/<id>/meta.json and writes seeded/RESULTS.md.
import json, os, glob, sys
root = "/verif/seeded"
matrix = {}
if os.path.exists("/tmp/seedmatrix.tsv"):
    for l in open("/tmp/seedmatrix.tsv"):
        f = l.rstrip("\n").split("\t")
        if len(f) >= 3:
            matrix[f[0]] = {"property": f[1], "verdict": f[2], "first_violation": f[3] if len(f) > 3 else ""}
rows = []
for d in sorted(glob.glob(root + "/C*-seed*")):
    name = os.path.basename(d)
    mp = d + "/meta.json"
    meta = json.load(open(mp)) if os.path.exists(mp) else {}
    conf = json.load(open(d + "/confirm.json")) if os.path.exists(d + "/confirm.json") else None
    ran = ["tools/confirm_seed.sh %s (scratch worktree: demo without the change, git apply, go build ./..., demo with the change, repository suite with the change)" % name,
           "tools/seedtest.sh %s %s quick (the property's check against a scratch worktree with the change and a scratch copy of /verif)" % (name, name.split("-")[0])]
    meta["property"] = name.split("-")[0]
    meta["origin"] = "written by an independent sub-agent from the property text only (round %d)" % {"1": 1, "2": 1, "3": 2, "4": 2, "5": 3, "6": 3}.get(name[-1], 4)
    meta["what_was_run"] = ran
    if conf:
        meta["confirmation"] = conf
    if name in matrix:
        meta["own_check"] = matrix[name]
    json.dump(meta, open(mp, "w"), indent=1)
    c = conf or {}
    suite = c.get("suite_exit_with_change", -1)
    rows.append((name, meta.get("needs", "")[:160].replace("\n", " ").replace("|", "/"),
                 "yes" if c.get("demo_passes_without_change") and c.get("demo_fails_with_change") and c.get("builds_with_change") else "NO",
                 "passes" if suite == 0 else ("not run" if suite == -1 else ("passes (only the known timing test fails)" if not c.get("suite_failures_other_than_the_known_timing_test", "").strip() else "FAILS: " + c.get("suite_failures_other_than_the_known_timing_test", ""))),
                 matrix.get(name, {}).get("verdict", "?"), matrix.get(name, {}).get("first_violation", "")))
with open(root + "/RESULTS.md", "w") as f:
    f.write("# Seeded changes and what the checks say about them\n\n")
    f.write("Every change was written by a fresh sub-agent that saw only the text of one property and a scratch worktree of the repository.\n")
    f.write("`confirmed` = in a scratch worktree the change applies and builds, its demonstration passes without it and fails with it;\n")
    f.write("`suite` = the repository's own tests with the change applied (the known timing test aside);\n")
    f.write("`own check` = quick tier of the property's registered check, run by `tools/seedtest.sh` against a scratch worktree with the change.\n\n")
    f.write("| seed | needs | confirmed | suite | own check | first violation reported |\n|---|---|---|---|---|---|\n")
    for r in rows:
        f.write("| %s | %s | %s | %s | %s | `%s` |\n" % r)
    caught = sum(1 for r in rows if r[4] == "caught")
    f.write("\n%d of %d changes are reported by the check of their own property (quick tier, seed 1).\n" % (caught, len(rows)))
print("wrote", len(rows), "rows")
