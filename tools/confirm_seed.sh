#!/bin/sh
# confirm_seed.sh <seed-dir-name> [nosuite]: in a scratch worktree of /repo, confirm that the seeded change
#   builds, leaves the repository's tests green, and that its demonstration fails with it and passes without it.
# Writes /verif/seeded/<name>/confirm.json. Nothing in /repo or /verif (other than that file) is touched.
name=$1; nosuite=$2
sd=/verif/seeded/$name
export GOFLAGS=-mod=mod GOPROXY=off GOSUMDB=off GOTOOLCHAIN=local
wt=/tmp/confirm-$name-$$
git -C /repo worktree add --detach $wt >/dev/null 2>&1 || { echo "worktree failed"; exit 2; }
cleanup() { git -C /repo worktree remove --force $wt >/dev/null 2>&1; rm -rf $wt; }
trap cleanup EXIT
cd $wt
place=$(python3 -c "import json;print(json.load(open('$sd/meta.json')).get('demo_place','').strip('/'))")
cmd=$(python3 -c "import json;print(json.load(open('$sd/meta.json')).get('demo_cmd','').split('(')[0].split(';')[0].split('&&')[-1].strip())")
# keep only the 'go test ...' part of the command
cmd=$(echo "$cmd" | sed -e 's/^.*\(go test\)/\1/')
[ -z "$place" ] && place=.
demofile=$place/zz_seed_demo_test.go
cp $sd/demo_test.go $demofile
# 1. without the change the demo passes
sh -c "$cmd" > /tmp/confirm-$name-clean.log 2>&1; rc_clean=$?
# 2. with the change
git apply $sd/patch.diff || { echo "patch does not apply"; exit 2; }
go build ./... > /tmp/confirm-$name-build.log 2>&1; rc_build=$?
sh -c "$cmd" > /tmp/confirm-$name-seeded.log 2>&1; rc_seeded=$?
rm -f $demofile
rc_suite=-1; failed=""
if [ -z "$nosuite" ]; then
  go test -vet=off -count=1 -timeout 25m ./... > /tmp/confirm-$name-suite.log 2>&1; rc_suite=$?
  failed=$(grep -E "^--- FAIL" /tmp/confirm-$name-suite.log | grep -v MomentumInsertionBenchmark | head -5 | tr '\n' ' ')
fi
python3 - <<PY
import json
json.dump({"seed":"$name","demo_cmd":"$cmd","demo_place":"$place","demo_passes_without_change":$rc_clean==0,"builds_with_change":$rc_build==0,
 "demo_fails_with_change":$rc_seeded!=0,"suite_exit_with_change":$rc_suite,"suite_failures_other_than_the_known_timing_test":"$failed".strip(),
 "confirmed_on":"$(date -u +%Y-%m-%dT%H:%MZ)"}, open("$sd/confirm.json","w"), indent=1)
PY
cat $sd/confirm.json
