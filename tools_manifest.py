#!/usr/bin/env python3
# Regenerates MANIFEST.json from the table below (single source of truth for the registered checks).
import json, sys
BASE_OFF = "cd /repo && go test -mod=mod -json -vet=off -count=1 -timeout 25m ./..."
checks = {
 "C07": dict(cat="model_checking", design="§4 C07",
   text="TLC checks ViewAsOf/FreshViewRight/DiskIsFrontier/PatchesMatch/ParentRule exhaustively on VStore.tla (all commit/pop/open-view/restart histories up to height 3 over five patches incl. delete, re-create, empty value); every transition of the height-2 state graph is replayed on the real ldbManager and memdbManager (reads, existence, prefix scans, redo patches, raw key space) with the specification's predicted state as oracle; negative-control configurations show TLC refuting each invariant for the code as it was found.",
   note="keys/values are model values in TLC, byte-level cases come from four key concretisations; histories beyond the bound only through the thorough tier's larger configuration",
   technique="TLA+ spec VStore.tla + TLC exhaustive check + TLC-generated edge-cover behaviours replayed on the real store"),
 "C08": dict(cat="model_checking", design="§4 C08",
   text="VStoreCrash.tla models commit/rollback as Begin/RawWrite*/End with Crash enabled in every state; TLC proves CrashAtomic for batch granularity and refutes it for per-key granularity. The real store is bound by replaying every Commit/Pop transition of the VStore state graph, reconstructing the store as of EVERY journal-record boundary (and torn record) of the operation, reopening it and comparing the raw key space with the two admissible states, then re-delivering and comparing with the crash-free twin.",
   note="fault model = process death between database writes (journal record boundaries / torn tail record); goleveldb journal replay trusted",
   technique="TLA+ spec VStoreCrash.tla + TLC; crash-point enumeration of TLC-generated behaviours on the real leveldb store"),
}
na = {}
def main():
    props=[json.loads(l)["id"] for l in open("/verif/properties.jsonl")]
    m = {"version":1,
      "setup_cmd":"cd /verif && mkdir -p bin evidence && cp /repo/go.sum lab/go.sum && cd lab && GOFLAGS=-mod=mod GOPROXY=off GOSUMDB=off GOTOOLCHAIN=local go build -tags verif -o /verif/bin/vcheck.setup ./cmd/vcheck && rm -f /verif/bin/vcheck.setup",
      "hooks":{"guard":"verif","enable":"go build -tags verif (the lab module replaces github.com/zenon-network/go-zenon by /repo)","baseline_off_cmd":BASE_OFF,"source_commits":HOOKS,"add_only":True},
      "engines":[{"name":"vcheck","path":"/verif/vcheck","serves_properties":sorted(checks),"kind_free_text":"TLA+ specifications in /verif/spec checked with TLC; Go lab (/verif/lab) replays TLC-generated behaviours on the real packages and validates recorded traces against the trace specifications"}],
      "checks":[], "notes":"see DESIGN.md; known_findings.json lists recorded findings and repaired defects",
      "not_applicable":[]}
    for pid in props:
        if pid in checks:
            c=checks[pid]
            m["checks"].append({"property_id":pid,"quick_cmd":f"./vcheck {pid} --tier quick","thorough_cmd":f"./vcheck {pid} --tier thorough",
              "evidence_file":f"/verif/evidence/{pid}.json","replay_cmd_template":f"./vcheck {pid} --replay {{path}}","engine":"vcheck",
              "level_claimed":{"category":c["cat"],"text":c["text"],"design_ref":c["design"]},"level_note":c["note"],"technique":c["technique"]})
        else:
            m["not_applicable"].append({"property_id":pid,"reason":na.get(pid,"check not built yet (work in progress; the specification family of DESIGN.md §2.1 is being implemented in the order of §8)")})
    json.dump(m,open("/verif/MANIFEST.json","w"),indent=1)
HOOKS=[]
main()
