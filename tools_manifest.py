#!/usr/bin/env python3
# Regenerates MANIFEST.json from the table below (single source of truth for the registered checks).
import json, sys
BASE_OFF = "cd /repo && go test -mod=mod -json -vet=off -count=1 -timeout 25m ./..."
checks = {
 "C03": dict(cat="model_checking", design="§4 C03",
   text="BlockValid.tla states validity as a conjunction of named predicates over abstract field values (relations to the ledger state) and enumerates every single and double mutation of a valid user send, user receive and contract receive at every re-hash / re-sign level, with the predicted verdict (a mutation may yield another valid block); TLC checks OriginalValid and RawAlterationInvalid. Every single mutation and a seeded third of the double ones are built on a fixture history and offered to a fresh real follower; accepted (the block is now part of the account's chain) must equal the prediction.",
   note="one concrete ledger state and one concrete value per abstract value; uncovered fields are C13's, plasma/PoW boundaries C12's; the enforced receiver regime is replayed (the legacy regime is the C01/C04 finding)",
   technique="TLA+ spec BlockValid.tla + TLC; replay of all mutation cells on real nodes"),

 "C05": dict(cat="model_checking", design="§4 C05",
   text="Election.tla transcribes SelectProducers (order by weight and name, cyclic fill, top group, second chance, random picks, shuffle) with math/rand's permutation as data; TLC checks on every configuration of <= 5 pillars with weights 0..2 and every possible permutation: exactly NodeCount slots, every slot a registered pillar, no duplicates when enough pillars, independence of the input order. Schedules reported by the real SelectProducers (seeded configurations, small and real group sizes) and by four differently built real nodes for every tick of a history (live producer, follower, restarted follower, follower after a reorganisation across ticks) are validated by TLC against the recomputation from the delegations as of the proof momentum. Every guard of Accept is broken in turn on a valid momentum (re-hashed and re-signed where an attacker would) and replayed through InsertChain.",
   note="math/rand is an input; the 'not in the future' guard is probed against the wall clock",
   technique="TLA+ specs Election.tla / ElectionMC.tla / ElectionTrace.tla + TLC; trace validation of real schedules; mutation replay"),
 "C12": dict(cat="model_checking", design="§4 C12",
   text="PowTrace.tla checks, with BigNat arithmetic, a division witness (q*d + r = 2^64, r < d) for every logged call of the real CheckPoWNonce and decides what the answer must be (h >= 2^64 - q): difficulties over the whole 64-bit range incl. 2^k, 2^k+-1, 2^63.., random and mined nonces, the same nonce under growing claims. Plasma.tla (fused - claims of unconfirmed blocks, base cost, cap, genuine proof-of-work, cancellation of the fusion while blocks are unconfirmed) is checked by TLC and its transitions are replayed on a real node with hand-built blocks at the boundary values.",
   note="the hash function is trusted; proof-of-work parts in the replay are 49/50 plasma so that nonces are mined quickly",
   technique="TLA+ specs PowTrace.tla (BigNat) / Plasma.tla + TLC; trace validation of the real PoW check; replay of boundary claims"),
 "C15": dict(cat="model_checking", design="§4 C15",
   text="PeerSession.tla gives every (message code, payload class) pair its required reaction - bounded reply, silent, drop of the offender only - for two peers before and after the handshake; TLC enumerates all message sequences up to length 3. Every transition is replayed in a child process against a real ProtocolManager over p2p.MsgPipe on a node with a 600-momentum chain: reply sizes against the limits, session end, a plain request answered afterwards, the other peer still served, the process alive (background goroutines included). WireSession.tla is the layer below: one TCP connection through the stages tcp / enc / ready / closed and the discovery datagrams, every input (handshake variants, disconnect payloads, base and sub-protocol codes, corrupted / truncated / swapped / replayed / oversize-announcing encrypted frames, malformed, unsigned, expired and unsolicited datagrams) with its required stage and reply; every transition is replayed over loopback TCP/UDP against a real p2p.Server and discovery listener in child processes, with a well-behaved remote served after each behaviour and the allocation around each input measured against the 10 MiB message limit.",
   note="payloads are representatives per class plus seeded random bytes; frames are corrupted from the outside (the lab does not forge MACs), so a frame with a valid MAC and an undecodable message code is not produced",
   technique="TLA+ specs PeerSession.tla and WireSession.tla + TLC; replay of every transition against the real protocol handler, p2p server and discovery listener in child processes"),
 "C17": dict(cat="model_checking", design="§4 C17",
   text="Spork.tla: create / activate (designated key, minimum delay, once) / tick / call with real heights; CodeAvail (cumulative method tables by priority) and PropAvail (the feature's own spork); TLC checks GateByHeight and ActivationRules and refutes CodeEqualsProperty (recorded finding). Behaviours ending in a call or in an attempt by a stranger are replayed on a real producer for all three sporks in every creation/activation order at heights just below, at and above enforcement, then adopted by a follower; a child process shows that a node not implementing an enforced spork stops exactly at the enforcement height.",
   note="availability probed through send-time validation of one representative call per spork",
   technique="TLA+ spec Spork.tla + TLC; replay on real producer and follower; child process for the halt"),
 "C18": dict(cat="model_checking", design="§4 C18",
   text="Rpc.tla defines the paging operators (ascending GetRange pages, descending chain pages, by-height windows) over a ground-truth list; TLC checks that pages partition the list in order, never exceed their size and are empty beyond the end, and refutes it for a wrapping product (code as found). Every (length, index, size) cell is replayed on real account chains and pool lists of exactly that length; 32-bit boundary indexes, momentum pages, stake/token list paging and the JSON round trip of every block of a history are checked against the same operators; a real rpc/server in a child process is fed hostile requests (fixed classes + seeded bytes) and must stay alive and answer.",
   note="hostile bytes are sampled inside classes",
   technique="TLA+ spec Rpc.tla + TLC; replay of all cells on the real API; child-process server under hostile input"),
 "C19": dict(cat="model_checking", design="§4 C19",
   text="Wallet.tla: key-file life cycle (create, tamper with cipher text / nonce / salt, restore, decrypt with each password) with ideal primitives; TLC checks ExactRoundTrip. Every transition ending in a decryption is replayed on the real wallet package with five password sets (empty, near-miss, unicode, > 128 bytes) and both entropy sizes; every third (thorough: every) single-bit corruption of cipher text, nonce and salt must be rejected; derivation is checked for determinism, index/path agreement, hardened-only and malformed paths, signature verification incl. trailing bytes, address = f(public key), base address = index 0.",
   note="thinnest use of the technique: the specification contributes the life-cycle enumeration and expected outcomes; primitives are assumed ideal",
   technique="TLA+ spec Wallet.tla + TLC; replay on the real wallet package, bit-flip enumeration"),
 "C20": dict(cat="model_checking", design="§4 C20",
   text="Genesis.tla: configuration as lists, the state the builder produces from them, Consistent (the built state adds up and is backed), the validator as repaired and as found, all single-entry perturbations of a consistent base; TLC checks Accepted => Consistent and refutes it for the validator as found. Every perturbation is applied to the repository's mock configuration and CheckGenesis is compared with the prediction; seeded permutations of every list and fresh child processes must build the same genesis hash and state-change hash; a database created under one configuration must be refused under each changed one and accepted under a permuted one.",
   note="the mock configuration's colliding fusion entries are a recorded finding; the lab's base configuration gives fusions unique ids",
   technique="TLA+ spec Genesis.tla + TLC; replay of all perturbation cells, permutations, child processes, start-up on foreign databases"),

 "C02": dict(cat="model_checking", design="§4 C02",
   text="Sync.tla transcribes InsertChain; TLC enumerates every delivery (extensions, forks, overlaps, re-deliveries, duplicates, invalid elements) over a tree of momentums and the generated behaviours are replayed on real followers with account blocks gossiped first, rival blocks pooled first, and restarts between deliveries; after each behaviour the follower's logical store (frontier and every historical view) must be byte-equal to that of a node that only ever saw the adopted chain. A long seeded history (all contracts, rewards over epochs) is delivered under six schedules and compared with the producer; forks across an epoch end are followed by the reward update computed by the follower.",
   note="abstract histories are short (4 elements of 1 or 15 momentums); long histories use a fixed list of schedules",
   technique="TLA+ spec Sync.tla + TLC; replay of TLC-generated delivery schedules on real nodes, byte comparison with fresh nodes"),
 "C06": dict(cat="model_checking", design="§4 C06",
   text="Store half: VStore.tla (PopExact/PatchesMatch/FreshViewRight after Pop, cache purge) checked exhaustively, negative control for the unpurged cache. Node half: every Sync.tla behaviour (fork depth 1..3 elements of 1 or 15 momentums, views of every element requested before each delivery, a block of an idle account pooled on the branch that is abandoned) ends with: frontier dump, historical dumps of every element, pool and the schedule of the next slots equal to those of a node that only ever saw the adopted branch.",
   note="consensus statistics compared through GetMomentumProducer; real depths up to 45 momentums",
   technique="TLA+ specs VStore.tla / Sync.tla + TLC; replay on real nodes compared with fresh nodes"),
 "C13": dict(cat="model_checking", design="§4 C13",
   text="Variants.tla: per block type and uncovered field the treatment (verified / normalised / free) and two nodes hearing variant and original in every order; TLC checks HashPinsBytes and NoSplit for the treatment table and refutes them for the code as found. Every cell is replayed on two real nodes: stored bytes on the gossip node vs. the producer, acceptance of the producer's momentum. Every block of a seeded history goes through protobuf, RLP and JSON and is compared byte for byte with its hash recomputed.",
   note="one representative alteration per field; hashing/signatures ideal in the spec; the user-block changes-hash cell is a recorded finding",
   technique="TLA+ spec Variants.tla + TLC; replay of every cell on two real nodes; codec round trips"),
 "C14": dict(cat="model_checking", design="§4 C14",
   text="Pool.tla transcribes addAccountBlockTransaction / rebuild / DeleteMomentum for one account with identifiers as paths of priority tags; TLC checks WinnerRule (order independence of two competitors, as an invariant over the pure decision) and ConfirmedNeverDisplaced, and refutes WinnerRule for the code as found (height-1 competitors). The complete edge cover is replayed on the real chain.NewAccountPool under three concretisations of how a tag wins; content selection is checked on seeded multi-account pools (limit, unsplit contract batches, per-account prefix).",
   note="concurrency clause: see level_note in DESIGN (race-detector stress on a real node, schedules not enumerated)",
   technique="TLA+ spec Pool.tla + TLC; complete edge-cover replay on the real account pool"),
 "C16": dict(cat="model_checking", design="§4 C16",
   text="Sync.tla Deliver = InsertChain step by step (skip known prefix, link check, rollback window, strictly longer, rollback, ordered apply with early return); TLC checks OnlyVerified, NeverCrashes and AdoptionRule over all deliveries and refutes NeverCrashes for the code as found. Generated behaviours are replayed on real followers over a real tree of momentums (one element = 15 momentums so that the abstract window 2 is the real window 30), with six manufactured kinds of invalid element; result class, reported index and resulting chain are compared after every delivery.",
   note="invalid kinds rotate over behaviours; the 30/31 boundary is covered at element granularity",
   technique="TLA+ spec Sync.tla + TLC; replay of TLC-generated deliveries on real nodes"),

 "C01": dict(cat="model_checking", design="§4 C01",
   text="Ledger.tla (balances, supplies, in-flight sends, inboxes; one action per block kind) is checked exhaustively by TLC for Conservation/NonNegative/SupplyOnlyByTokenContract on small constants; every account block and momentum of real executions (the repository's contract tests run unedited under the verif hooks, and seeded lab walks mixing transfers, receives, valid/failing/repeated contract calls, mint/burn/issue/update) is validated by TLC against LedgerTrace.tla with BigNat arithmetic: the logged post-balances and token records must equal what the specification computes, Conservation is evaluated over all accounts at every event, genesis included.",
   note="covers the executions recorded; per-method contract effects are constrained by the conservation shape (credit, descendant sends, token-contract supply delta), not re-derived per method",
   technique="TLA+ spec Ledger.tla + TLC; trace validation (LedgerTrace.tla, BigNat) of hook-recorded executions of the real node"),
 "C04": dict(cat="model_checking", design="§4 C04",
   text="AtMostOnce, OnlyAddressee and strict FIFO are invariants / guards of Ledger.tla checked exhaustively over all confirmation orders (negative controls: legacy mismatch receive, relaxed FIFO guard are refuted); real executions (repository tests under hooks, lab walks with second receives, receives by strangers) are validated event by event: a receive is accepted by the specification only for a confirmed, unreceived send addressed to the receiver, a contract receive only for the head of the contract's inbox in confirmation order.",
   note="reorganisation cases are decided by the Sync checks; the legacy regime below the enforcement height is a recorded finding",
   technique="TLA+ spec Ledger.tla + TLC; trace validation of hook-recorded executions"),
 "C09": dict(cat="model_checking", design="§4 C09",
   text="In Ledger.tla a contract receive has exactly two shapes, apply or refund-exactly; trace validation requires every contract receive produced by the real pillar path to match one of them (failed status => exact refund of amount/token to the sender and untouched storage; conservation of the contract's balances otherwise), every inbox to drain after the walk, and the producer to report no internal error. Calls come from repository tests, seeded walks (valid, failing, repeated, by strangers, foreign amounts) and the Locks behaviours.",
   note="argument encodings are sampled inside classes; methods reached are listed in the evidence",
   technique="TLA+ spec Ledger.tla + TLC; trace validation of the producer path"),
 "C10": dict(cat="model_checking", design="§4 C10",
   text="Locks.tla states the release rules (only the depositor after maturity; HTLC: beneficiary with the right preimage before expiry, proxy unlock allowed/denied; never twice) and TLC checks NotTwice/ReleasedOnlyTo; its complete edge cover (one entry) plus simulated two-entry behaviours are replayed on a real producer for fusions, stakes and hash-time-locks, comparing paid/refused, payee and amount of every attempt with the prediction. Backed (contract balance >= sum of recorded liabilities, read with the repository's definition readers) is evaluated by TLC at every momentum of all validated traces.",
   note="time boundaries are replayed at +-1 abstract unit (10 momentums); pillar/sentinel collateral and QSR deposits are covered by Backed and the walks, not by Locks",
   technique="TLA+ specs Locks.tla / LedgerTrace.tla + TLC; replay of TLC-generated behaviours on a real node; trace validation"),
 "C11": dict(cat="model_checking", design="§4 C11",
   text="RewardStep in LedgerTrace.tla: between two observations of a reward contract the epoch cursor only advances, no epoch beyond it is credited, an epoch already passed keeps exactly its credit (paid once), credit per epoch never exceeds the emission constant of the contract (liquidity: plus the administrator-configured additional reward), and minted rewards obey Conservation; evaluated on traces of the repository's reward tests and of lab walks spanning several short epochs with automatic and user-triggered updates and collects.",
   note="pillar cap uses the epoch's number of momentum slots; not applied to traced repository tests that change MomentumsPerEpoch; node-independence of rewards is decided by the C02 follower comparison",
   technique="TLA+ spec LedgerTrace.tla + TLC trace validation"),

 "C07": dict(cat="model_checking", design="§4 C07",
   text="TLC checks ViewAsOf/FreshViewRight/DiskIsFrontier/PatchesMatch/ParentRule exhaustively on VStore.tla (all commit/pop/open-view/restart histories up to height 3 over five patches incl. delete, re-create, empty value); every transition of the height-2 state graph is replayed on the real ldbManager and memdbManager (reads, existence, prefix scans, redo patches, raw key space) with the specification's predicted state as oracle; negative-control configurations show TLC refuting each invariant for the code as it was found.",
   note="keys/values are model values in TLC, byte-level cases come from four key concretisations; histories beyond the bound only through the thorough tier's larger configuration",
   technique="TLA+ spec VStore.tla + TLC exhaustive check + TLC-generated edge-cover behaviours replayed on the real store"),
 "C08": dict(cat="model_checking", design="§4 C08",
   text="VStoreCrash.tla models commit/rollback as Begin/RawWrite*/End with Crash enabled in every state; TLC proves CrashAtomic for batch granularity and refutes it for per-key granularity. The real store is bound by replaying every Commit/Pop transition of the VStore state graph, reconstructing the store as of EVERY journal-record boundary (and torn record) of the operation, reopening it and comparing the raw key space with the two admissible states, then re-delivering and comparing with the crash-free twin.",
   note="fault model = process death between database writes (journal record boundaries / torn tail record); goleveldb journal replay trusted",
   technique="TLA+ spec VStoreCrash.tla + TLC; crash-point enumeration of TLC-generated behaviours on the real leveldb store"),
}
na = {}
def main():
    props=[json.loads(l)["id"] for l in open("/verif/properties.jsonl")]
    m = {"version":1,
      "setup_cmd":"cd /verif && mkdir -p bin evidence && cp /repo/go.sum lab/go.sum && cd lab && GOFLAGS=-mod=mod GOPROXY=off GOSUMDB=off GOTOOLCHAIN=local go build -tags verif -o /verif/bin/vcheck.setup ./cmd/vcheck && rm -f /verif/bin/vcheck.setup",
      "hooks":{"guard":"verif","enable":"go build -tags verif (the lab module replaces github.com/zenon-network/go-zenon by /repo)","baseline_off_cmd":BASE_OFF,"source_commits":HOOKS,"add_only":True},
      "engines":[{"name":"vcheck","path":"/verif/vcheck","serves_properties":sorted(checks),"kind_free_text":"TLA+ specifications in /verif/spec checked with TLC; Go lab (/verif/lab) replays TLC-generated behaviours on the real packages and validates recorded traces against the trace specifications"}],
      "checks":[], "notes":"see DESIGN.md; known_findings.json lists recorded findings and repaired defects",
      "not_applicable":[]}
    for pid in props:
        if pid in checks:
            c=checks[pid]
            m["checks"].append({"property_id":pid,"quick_cmd":f"./vcheck {pid} --tier quick","thorough_cmd":f"./vcheck {pid} --tier thorough",
              "evidence_file":f"/verif/evidence/{pid}.json","replay_cmd_template":f"./vcheck {pid} --replay {{path}}","engine":"vcheck",
              "level_claimed":{"category":c["cat"],"text":c["text"],"design_ref":c["design"]},"level_note":c["note"],"technique":c["technique"]})
        else:
            m["not_applicable"].append({"property_id":pid,"reason":na.get(pid,"check not built yet (work in progress; the specification family of DESIGN.md §2.1 is being implemented in the order of §8)")})
    json.dump(m,open("/verif/MANIFEST.json","w"),indent=1)
HOOKS=["1d8062c","4e7aafd"]
main()
