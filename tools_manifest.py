#!/usr/bin/env python3
# Regenerates MANIFEST.json from the table below (single source of truth for the registered checks).
import json, sys
BASE_OFF = "cd /repo && go test -mod=mod -json -vet=off -count=1 -timeout 25m ./..."
checks = {
 "C02": dict(cat="model_checking", design="§4 C02",
   text="Sync.tla transcribes InsertChain; TLC enumerates every delivery (extensions, forks, overlaps, re-deliveries, duplicates, invalid elements) over a tree of momentums and the generated behaviours are replayed on real followers with account blocks gossiped first, rival blocks pooled first, and restarts between deliveries; after each behaviour the follower's logical store (frontier and every historical view) must be byte-equal to that of a node that only ever saw the adopted chain. A long seeded history (all contracts, rewards over epochs) is delivered under six schedules and compared with the producer; forks across an epoch end are followed by the reward update computed by the follower.",
   note="abstract histories are short (4 elements of 1 or 15 momentums); long histories use a fixed list of schedules",
   technique="TLA+ spec Sync.tla + TLC; replay of TLC-generated delivery schedules on real nodes, byte comparison with fresh nodes"),
 "C06": dict(cat="model_checking", design="§4 C06",
   text="Store half: VStore.tla (PopExact/PatchesMatch/FreshViewRight after Pop, cache purge) checked exhaustively, negative control for the unpurged cache. Node half: every Sync.tla behaviour (fork depth 1..3 elements of 1 or 15 momentums, views of every element requested before each delivery, a block of an idle account pooled on the branch that is abandoned) ends with: frontier dump, historical dumps of every element, pool and the schedule of the next slots equal to those of a node that only ever saw the adopted branch.",
   note="consensus statistics compared through GetMomentumProducer; real depths up to 45 momentums",
   technique="TLA+ specs VStore.tla / Sync.tla + TLC; replay on real nodes compared with fresh nodes"),
 "C13": dict(cat="model_checking", design="§4 C13",
   text="Variants.tla: per block type and uncovered field the treatment (verified / normalised / free) and two nodes hearing variant and original in every order; TLC checks HashPinsBytes and NoSplit for the treatment table and refutes them for the code as found. Every cell is replayed on two real nodes: stored bytes on the gossip node vs. the producer, acceptance of the producer's momentum. Every block of a seeded history goes through protobuf, RLP and JSON and is compared byte for byte with its hash recomputed.",
   note="one representative alteration per field; hashing/signatures ideal in the spec; the user-block changes-hash cell is a recorded finding",
   technique="TLA+ spec Variants.tla + TLC; replay of every cell on two real nodes; codec round trips"),
 "C14": dict(cat="model_checking", design="§4 C14",
   text="Pool.tla transcribes addAccountBlockTransaction / rebuild / DeleteMomentum for one account with identifiers as paths of priority tags; TLC checks WinnerRule (order independence of two competitors, as an invariant over the pure decision) and ConfirmedNeverDisplaced, and refutes WinnerRule for the code as found (height-1 competitors). The complete edge cover is replayed on the real chain.NewAccountPool under three concretisations of how a tag wins; content selection is checked on seeded multi-account pools (limit, unsplit contract batches, per-account prefix).",
   note="concurrency clause: see level_note in DESIGN (race-detector stress on a real node, schedules not enumerated)",
   technique="TLA+ spec Pool.tla + TLC; complete edge-cover replay on the real account pool"),
 "C16": dict(cat="model_checking", design="§4 C16",
   text="Sync.tla Deliver = InsertChain step by step (skip known prefix, link check, rollback window, strictly longer, rollback, ordered apply with early return); TLC checks OnlyVerified, NeverCrashes and AdoptionRule over all deliveries and refutes NeverCrashes for the code as found. Generated behaviours are replayed on real followers over a real tree of momentums (one element = 15 momentums so that the abstract window 2 is the real window 30), with six manufactured kinds of invalid element; result class, reported index and resulting chain are compared after every delivery.",
   note="invalid kinds rotate over behaviours; the 30/31 boundary is covered at element granularity",
   technique="TLA+ spec Sync.tla + TLC; replay of TLC-generated deliveries on real nodes"),

 "C01": dict(cat="model_checking", design="§4 C01",
   text="Ledger.tla (balances, supplies, in-flight sends, inboxes; one action per block kind) is checked exhaustively by TLC for Conservation/NonNegative/SupplyOnlyByTokenContract on small constants; every account block and momentum of real executions (the repository's contract tests run unedited under the verif hooks, and seeded lab walks mixing transfers, receives, valid/failing/repeated contract calls, mint/burn/issue/update) is validated by TLC against LedgerTrace.tla with BigNat arithmetic: the logged post-balances and token records must equal what the specification computes, Conservation is evaluated over all accounts at every event, genesis included.",
   note="covers the executions recorded; per-method contract effects are constrained by the conservation shape (credit, descendant sends, token-contract supply delta), not re-derived per method",
   technique="TLA+ spec Ledger.tla + TLC; trace validation (LedgerTrace.tla, BigNat) of hook-recorded executions of the real node"),
 "C04": dict(cat="model_checking", design="§4 C04",
   text="AtMostOnce, OnlyAddressee and strict FIFO are invariants / guards of Ledger.tla checked exhaustively over all confirmation orders (negative controls: legacy mismatch receive, relaxed FIFO guard are refuted); real executions (repository tests under hooks, lab walks with second receives, receives by strangers) are validated event by event: a receive is accepted by the specification only for a confirmed, unreceived send addressed to the receiver, a contract receive only for the head of the contract's inbox in confirmation order.",
   note="reorganisation cases are decided by the Sync checks; the legacy regime below the enforcement height is a recorded finding",
   technique="TLA+ spec Ledger.tla + TLC; trace validation of hook-recorded executions"),
 "C09": dict(cat="model_checking", design="§4 C09",
   text="In Ledger.tla a contract receive has exactly two shapes, apply or refund-exactly; trace validation requires every contract receive produced by the real pillar path to match one of them (failed status => exact refund of amount/token to the sender and untouched storage; conservation of the contract's balances otherwise), every inbox to drain after the walk, and the producer to report no internal error. Calls come from repository tests, seeded walks (valid, failing, repeated, by strangers, foreign amounts) and the Locks behaviours.",
   note="argument encodings are sampled inside classes; methods reached are listed in the evidence",
   technique="TLA+ spec Ledger.tla + TLC; trace validation of the producer path"),
 "C10": dict(cat="model_checking", design="§4 C10",
   text="Locks.tla states the release rules (only the depositor after maturity; HTLC: beneficiary with the right preimage before expiry, proxy unlock allowed/denied; never twice) and TLC checks NotTwice/ReleasedOnlyTo; its complete edge cover (one entry) plus simulated two-entry behaviours are replayed on a real producer for fusions, stakes and hash-time-locks, comparing paid/refused, payee and amount of every attempt with the prediction. Backed (contract balance >= sum of recorded liabilities, read with the repository's definition readers) is evaluated by TLC at every momentum of all validated traces.",
   note="time boundaries are replayed at +-1 abstract unit (10 momentums); pillar/sentinel collateral and QSR deposits are covered by Backed and the walks, not by Locks",
   technique="TLA+ specs Locks.tla / LedgerTrace.tla + TLC; replay of TLC-generated behaviours on a real node; trace validation"),
 "C11": dict(cat="model_checking", design="§4 C11",
   text="RewardStep in LedgerTrace.tla: between two observations of a reward contract the epoch cursor only advances, no epoch beyond it is credited, an epoch already passed keeps exactly its credit (paid once), credit per epoch never exceeds the emission constant of the contract (liquidity: plus the administrator-configured additional reward), and minted rewards obey Conservation; evaluated on traces of the repository's reward tests and of lab walks spanning several short epochs with automatic and user-triggered updates and collects.",
   note="pillar cap uses the epoch's number of momentum slots; not applied to traced repository tests that change MomentumsPerEpoch; node-independence of rewards is decided by the C02 follower comparison",
   technique="TLA+ spec LedgerTrace.tla + TLC trace validation"),

 "C07": dict(cat="model_checking", design="§4 C07",
   text="TLC checks ViewAsOf/FreshViewRight/DiskIsFrontier/PatchesMatch/ParentRule exhaustively on VStore.tla (all commit/pop/open-view/restart histories up to height 3 over five patches incl. delete, re-create, empty value); every transition of the height-2 state graph is replayed on the real ldbManager and memdbManager (reads, existence, prefix scans, redo patches, raw key space) with the specification's predicted state as oracle; negative-control configurations show TLC refuting each invariant for the code as it was found.",
   note="keys/values are model values in TLC, byte-level cases come from four key concretisations; histories beyond the bound only through the thorough tier's larger configuration",
   technique="TLA+ spec VStore.tla + TLC exhaustive check + TLC-generated edge-cover behaviours replayed on the real store"),
 "C08": dict(cat="model_checking", design="§4 C08",
   text="VStoreCrash.tla models commit/rollback as Begin/RawWrite*/End with Crash enabled in every state; TLC proves CrashAtomic for batch granularity and refutes it for per-key granularity. The real store is bound by replaying every Commit/Pop transition of the VStore state graph, reconstructing the store as of EVERY journal-record boundary (and torn record) of the operation, reopening it and comparing the raw key space with the two admissible states, then re-delivering and comparing with the crash-free twin.",
   note="fault model = process death between database writes (journal record boundaries / torn tail record); goleveldb journal replay trusted",
   technique="TLA+ spec VStoreCrash.tla + TLC; crash-point enumeration of TLC-generated behaviours on the real leveldb store"),
}
na = {}
def main():
    props=[json.loads(l)["id"] for l in open("/verif/properties.jsonl")]
    m = {"version":1,
      "setup_cmd":"cd /verif && mkdir -p bin evidence && cp /repo/go.sum lab/go.sum && cd lab && GOFLAGS=-mod=mod GOPROXY=off GOSUMDB=off GOTOOLCHAIN=local go build -tags verif -o /verif/bin/vcheck.setup ./cmd/vcheck && rm -f /verif/bin/vcheck.setup",
      "hooks":{"guard":"verif","enable":"go build -tags verif (the lab module replaces github.com/zenon-network/go-zenon by /repo)","baseline_off_cmd":BASE_OFF,"source_commits":HOOKS,"add_only":True},
      "engines":[{"name":"vcheck","path":"/verif/vcheck","serves_properties":sorted(checks),"kind_free_text":"TLA+ specifications in /verif/spec checked with TLC; Go lab (/verif/lab) replays TLC-generated behaviours on the real packages and validates recorded traces against the trace specifications"}],
      "checks":[], "notes":"see DESIGN.md; known_findings.json lists recorded findings and repaired defects",
      "not_applicable":[]}
    for pid in props:
        if pid in checks:
            c=checks[pid]
            m["checks"].append({"property_id":pid,"quick_cmd":f"./vcheck {pid} --tier quick","thorough_cmd":f"./vcheck {pid} --tier thorough",
              "evidence_file":f"/verif/evidence/{pid}.json","replay_cmd_template":f"./vcheck {pid} --replay {{path}}","engine":"vcheck",
              "level_claimed":{"category":c["cat"],"text":c["text"],"design_ref":c["design"]},"level_note":c["note"],"technique":c["technique"]})
        else:
            m["not_applicable"].append({"property_id":pid,"reason":na.get(pid,"check not built yet (work in progress; the specification family of DESIGN.md §2.1 is being implemented in the order of §8)")})
    json.dump(m,open("/verif/MANIFEST.json","w"),indent=1)
HOOKS=[]
main()
