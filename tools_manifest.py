#!/usr/bin/env python3
# Regenerates MANIFEST.json from the table below (single source of truth for the registered checks).
import json, sys
BASE_OFF = "cd /repo && go test -mod=mod -json -vet=off -count=1 -timeout 25m ./..."
checks = {
 "C03": dict(cat="model_checking", design="§4 C03",
   text="BlockValid.tla states validity as a conjunction of named predicates over abstract field values (relations to the ledger state) and enumerates every single and double mutation of a valid user send, user receive and contract receive at every re-hash / re-sign level, with the predicted verdict (a mutation may yield another valid block); TLC checks OriginalValid and RawAlterationInvalid. Every single mutation and a seeded third of the double ones are built on a fixture history and offered to a fresh real follower; accepted (the block is now part of the account's chain) must equal the prediction.",
   note="one concrete ledger state and one concrete value per abstract value; uncovered fields are C13's, plasma/PoW boundaries C12's; the enforced receiver regime is replayed (the legacy regime is the C01/C04 finding)",
   technique="TLA+ spec BlockValid.tla + TLC; replay of all mutation cells on real nodes"),

 "C05": dict(cat="model_checking", design="§4 C05",
   text="Election.tla transcribes SelectProducers (order by weight and name, cyclic fill, top group, second chance, random picks, shuffle) with math/rand's permutation as data; TLC checks on every configuration of <= 5 pillars with weights 0..2 and every possible permutation: exactly NodeCount slots, every slot a registered pillar, no duplicates when enough pillars, independence of the input order. Schedules reported by the real SelectProducers (seeded configurations, small and real group sizes) and by four differently built real nodes for every tick of a history (live producer, follower, restarted follower, follower after a reorganisation across ticks) are validated by TLC against the recomputation from the delegations as of the proof momentum. Every guard of Accept is broken in turn on a valid momentum (re-hashed and re-signed where an attacker would) and replayed through InsertChain.",
   note="math/rand is an input; the 'not in the future' guard is probed against the wall clock",
   technique="TLA+ specs Election.tla / ElectionMC.tla / ElectionTrace.tla + TLC; trace validation of real schedules; mutation replay"),
 "C12": dict(cat="model_checking", design="§4 C12",
   text="PowTrace.tla checks, with BigNat arithmetic, a division witness (q*d + r = 2^64, r < d) for every logged call of the real CheckPoWNonce and decides what the answer must be (h >= 2^64 - q): difficulties over the whole 64-bit range incl. 2^k, 2^k+-1, 2^63.., random and mined nonces, the same nonce under growing claims. Plasma.tla (fused - claims of unconfirmed blocks, base cost, cap, genuine proof-of-work, cancellation of the fusion while blocks are unconfirmed) is checked by TLC and its transitions are replayed on a real node with hand-built blocks at the boundary values.",
   note="the hash function is trusted; proof-of-work parts in the replay are 49/50 plasma so that nonces are mined quickly",
   technique="TLA+ specs PowTrace.tla (BigNat) / Plasma.tla + TLC; trace validation of the real PoW check; replay of boundary claims"),
 "C15": dict(cat="model_checking", design="§4 C15",
   text="PeerSession.tla gives every (message code, payload class) pair its required reaction - bounded reply, silent, drop of the offender only - for two peers before and after the handshake; TLC enumerates all message sequences up to length 3. Every transition is replayed in a child process against a real ProtocolManager over p2p.MsgPipe on a node with a 600-momentum chain: reply sizes against the limits, session end, a plain request answered afterwards, the other peer still served, the process alive (background goroutines included). WireSession.tla is the layer below: one TCP connection through the stages tcp / enc / ready / closed and the discovery datagrams, every input (handshake variants, disconnect payloads, base and sub-protocol codes, corrupted / truncated / swapped / replayed / oversize-announcing encrypted frames, malformed, unsigned, expired and unsolicited datagrams) with its required stage and reply; every transition is replayed over loopback TCP/UDP against a real p2p.Server and discovery listener in child processes, with a well-behaved remote served after each behaviour and the allocation around each input measured against the 10 MiB message limit.",
   note="payloads are representatives per class plus seeded random bytes; frames are corrupted from the outside (the lab does not forge MACs), so a frame with a valid MAC and an undecodable message code is not produced",
   technique="TLA+ specs PeerSession.tla and WireSession.tla + TLC; replay of every transition against the real protocol handler, p2p server and discovery listener in child processes"),
 "C17": dict(cat="model_checking", design="§4 C17",
   text="Spork.tla: create / activate (designated key, minimum delay, once) / tick / call with real heights; CodeAvail (cumulative method tables by priority) and PropAvail (the feature's own spork); TLC checks GateByHeight and ActivationRules and refutes CodeEqualsProperty (recorded finding). Behaviours ending in a call or in an attempt by a stranger are replayed on a real producer for all three sporks in every creation/activation order at heights just below, at and above enforcement, then adopted by a follower; a child process shows that a node not implementing an enforced spork stops exactly at the enforcement height.",
   note="availability probed through send-time validation of one representative call per spork",
   technique="TLA+ spec Spork.tla + TLC; replay on real producer and follower; child process for the halt"),
 "C18": dict(cat="model_checking", design="§4 C18",
   text="Rpc.tla defines the paging operators (ascending GetRange pages, descending chain pages, by-height windows) over a ground-truth list; TLC checks that pages partition the list in order, never exceed their size and are empty beyond the end, and refutes it for a wrapping product (code as found). Every (length, index, size) cell is replayed on real account chains and pool lists of exactly that length; 32-bit boundary indexes, momentum pages, stake/token list paging and the JSON round trip of every block of a history are checked against the same operators; a real rpc/server in a child process is fed hostile requests (fixed classes + seeded bytes) and must stay alive and answer.",
   note="hostile bytes are sampled inside classes",
   technique="TLA+ spec Rpc.tla + TLC; replay of all cells on the real API; child-process server under hostile input"),
 "C19": dict(cat="model_checking", design="§4 C19",
   text="Wallet.tla: key-file life cycle (create, tamper with cipher text / nonce / salt, restore, decrypt with each password) with ideal primitives; TLC checks ExactRoundTrip. Every transition ending in a decryption is replayed on the real wallet package with five password sets (empty, near-miss, unicode, > 128 bytes) and both entropy sizes; every third (thorough: every) single-bit corruption of cipher text, nonce and salt must be rejected; derivation is checked for determinism, index/path agreement, hardened-only and malformed paths, signature verification incl. trailing bytes, address = f(public key), base address = index 0.",
   note="thinnest use of the technique: the specification contributes the life-cycle enumeration and expected outcomes; primitives are assumed ideal",
   technique="TLA+ spec Wallet.tla + TLC; replay on the real wallet package, bit-flip enumeration"),
 "C20": dict(cat="model_checking", design="§4 C20",
   text="Genesis.tla: configuration as lists, the state the builder produces from them, Consistent (the built state adds up and is backed), the validator as repaired and as found, all single-entry perturbations of a consistent base; TLC checks Accepted => Consistent and refutes it for the validator as found. Every perturbation is applied to the repository's mock configuration and CheckGenesis is compared with the prediction; seeded permutations of every list and fresh child processes must build the same genesis hash and state-change hash; a database created under one configuration must be refused under each changed one and accepted under a permuted one.",
   note="the mock configuration's colliding fusion entries are a recorded finding; the lab's base configuration gives fusions unique ids",
   technique="TLA+ spec Genesis.tla + TLC; replay of all perturbation cells, permutations, child processes, start-up on foreign databases"),

 "C02": dict(cat="model_checking", design="§4 C02",
   text="Sync.tla transcribes InsertChain; TLC enumerates every delivery (extensions, forks, overlaps, re-deliveries, duplicates, invalid elements) over a tree of momentums and the generated behaviours are replayed on real followers with account blocks gossiped first, rival blocks pooled first, and restarts between deliveries; after each behaviour the follower's logical store (frontier and every historical view) must be byte-equal to that of a node that only ever saw the adopted chain. A long seeded history (all contracts, rewards over epochs) is delivered under six schedules and compared with the producer; forks across an epoch end are followed by the reward update computed by the follower.",
   note="abstract histories are short (4 elements of 1 or 15 momentums); long histories use a fixed list of schedules",
   technique="TLA+ spec Sync.tla + TLC; replay of TLC-generated delivery schedules on real nodes, byte comparison with fresh nodes"),
 "C06": dict(cat="model_checking", design="§4 C06",
   text="Store half: VStore.tla (PopExact/PatchesMatch/FreshViewRight after Pop, cache purge) checked exhaustively, negative control for the unpurged cache. Node half: every Sync.tla behaviour (fork depth 1..3 elements of 1 or 15 momentums, views of every element requested before each delivery, a block of an idle account pooled on the branch that is abandoned) ends with: frontier dump, historical dumps of every element, pool and the schedule of the next slots equal to those of a node that only ever saw the adopted branch.",
   note="consensus statistics compared through GetMomentumProducer; real depths up to 45 momentums",
   technique="TLA+ specs VStore.tla / Sync.tla + TLC; replay on real nodes compared with fresh nodes"),
 "C13": dict(cat="model_checking", design="§4 C13",
   text="Variants.tla: per block type and uncovered field the treatment (verified / normalised / free) and two nodes hearing variant and original in every order; TLC checks HashPinsBytes and NoSplit for the treatment table and refutes them for the code as found. Every cell is replayed on two real nodes: stored bytes on the gossip node vs. the producer, acceptance of the producer's momentum. Every block of a seeded history goes through protobuf, RLP and JSON and is compared byte for byte with its hash recomputed.",
   note="one representative alteration per field; hashing/signatures ideal in the spec; the user-block changes-hash cell is a recorded finding",
   technique="TLA+ spec Variants.tla + TLC; replay of every cell on two real nodes; codec round trips"),
 "C14": dict(cat="model_checking", design="§4 C14",
   text="Pool.tla transcribes addAccountBlockTransaction / rebuild / DeleteMomentum for one account with identifiers as paths of priority tags; TLC checks WinnerRule (order independence of two competitors, as an invariant over the pure decision) and ConfirmedNeverDisplaced, and refutes WinnerRule for the code as found (height-1 competitors). The complete edge cover is replayed on the real chain.NewAccountPool under three concretisations of how a tag wins; content selection is checked on seeded multi-account pools (limit, unsplit contract batches, per-account prefix).",
   note="concurrency clause: see level_note in DESIGN (race-detector stress on a real node, schedules not enumerated)",
   technique="TLA+ spec Pool.tla + TLC; complete edge-cover replay on the real account pool"),
 "C16": dict(cat="model_checking", design="§4 C16",
   text="Sync.tla Deliver = InsertChain step by step (skip known prefix, link check, rollback window, strictly longer, rollback, ordered apply with early return); TLC checks OnlyVerified, NeverCrashes and AdoptionRule over all deliveries and refutes NeverCrashes for the code as found. Generated behaviours are replayed on real followers over a real tree of momentums (one element = 15 momentums so that the abstract window 2 is the real window 30), with six manufactured kinds of invalid element; result class, reported index and resulting chain are compared after every delivery.",
   note="invalid kinds rotate over behaviours; the 30/31 boundary is covered at element granularity",
   technique="TLA+ spec Sync.tla + TLC; replay of TLC-generated deliveries on real nodes"),

 "C01": dict(cat="model_checking", design="§4 C01",
   text="Ledger.tla (balances, supplies, in-flight sends, inboxes; one action per block kind) is checked exhaustively by TLC for Conservation/NonNegative/SupplyOnlyByTokenContract on small constants; every account block and momentum of real executions (the repository's contract tests run unedited under the verif hooks, and seeded lab walks mixing transfers, receives, valid/failing/repeated contract calls, mint/burn/issue/update) is validated by TLC against LedgerTrace.tla with BigNat arithmetic: the logged post-balances and token records must equal what the specification computes, Conservation is evaluated over all accounts at every event, genesis included.",
   note="covers the executions recorded; per-method contract effects are constrained by the conservation shape (credit, descendant sends, token-contract supply delta), not re-derived per method",
   technique="TLA+ spec Ledger.tla + TLC; trace validation (LedgerTrace.tla, BigNat) of hook-recorded executions of the real node"),
 "C04": dict(cat="model_checking", design="§4 C04",
   text="AtMostOnce, OnlyAddressee and strict FIFO are invariants / guards of Ledger.tla checked exhaustively over all confirmation orders (negative controls: legacy mismatch receive, relaxed FIFO guard are refuted); real executions (repository tests under hooks, lab walks with second receives, receives by strangers) are validated event by event: a receive is accepted by the specification only for a confirmed, unreceived send addressed to the receiver, a contract receive only for the head of the contract's inbox in confirmation order.",
   note="reorganisation cases are decided by the Sync checks; the legacy regime below the enforcement height is a recorded finding",
   technique="TLA+ spec Ledger.tla + TLC; trace validation of hook-recorded executions"),
 "C09": dict(cat="model_checking", design="§4 C09",
   text="In Ledger.tla a contract receive has exactly two shapes, apply or refund-exactly; trace validation requires every contract receive produced by the real pillar path to match one of them (failed status => exact refund of amount/token to the sender and untouched storage; conservation of the contract's balances otherwise), every inbox to drain after the walk, and the producer to report no internal error. Calls come from repository tests, seeded walks (valid, failing, repeated, by strangers, foreign amounts) and the Locks behaviours.",
   note="argument encodings are sampled inside classes; methods reached are listed in the evidence",
   technique="TLA+ spec Ledger.tla + TLC; trace validation of the producer path"),
 "C10": dict(cat="model_checking", design="§4 C10",
   text="Locks.tla states the release rules (only the depositor after maturity; HTLC: beneficiary with the right preimage before expiry, proxy unlock allowed/denied; never twice) and TLC checks NotTwice/ReleasedOnlyTo; its complete edge cover (one entry) plus simulated two-entry behaviours are replayed on a real producer for fusions, stakes and hash-time-locks, comparing paid/refused, payee and amount of every attempt with the prediction. Backed (contract balance >= sum of recorded liabilities, read with the repository's definition readers) is evaluated by TLC at every momentum of all validated traces.",
   note="time boundaries are replayed at +-1 abstract unit (10 momentums); pillar/sentinel collateral and QSR deposits are covered by Backed and the walks, not by Locks",
   technique="TLA+ specs Locks.tla / LedgerTrace.tla + TLC; replay of TLC-generated behaviours on a real node; trace validation"),
 "C11": dict(cat="model_checking", design="§4 C11",
   text="RewardStep in LedgerTrace.tla: between two observations of a reward contract the epoch cursor only advances, no epoch beyond it is credited, an epoch already passed keeps exactly its credit (paid once), credit per epoch never exceeds the emission constant of the contract (liquidity: plus the administrator-configured additional reward), and minted rewards obey Conservation; evaluated on traces of the repository's reward tests and of lab walks spanning several short epochs with automatic and user-triggered updates and collects.",
   note="pillar cap uses the epoch's number of momentum slots; not applied to traced repository tests that change MomentumsPerEpoch; node-independence of rewards is decided by the C02 follower comparison",
   technique="TLA+ spec LedgerTrace.tla + TLC trace validation"),

 "C07": dict(cat="model_checking", design="§4 C07",
   text="TLC checks ViewAsOf/FreshViewRight/DiskIsFrontier/PatchesMatch/ParentRule exhaustively on VStore.tla (all commit/pop/open-view/restart histories up to height 3 over five patches incl. delete, re-create, empty value); every transition of the height-2 state graph is replayed on the real ldbManager and memdbManager (reads, existence, prefix scans, redo patches, raw key space) with the specification's predicted state as oracle; negative-control configurations show TLC refuting each invariant for the code as it was found.",
   note="keys/values are model values in TLC, byte-level cases come from four key concretisations; histories beyond the bound only through the thorough tier's larger configuration",
   technique="TLA+ spec VStore.tla + TLC exhaustive check + TLC-generated edge-cover behaviours replayed on the real store"),
 "C08": dict(cat="model_checking", design="§4 C08",
   text="VStoreCrash.tla models commit/rollback as Begin/RawWrite*/End with Crash enabled in every state; TLC proves CrashAtomic for batch granularity and refutes it for per-key granularity. The real store is bound by replaying every Commit/Pop transition of the VStore state graph, reconstructing the store as of EVERY journal-record boundary (and torn record) of the operation, reopening it and comparing the raw key space with the two admissible states, then re-delivering and comparing with the crash-free twin.",
   note="fault model = process death between database writes (journal record boundaries / torn tail record); goleveldb journal replay trusted",
   technique="TLA+ spec VStoreCrash.tla + TLC; crash-point enumeration of TLC-generated behaviours on the real leveldb store"),
}

extra = {
 "C01": " Added later: reorganisation scenarios (a producer adopts a longer branch across an epoch end, keeps producing, a fresh node synchronises and is traced), one walk with ZNN/QSR maximum supplies just above the genesis supplies (reward mints run into the cap), walks in child processes (a crash of the node's own goroutines is a C09 verdict).",
 "C02": " Added later: the long history contains a silence across an epoch end; two delivery schedules issue read-only consensus and ledger queries between deliveries; reorganisation scenarios (a fresh node must accept what a reorganised producer builds); lab nodes keep their consensus database on disk across restarts as the real node does.",
 "C03": " Added later: zero-amount (data-only) sends as pending and as already-received from-blocks.",
 "C04": " Added later: reorganisation scenarios, incl. a contract receive left pending on the abandoned branch while the adopted branch confirms the same call behind another one; the fresh node's trace is validated for FIFO / at-most-once.",
 "C07": " Added later: a generation pass over a state graph with ghost cache markers (GhostCache: which views were cached before a rollback, with the stale overlay) replays every transition that requests such a view again, plain and with 365 filler commits (second-level cache); half of the replayed commits are made from the change set of a view the writes went through (own-write visibility, no leak to sibling views, Changes() replays to the writes).",
 "C09": " Added later: CallCells.tla - the input space of a call as cells over the code's own ABI tables (per parameter a default class and deviating classes by type, amount/token/caller dimensions, tie; <= 1 deviation, <= 2 for the token contract), 2 755 cells in the quick tier, each concretised against a prepared state (tokens, fusions, stakes, HTLCs, a project, deposits, an initialised bridge) and executed on a producing node in child processes; dust-backers and sentinel late-revoke scenarios (reward computation at the rounding / eligibility boundary); stalls of one to three epochs in the walks; a crash of the node process is reported with the crashing frame.",
 "C10": " Added later: ReleasedRight in LedgerTrace.tla - on every validated trace (repository tests, walks, lock replays) each locked entry of any kind (fusion, stake, HTLC, pillar and sentinel collateral, QSR deposit, liquidity stake) that is gone or smaller after a momentum must have been paid by its contract, in its token, at least its amount, to the entitled party, not before its lock allows (periodic revoke windows evaluated at the execution-context time); a quick run sees about 270 releases of 7 kinds.",
 "C11": " Added later: reorganisation across an epoch end (a node that saw the abandoned branch must accept the adopted one and end in the same state), multi-epoch stalls (several epochs rewarded by one Update), tight maximum supplies, dust-backers and sentinel late-revoke scenarios.",
 "C12": " Added later: delivered blocks carry altered derived plasma fields (base / total plasma, not covered by the hash): the verdict must not depend on them.",
 "C13": " Added later: canonical ABI encoding - the lab's own head/tail encoder is the oracle (compared with the code's encoder on every method's canonical call); type-aware non-canonical encodings of every method's call (dirty padding per static parameter, out-of-range bools, broken sign extension, non-zero right padding and shifted tails of dynamic parameters, trailing bytes; 246 in a run), hashed and signed by the owner, are offered to a node: none may be stored as delivered.",
 "C14": " Added later: InsertRace.tla - the producer's generate / insert critical sections against a synchronising insert in between; all interleavings replayed on a real node with the worker's own calls; a -race build of four readers against a writer (gossip, sync, reorganisation, rollbacks) is run from the check, a DATA RACE report is a violation.",
 "C15": " Added later: SyncSession.tla - the node's own synchronisation (ancestor lookup, hash download, momentum download) against a remote that serves a real longer chain and answers one request by class (empty, garbage, unknown, too many, reversed, silent, silent while a second remote sends hashes, nil / unrequested / duplicated momentums, heights below and above the download window): the process stays alive, the synchronisation ends, and afterwards a well-behaved remote is synchronised with; replayed over real TCP/RLPx in child processes.",
 "C16": " Added later: an invalid element that exists only relative to the node's pool - a momentum by the rightful producer confirming a block the node pooled on the branch it abandoned.",
}
for k, v in extra.items():
    checks[k]["text"] += v
checks["C14"]["note"] = "concurrency clause: InsertRace.tla enumerates the producer/sync interleavings; 'no data race' is checked by the Go race detector on the schedules the scheduler produces, not by enumeration (DESIGN section 12)"
checks["C10"]["note"] = "time boundaries are replayed at +-1 abstract unit (10 momentums); bridge unwrap requests are not driven (no TSS key ceremony in the lab)"
checks["C09"]["note"] = "calls that need a particular contract state to go deep meet it only as far as the prepared fixture and the order of cells provide it; the walks complement this"
checks["C13"]["technique"] = "TLA+ spec Variants.tla + TLC; replay of every cell on two real nodes; codec round trips; independent canonical ABI encoder as oracle for generated non-canonical encodings"
checks["C15"]["technique"] = "TLA+ specs PeerSession.tla, WireSession.tla, SyncSession.tla + TLC; replay of every transition against the real protocol handler, p2p server, discovery listener and downloader in child processes"
checks["C09"]["technique"] = "TLA+ specs Ledger.tla / LedgerTrace.tla / CallCells.tla + TLC; cells generated from the code's ABI tables executed on a producing node; trace validation of the producer path"
checks["C14"]["technique"] = "TLA+ specs Pool.tla / InsertRace.tla + TLC; complete edge-cover replay on the real account pool and node; Go race detector stress"

na = {}
def main():
    props=[json.loads(l)["id"] for l in open("/verif/properties.jsonl")]
    m = {"version":1,
      "setup_cmd":"cd /verif && mkdir -p bin evidence && cp /repo/go.sum lab/go.sum && cd lab && GOFLAGS=-mod=mod GOPROXY=off GOSUMDB=off GOTOOLCHAIN=local go build -tags verif -o /verif/bin/vcheck.setup ./cmd/vcheck && rm -f /verif/bin/vcheck.setup",
      "hooks":{"guard":"verif","enable":"go build -tags verif (the lab module replaces github.com/zenon-network/go-zenon by /repo)","baseline_off_cmd":BASE_OFF,"source_commits":HOOKS,"add_only":True},
      "engines":[{"name":"vcheck","path":"/verif/vcheck","serves_properties":sorted(checks),"kind_free_text":"TLA+ specifications in /verif/spec checked with TLC; Go lab (/verif/lab) replays TLC-generated behaviours on the real packages and validates recorded traces against the trace specifications"}],
      "checks":[], "notes":"see DESIGN.md; known_findings.json lists recorded findings and repaired defects",
      "not_applicable":[]}
    for pid in props:
        if pid in checks:
            c=checks[pid]
            m["checks"].append({"property_id":pid,"quick_cmd":f"./vcheck {pid} --tier quick","thorough_cmd":f"./vcheck {pid} --tier thorough",
              "evidence_file":f"/verif/evidence/{pid}.json","replay_cmd_template":f"./vcheck {pid} --replay {{path}}","engine":"vcheck",
              "level_claimed":{"category":c["cat"],"text":c["text"],"design_ref":c["design"]},"level_note":c["note"],"technique":c["technique"]})
        else:
            m["not_applicable"].append({"property_id":pid,"reason":na.get(pid,"check not built yet (work in progress; the specification family of DESIGN.md §2.1 is being implemented in the order of §8)")})
    json.dump(m,open("/verif/MANIFEST.json","w"),indent=1)
HOOKS=["1d8062c","4e7aafd"]
main()
