------------------------------ MODULE TokenInd ------------------------------
(***************************************************************************)
(* Token.tla without its history variable and with amounts in Nat, for     *)
(* Apalache: IndInv is inductive, so the supply invariants of Token.tla    *)
(* hold for all amounts, not only for the 0..3 units TLC enumerates.       *)
(*   apalache-mc check --cinit=CInitOK --init=IndInit --inv=IndInv --length=1 TokenInd.tla   (the inductive step)  *)
(*   apalache-mc check --cinit=CInitOK --init=Init --inv=IndInv --length=0 TokenInd.tla      (the base case)       *)
(*   with --cinit=CInitBroken the step is refuted (WithinMax)                                                      *)
(***************************************************************************)
EXTENDS Integers

CONSTANT
  \* @type: Bool;
  GuardMint      \* FALSE: the negative control (Mint does not look at the remaining supply)
CInitOK == GuardMint = TRUE
CInitBroken == GuardMint = FALSE

Users == {"u1", "u2"}
Holders == Users \union {"sink"}

VARIABLES
  \* @type: { ex: Bool, owner: Str, total: Int, max: Int, mint: Bool, burn: Bool };
  tok,
  \* @type: Str -> Int;
  hold

NoTok == [ex |-> FALSE, owner |-> "-", total |-> 0, max |-> 0, mint |-> FALSE, burn |-> FALSE]

Init == tok = NoTok /\ hold = [h \in Holders |-> 0]

IssueValid(t, m, mi) == m >= 1 /\ t <= m /\ (mi \/ m = t)

Issue(u, t, m, mi, bu) ==
  /\ ~tok.ex
  /\ IF IssueValid(t, m, mi)
     THEN /\ tok' = [ex |-> TRUE, owner |-> u, total |-> t, max |-> m, mint |-> mi, burn |-> bu]
          /\ hold' = [hold EXCEPT ![u] = @ + t]
     ELSE UNCHANGED <<tok, hold>>

Mint(c, n, to) ==
  IF n > 0 /\ tok.ex /\ tok.mint /\ (GuardMint => tok.max - tok.total >= n) /\ c = tok.owner
  THEN /\ tok' = [tok EXCEPT !.total = @ + n]
       /\ hold' = [hold EXCEPT ![to] = @ + n]
  ELSE UNCHANGED <<tok, hold>>

Burn(c, n) ==
  /\ tok.ex /\ hold[c] >= n
  /\ IF n > 0 /\ (tok.burn \/ c = tok.owner)
     THEN /\ tok' = [tok EXCEPT !.total = @ - n, !.max = IF tok.mint THEN @ ELSE @ - n]
          /\ hold' = [hold EXCEPT ![c] = @ - n]
     ELSE UNCHANGED <<tok, hold>>

Update(c, o, mi, bu) ==
  IF tok.ex /\ c = tok.owner /\ (mi => tok.mint)
  THEN /\ tok' = [tok EXCEPT !.owner = o, !.mint = mi, !.burn = bu, !.max = IF tok.mint /\ ~mi THEN tok.total ELSE @]
       /\ UNCHANGED hold
  ELSE UNCHANGED <<tok, hold>>

Transfer(c, to, n) ==
  /\ tok.ex /\ n >= 1 /\ hold[c] >= n /\ c /= to
  /\ hold' = [hold EXCEPT ![c] = @ - n, ![to] = @ + n]
  /\ UNCHANGED tok

Next == \/ \E u \in Users, t \in Nat, m \in Nat, mi \in BOOLEAN, bu \in BOOLEAN : Issue(u, t, m, mi, bu)
        \/ \E c \in Users, n \in Nat, to \in Holders : Mint(c, n, to)
        \/ \E c \in Users, n \in Nat : Burn(c, n)
        \/ \E c \in Users, o \in Users, mi \in BOOLEAN, bu \in BOOLEAN : Update(c, o, mi, bu)
        \/ \E c \in Users, to \in Users, n \in Nat : Transfer(c, to, n)

TypeOK == /\ tok.total \in Nat /\ tok.max \in Nat
          /\ tok.owner \in Users \union {"-"}
          /\ \A h \in Holders : hold[h] \in Nat
          /\ DOMAIN hold = Holders
SupplyIsHeld == tok.total = hold["u1"] + hold["u2"] + hold["sink"]
WithinMax == tok.total <= tok.max
FrozenWhenNotMintable == (tok.ex /\ ~tok.mint) => tok.max = tok.total
NothingBeforeIssue == ~tok.ex => (tok = NoTok /\ \A h \in Holders : hold[h] = 0)
OwnerIsUser == tok.ex => tok.owner \in Users

IndInv == TypeOK /\ SupplyIsHeld /\ WithinMax /\ FrozenWhenNotMintable /\ NothingBeforeIssue /\ OwnerIsUser

\* an arbitrary state satisfying the invariant
IndInit ==
  /\ tok \in [ex : BOOLEAN, owner : Users \union {"-"}, total : Nat, max : Nat, mint : BOOLEAN, burn : BOOLEAN]
  /\ hold \in [Holders -> Nat]
  /\ IndInv
=============================================================================
