CONSTANTS
  NAdd <- IntAdd
  NSub <- IntSub
  NLeq <- IntLeq
  NZero = 0
  Contracts = {"tok", "stk"}
  TokenContract = "tok"
  MaxAmt = 2
  MaxSends = 4
  Legacy = FALSE
  StrictFifo = TRUE
INIT Init
NEXT Next
INVARIANTS Conservation AtMostOnce FIFO NonNegative OnlyAddressee FifoObserved InboxLive
PROPERTIES SupplyOnlyByTokenContract
CHECK_DEADLOCK FALSE
