------------------------------- MODULE Plasma -------------------------------
(***************************************************************************)
(* Plasma accounting of one user account (vm/plasma.go, vm/vm.go):         *)
(*   fused     plasma provided by the QSR fused for the account, as of the *)
(*             momentum a block acknowledges                               *)
(*   pooled    fused plasma claimed by the account's unconfirmed blocks    *)
(*   avail  =  fused - sum(pooled)      (negative is possible after a      *)
(*             fusion was cancelled while blocks were unconfirmed)         *)
(* A block claims fc fused plasma and pc plasma by proof-of-work; it is    *)
(* accepted iff fc <= avail, fc + pc >= Base, fc + pc <= Cap and the       *)
(* proof-of-work claim is genuine.  Numbers are real plasma units; TLC     *)
(* enumerates the boundary values only.                                    *)
(***************************************************************************)
EXTENDS Integers, Sequences, FiniteSets, TLC, Json

CONSTANTS Base, Cap, FusedValues, WithHist

VARIABLES fused, pooled, last, hist
vars == <<fused, pooled, last, hist>>

RECURSIVE Sum(_)
Sum(s) == IF s = <<>> THEN 0 ELSE Head(s) + Sum(Tail(s))
Avail == fused - Sum(pooled)

Init == fused \in FusedValues /\ pooled = <<>> /\ last = "init" /\ hist = <<>>

Accepts(fc, pc, genuine) == fc <= Avail /\ fc + pc >= Base /\ fc + pc <= Cap /\ (pc > 0 => genuine)

Rec(s) == hist' = IF WithHist THEN Append(hist, s @@ [r |-> last', fused |-> fused', avail |-> fused' - Sum(pooled')]) ELSE hist

FC == {x \in {0, Base - 50, Base - 1, Base, Avail - 1, Avail, Avail + 1} : x >= 0}
PC == {0, 49, 50}

\* `derived`: what the delivered block carries in the fields the hash does not cover and the node derives itself
\* (base plasma, total plasma): nothing there may change the verdict
Derived == {"asComputed", "baseOne", "baseHuge", "totalHuge", "totalZero"}
Submit(fc, pc, genuine) ==
  /\ Len(pooled) < 2
  /\ IF Accepts(fc, pc, genuine) THEN pooled' = Append(pooled, fc) /\ last' = "accepted"
                                 ELSE pooled' = pooled /\ last' = "rejected"
  /\ UNCHANGED fused
  /\ Rec([a |-> "Submit", fc |-> fc, pc |-> pc, genuine |-> genuine])

Confirm == /\ pooled # <<>> /\ pooled' = <<>> /\ last' = "confirmed" /\ UNCHANGED fused /\ Rec([a |-> "Confirm"])

\* the fusion is cancelled (takes effect for blocks acknowledging a later momentum); unconfirmed blocks keep their claims
CancelFusion == /\ fused > 0 /\ fused' = 0 /\ last' = "cancelled" /\ UNCHANGED pooled /\ Rec([a |-> "CancelFusion"])

Next == (\E fc \in FC, pc \in PC, gn \in BOOLEAN : Submit(fc, pc, gn)) \/ Confirm \/ CancelFusion

\* C12: what the unconfirmed blocks claim never exceeds what was fused when they were accepted; no block below its base cost
NoFreeBlock == [][last' = "accepted" => (pooled'[Len(pooled')] + 0 <= fused /\ Sum(pooled') <= fused)]_vars
GenView == <<fused, pooled>>
EmitEdge == IF WithHist THEN PrintT(<<"B", ToJson([steps |-> hist'])>>) ELSE TRUE
=============================================================================
