------------------------------ MODULE Election ------------------------------
(***************************************************************************)
(* The producer schedule of one election tick, transcribed from            *)
(* consensus/election_algorithm.go, and the acceptance guard of a          *)
(* momentum (verifier/momentum.go, consensus.VerifyMomentumProducer).      *)
(*                                                                         *)
(* Schedule(D, Perm) is a FUNCTION of the pillar delegations D as of the   *)
(* tick's proof momentum (sequence of [name, w]; w is the weight's rank)   *)
(* and of Perm(s, n), the permutation Go's math/rand yields for seed       *)
(* proofHeight + s and length n, which enters as data:                     *)
(*   order by (weight desc, name asc); at most NodeCount pillars -> cyclic *)
(*   fill in permuted order; otherwise top group by permutation, the rest  *)
(*   of the top group gets a second chance among the others, RandCount     *)
(*   random picks; finally the shuffle.                                    *)
(***************************************************************************)
EXTENDS Integers, Sequences, FiniteSets, TLC

\* sorting: SortSeq(s, Op) of the TLC module
\* records carry nr = rank of the name in lexicographic order (strings are not ordered in TLA+)
ByWeight(x, y) == x.w > y.w \/ (x.w = y.w /\ x.nr < y.nr)

Take(s, n) == SubSeq(s, 1, IF n > Len(s) THEN Len(s) ELSE n)
Drop(s, n) == IF n >= Len(s) THEN <<>> ELSE SubSeq(s, n + 1, Len(s))
Pick(s, idx) == [i \in 1..Len(idx) |-> s[idx[i]]]

RECURSIVE Fill(_, _, _)
Fill(acc, chunk, total) == IF Len(acc) >= total THEN Take(acc, total) ELSE Fill(acc \o chunk, chunk, total)

\* Perm(s, n): 1-based permutation of 1..n for seed offset s \in {0, 1}
Schedule(D, NodeCount, RandCount, Perm(_, _)) ==
  LET sorted == SortSeq(D, ByWeight)
      groupA == IF Len(D) <= NodeCount THEN sorted ELSE Take(sorted, NodeCount)
      groupB == IF Len(D) <= NodeCount THEN <<>> ELSE Drop(sorted, NodeCount)
      chosen ==
        IF Len(groupA) # NodeCount
        THEN Fill(<<>>, Pick(groupA, Perm(0, Len(groupA))), NodeCount)
        ELSE LET topTotal == NodeCount - RandCount
                 topIndex == Perm(0, NodeCount)
                 top      == Pick(groupA, Take(topIndex, topTotal))
                 groupB2  == groupB \o Pick(groupA, Drop(topIndex, topTotal))
                 rnd      == Take(Perm(1, Len(groupB2)), RandCount)
             IN top \o Pick(groupB2, rnd)
  IN Pick(chosen, Perm(0, Len(chosen)))

IsPerm(p, n) == Len(p) = n /\ {p[i] : i \in 1..n} = 1..n

---------------------------------------------------------------------------
(* Acceptance of a momentum.  A candidate is described by the facts the guards look at. *)
Accept(m) ==
  /\ m.hashCommitsToContent          \* hash = H(version, chain id, previous, height, timestamp, data, content, changes hash)
  /\ m.changesHashMatches            \* recomputed state-change patch
  /\ m.extendsFrontier               \* previous = frontier, height = frontier height + 1
  /\ m.timestampAfterPrevious        \* strictly later
  /\ m.notInFuture
  /\ m.signatureValid
  /\ m.signerIsElectedForSlot        \* Schedule(...)[slot(m.timestamp)]
=============================================================================
