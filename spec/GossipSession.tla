---------------------------- MODULE GossipSession ----------------------------
(***************************************************************************)
(* Gossip of a new momentum by an untrusted remote (protocol/handler.go    *)
(* NewBlockMsg / NewBlockHashesMsg, protocol/fetcher).  The node and the   *)
(* remote are at the same height; M is the genuine next momentum.          *)
(*                                                                         *)
(* The remote either pushes a momentum or announces hashes; for announced  *)
(* hashes it does not know the node asks the announcer (after the arrival  *)
(* time-out) and the remote answers the request with an answer of some     *)
(* class.  The node ends up holding M exactly if the genuine M reached it: *)
(* honest gossip works, and nothing but a verified momentum is imported    *)
(* (C16's rule, on the gossip path).  The node process stays alive and     *)
(* keeps serving others (the replay checks both after every behaviour).    *)
(***************************************************************************)
EXTENDS Integers, Sequences, FiniteSets, TLC, Json

CONSTANTS WithHist

\* "push-orphans-then-valid": sixty-four momentums at the next height whose predecessor nobody knows (the most one remote may
\* have queued), then the genuine one from the same remote - what cannot be imported must not use up the remote's allowance
\* "hash-orphans-then-valid": sixty-four announced hashes, each answered with such an orphan, then the genuine momentum pushed
Pushes   == {"push-valid", "push-bad-signature", "push-wrong-producer", "push-known", "push-orphans-then-valid", "hash-orphans-then-valid"}
Hashes   == {"hash-valid", "hash-unknown", "hash-many", "hash-known", "hash-valid-twice"}
\* answers to the node's request for an announced hash: the momentum asked for; a momentum it did not ask for; the momentum
\* asked for with a broken signature (its hash field untouched); undecodable; nothing in the list; no answer at all
Answers  == {"correct", "unrequested", "tampered-signature", "garbage", "empty", "silent"}

VARIABLES has,      \* the node holds M
          asked,    \* what the node is waiting for from the remote: "no", "M", "other"
          genuine,  \* ghost: the genuine M has reached the node
          ann,      \* what was announced (kept so that every pair of announcement and answer is a behaviour of its own)
          alive, n, hist
vars == <<has, asked, genuine, ann, alive, n, hist>>

Init == has = FALSE /\ asked = "no" /\ genuine = FALSE /\ ann = "-" /\ alive = TRUE /\ n = 0 /\ hist = <<>>

Rec(step) == hist' = IF WithHist THEN Append(hist, step @@ [has |-> has']) ELSE hist

Announce(a) ==
  /\ n = 0 /\ asked = "no"
  /\ n' = 1 /\ alive' = TRUE /\ ann' = a
  /\ genuine' = (a \in {"push-valid", "push-orphans-then-valid", "hash-orphans-then-valid"})
  /\ has' = (a \in {"push-valid", "push-orphans-then-valid", "hash-orphans-then-valid"})
  /\ asked' = CASE a \in {"hash-valid", "hash-valid-twice"} -> "M"
                [] a \in {"hash-unknown", "hash-many"} -> "other"
                [] OTHER -> "no"                        \* pushes are not asked about; known hashes are not asked for
  /\ Rec([k |-> "announce", a |-> a])

Answer(b) ==
  /\ asked # "no"
  /\ n' = n + 1 /\ alive' = TRUE /\ UNCHANGED ann
  /\ genuine' = (genuine \/ (asked = "M" /\ b = "correct"))
  /\ has' = (has \/ (asked = "M" /\ b = "correct"))
  /\ asked' = "no"
  /\ Rec([k |-> "answer", a |-> b])

Next == (\E a \in Pushes \cup Hashes : Announce(a)) \/ (\E b \in Answers : Answer(b))

NodeAlive == alive
OnlyGenuineImported == has => genuine
HonestGossipWorks == genuine => has

GenView == <<has, asked, ann, n>>
\* one behaviour per complete exchange
EmitEdge == IF WithHist /\ asked' = "no" THEN PrintT(<<"B", ToJson([steps |-> hist'])>>) ELSE TRUE
=============================================================================
