------------------------------- MODULE Wallet -------------------------------
(***************************************************************************)
(* Life cycle of a wallet key file with IDEAL primitives (C19):            *)
(*   Seal(k, n, m)   authenticated encryption: opens only with the same    *)
(*                   key and nonce and the unmodified cipher text          *)
(*   KDF(pw, salt)   injective key derivation                              *)
(* A file is [entropy sealed under KDF(pw, salt), nonce, salt, address].   *)
(* Tampering with cipher text, nonce or salt, or a different password,     *)
(* must make decryption fail; otherwise it returns exactly the entropy.    *)
(* The replay instantiates Tamper with single-bit flips of the real file   *)
(* and the passwords with empty / unicode / long / near-miss strings.      *)
(***************************************************************************)
EXTENDS Integers, Sequences, FiniteSets, TLC, Json

CONSTANTS Entropies, Passwords, WithHist
Fields == {"cipher", "nonce", "salt"}

NoFile == [e |-> "-", pw |-> "-", tampered |-> {}, exists |-> FALSE]
VARIABLES file,   \* [e, pw, tampered : SUBSET Fields, exists]
          last, hist
vars == <<file, last, hist>>

Init == file = NoFile /\ last = "init" /\ hist = <<>>
Rec(s) == hist' = IF WithHist THEN Append(hist, s @@ [r |-> last']) ELSE hist

Create(e, pw) == /\ file' = [e |-> e, pw |-> pw, tampered |-> {}, exists |-> TRUE] /\ last' = "created"
                 /\ Rec([a |-> "Create", e |-> e, pw |-> pw])
Tamper(f) == /\ file.exists /\ file' = [file EXCEPT !.tampered = @ \cup {f}] /\ last' = "tampered"
             /\ Rec([a |-> "Tamper", f |-> f])
Restore == /\ file.exists /\ file.tampered # {} /\ file' = [file EXCEPT !.tampered = {}] /\ last' = "restored"
           /\ Rec([a |-> "Restore"])
\* decryption succeeds iff the password is the one used and nothing was altered; then it yields the entropy
Decrypt(pw) == /\ file.exists /\ UNCHANGED file
               /\ last' = IF pw = file.pw /\ file.tampered = {} THEN file.e ELSE "fail"
               /\ Rec([a |-> "Decrypt", pw |-> pw])

Next == \/ \E e \in Entropies, pw \in Passwords : Create(e, pw)
        \/ \E f \in Fields : Tamper(f)
        \/ Restore
        \/ \E pw \in Passwords : Decrypt(pw)

\* C19: a successful decryption returns exactly the entropy the file was created from
ExactRoundTrip == (last \in Entropies) => (file.exists /\ last = file.e /\ file.tampered = {})
GenView == <<file>>
EmitEdge == IF WithHist THEN PrintT(<<"B", ToJson([steps |-> hist'])>>) ELSE TRUE
=============================================================================
