------------------------------- MODULE Genesis -------------------------------
(***************************************************************************)
(* Genesis configuration and its consistency (chain/genesis).              *)
(*                                                                         *)
(* A configuration lists balance blocks (address, balances), token         *)
(* records (total / maximum supply), pillars (collateral), fusions.  The   *)
(* genesis STATE built from it holds one balance per address (a later      *)
(* block for the same address overwrites an earlier one; a negative amount *)
(* is stored as its absolute value - what the builder does).               *)
(* Consistent: the built state adds up - per token the balances sum to the *)
(* declared supply (<= maximum), every given token is declared, the pillar *)
(* contract holds the pillars' collateral, the plasma contract the fused   *)
(* QSR, the swap contract nothing.                                         *)
(* Accepted is the validator.  TLC applies every single-entry perturbation *)
(* to a consistent base configuration and checks Accepted => Consistent.   *)
(***************************************************************************)
EXTENDS Integers, Sequences, FiniteSets, TLC, Json

CONSTANTS Validator,   \* "repaired" | "asFound"
          WithHist

VARIABLES cfg, pert
vars == <<cfg, pert>>

\* "o" is a third token: in the base configuration it is neither declared nor given to anybody
Base == [ blocks  |-> << [a |-> "u1", z |-> 5, q |-> 3, o |-> 0], [a |-> "u2", z |-> 2, q |-> 0, o |-> 0],
                         [a |-> "pillarC", z |-> 4, q |-> 0, o |-> 0], [a |-> "plasmaC", z |-> 0, q |-> 3, o |-> 0] >>,
          supply  |-> [z |-> [total |-> 11, max |-> 20], q |-> [total |-> 6, max |-> 20], o |-> [total |-> 0, max |-> 0]],
          odecl   |-> FALSE,
          pillars |-> <<2, 2>>,
          fusions |-> <<1, 2>> ]

Abs(x) == IF x < 0 THEN 0 - x ELSE x
RECURSIVE SumSeq(_)
SumSeq(s) == IF s = <<>> THEN 0 ELSE Head(s) + SumSeq(Tail(s))

Addrs(c) == {c.blocks[i].a : i \in 1..Len(c.blocks)}
LastIdx(c, a) == CHOOSE i \in 1..Len(c.blocks) : c.blocks[i].a = a /\ \A j \in (i+1)..Len(c.blocks) : c.blocks[j].a # a
\* the state the builder produces
Amt(b, t) == CASE t = "z" -> b.z [] t = "q" -> b.q [] OTHER -> b.o
Built(c, a, t) == IF a \in Addrs(c) THEN Abs(Amt(c.blocks[LastIdx(c, a)], t)) ELSE 0
RECURSIVE SumSet(_, _, _)
SumSet(c, S, t) == IF S = {} THEN 0 ELSE LET a == CHOOSE x \in S : TRUE IN Built(c, a, t) + SumSet(c, S \ {a}, t)

Consistent(c) ==
  /\ \A t \in {"z", "q"} : SumSet(c, Addrs(c), t) = c.supply[t].total /\ c.supply[t].total <= c.supply[t].max
  /\ IF c.odecl THEN SumSet(c, Addrs(c), "o") = c.supply.o.total /\ c.supply.o.total <= c.supply.o.max
                ELSE SumSet(c, Addrs(c), "o") = 0                     \* every given token is declared
  /\ Built(c, "pillarC", "z") = SumSeq(c.pillars)
  /\ Built(c, "plasmaC", "q") = SumSeq(c.fusions)
  /\ Built(c, "swapC", "z") = 0 /\ Built(c, "swapC", "q") = 0

\* the validator as found: sums the LISTED amounts (duplicates counted, signs kept), inspects a contract's block only if it finds one,
\* does not compare total with maximum supply
ListedSum(c, t) == SumSeq([i \in 1..Len(c.blocks) |-> Amt(c.blocks[i], t)])
BlockOf(c, a) == {i \in 1..Len(c.blocks) : c.blocks[i].a = a}
AcceptedAsFound(c) ==
  /\ \A t \in {"z", "q"} : ListedSum(c, t) = c.supply[t].total
  \* a declared token must be given to somebody (the validator refuses "declared but not given at all", also with a zero supply)
  /\ IF c.odecl THEN ListedSum(c, "o") = c.supply.o.total /\ \E i \in 1..Len(c.blocks) : c.blocks[i].o # 0
                ELSE \A i \in 1..Len(c.blocks) : c.blocks[i].o = 0
  /\ \A i \in BlockOf(c, "pillarC") : c.blocks[i].z = SumSeq(c.pillars) /\ c.blocks[i].q = 0
  /\ \A i \in BlockOf(c, "plasmaC") : c.blocks[i].q = SumSeq(c.fusions) /\ c.blocks[i].z = 0
  /\ \A i \in BlockOf(c, "swapC") : c.blocks[i].z = 0 /\ c.blocks[i].q = 0
\* repaired: additionally no duplicate addresses, no negative amounts, total <= max, a required holding needs its block
AcceptedRepaired(c) ==
  /\ AcceptedAsFound(c)
  /\ \A i, j \in 1..Len(c.blocks) : i # j => c.blocks[i].a # c.blocks[j].a
  /\ \A i \in 1..Len(c.blocks) : c.blocks[i].z >= 0 /\ c.blocks[i].q >= 0
  /\ \A t \in {"z", "q"} : c.supply[t].total <= c.supply[t].max
  /\ (c.odecl => c.supply.o.total <= c.supply.o.max)
  /\ (SumSeq(c.pillars) > 0 => BlockOf(c, "pillarC") # {})
  /\ (SumSeq(c.fusions) > 0 => BlockOf(c, "plasmaC") # {})
Accepted(c) == IF Validator = "repaired" THEN AcceptedRepaired(c) ELSE AcceptedAsFound(c)

Remove(s, i) == SubSeq(s, 1, i - 1) \o SubSeq(s, i + 1, Len(s))
Perturbations ==
  {[k |-> "none", i |-> 0]} \cup
  {[k |-> kk, i |-> ii] : kk \in {"balance+1", "balance-1", "block-removed", "block-duplicated", "block-duplicated-supply-raised", "negative-compensated"}, ii \in 1..Len(Base.blocks)} \cup
  {[k |-> kk, i |-> ii] : kk \in {"undeclared-token-given", "third-token-declared-and-given"}, ii \in 1..2} \cup
  {[k |-> kk, i |-> 0] : kk \in {"third-token-declared-nobody-holds-it", "third-token-declared-with-zero-supply"}} \cup
  {[k |-> kk, i |-> 0] : kk \in {"supply+1", "supply-1", "max-below-total", "pillar+1", "pillar-removed", "fusion+1", "fusion-removed", "swap-funded", "swap-funded-supply-raised"}}

Apply(p) ==
  LET b == Base.blocks IN
  CASE p.k = "none" -> Base
    [] p.k = "balance+1" -> [Base EXCEPT !.blocks[p.i].z = @ + 1]
    [] p.k = "balance-1" -> [Base EXCEPT !.blocks[p.i].z = @ - 1]
    [] p.k = "block-removed" -> [Base EXCEPT !.blocks = Remove(b, p.i)]
    [] p.k = "block-duplicated" -> [Base EXCEPT !.blocks = Append(b, b[p.i])]
    [] p.k = "block-duplicated-supply-raised" -> [Base EXCEPT !.blocks = Append(b, b[p.i]), !.supply.z.total = @ + b[p.i].z, !.supply.q.total = @ + b[p.i].q]
    [] p.k = "negative-compensated" -> [Base EXCEPT !.blocks[p.i].z = 0 - 1, !.blocks[IF p.i = 1 THEN 2 ELSE 1].z = @ + b[p.i].z + 1]
    [] p.k = "undeclared-token-given" -> [Base EXCEPT !.blocks[p.i].o = 1]
    [] p.k = "third-token-declared-and-given" -> [Base EXCEPT !.blocks[p.i].o = 1, !.odecl = TRUE, !.supply.o = [total |-> 1, max |-> 1]]
    [] p.k = "third-token-declared-nobody-holds-it" -> [Base EXCEPT !.odecl = TRUE, !.supply.o = [total |-> 1, max |-> 1]]
    [] p.k = "third-token-declared-with-zero-supply" -> [Base EXCEPT !.odecl = TRUE, !.supply.o = [total |-> 0, max |-> 1]]
    [] p.k = "supply+1" -> [Base EXCEPT !.supply.z.total = @ + 1]
    [] p.k = "supply-1" -> [Base EXCEPT !.supply.z.total = @ - 1]
    [] p.k = "max-below-total" -> [Base EXCEPT !.supply.z.max = Base.supply.z.total - 1]
    [] p.k = "pillar+1" -> [Base EXCEPT !.pillars[1] = @ + 1]
    [] p.k = "pillar-removed" -> [Base EXCEPT !.pillars = Tail(@)]
    [] p.k = "fusion+1" -> [Base EXCEPT !.fusions[1] = @ + 1]
    [] p.k = "fusion-removed" -> [Base EXCEPT !.fusions = Tail(@)]
    [] p.k = "swap-funded" -> [Base EXCEPT !.blocks = Append(b, [a |-> "swapC", z |-> 1, q |-> 0, o |-> 0])]
    [] p.k = "swap-funded-supply-raised" -> [Base EXCEPT !.blocks = Append(b, [a |-> "swapC", z |-> 1, q |-> 0, o |-> 0]), !.supply.z.total = @ + 1]

Init == pert \in Perturbations /\ cfg = Apply(pert)
Next == UNCHANGED vars

BaseIsConsistent == Consistent(Base) /\ AcceptedRepaired(Base)
AcceptedImpliesConsistent == Accepted(cfg) => Consistent(cfg)
\* every perturbation with its predicted verdict, for the replay
EmitCells == IF WithHist THEN PrintT(<<"B", ToJson([k |-> pert.k, i |-> pert.i, accepted |-> AcceptedRepaired(cfg), consistent |-> Consistent(cfg)])>>) ELSE TRUE
=============================================================================
