------------------------------ MODULE PowTrace ------------------------------
(* Proof-of-work threshold (pow/pow.go): a claim of difficulty d is honoured iff the 64-bit value h the
   nonce hashes to is at least 2^64 - floor(2^64 / d).  Each trace line carries d, h, the answer of the
   real CheckPoWNonce and a division witness q, r computed outside; the specification CHECKS the witness
   (q*d + r = 2^64, r < d) with BigNat arithmetic and then decides what the answer must be. *)
EXTENDS BigNat, TLC, Json

CONSTANTS TraceFile
VARIABLES l
Trace == ndJsonDeserialize(TraceFile)
E == Trace[l]

Two64 == <<1616, 955, 737, 6744, 1844>>     \* 18446744073709551616 in base 10^4, little endian

TInit == l = 1 /\ TLCSet(1, 1)
Expected(d, h, q) == BLeq(BSub(Two64, q), h)          \* h >= 2^64 - q
TPow ==
  /\ l <= Len(Trace) /\ E.ev = "Pow" /\ l' = l + 1
  /\ BIsNat(E.d) /\ BIsNat(E.h) /\ BIsNat(E.q) /\ BIsNat(E.r)
  /\ E.d # BZero
  /\ BAdd(BMul(E.q, E.d), E.r) = Two64 /\ BLt(E.r, E.d)        \* the witness is right
  /\ BLt(E.h, Two64)
  /\ E.result = Expected(E.d, E.h, E.q)
TNext == TPow
HighWater == TLCSet(1, IF TLCGet(1) > l THEN TLCGet(1) ELSE l)
Accepted == IF TLCGet(1) = Len(Trace) + 1 THEN TRUE ELSE PrintT(<<"REJECTED_AT", TLCGet(1)>>) /\ FALSE
=============================================================================
