-------------------------------- MODULE Sync --------------------------------
(***************************************************************************)
(* How a node adopts momentums delivered by peers: the decision procedure  *)
(* of protocol.ChainBridge.InsertChain, transcribed step by step.          *)
(*                                                                         *)
(* Momentums form a tree.  An identifier is the PATH of tags from genesis  *)
(* (a real identifier is a hash over the content chain): tags "a" and "b"  *)
(* are two different valid momentums on the same parent (same slot, other  *)
(* content), tag "x" is a momentum that fails verification (bad signature, *)
(* wrong producer, wrong changes hash, missing / extra / corrupt account   *)
(* block - the replay instantiates every kind).                            *)
(*                                                                         *)
(* The node holds one chain (a path).  Deliver(s, ts) hands it the batch   *)
(* s\o<<ts[1]>>, s\o<<ts[1],ts[2]>>, ... hanging off ANY identifier s:     *)
(* extensions, forks at every depth, shorter / equal / longer side chains, *)
(* overlaps with what the node has, re-deliveries, batches that do not     *)
(* link at all, an invalid element at any position.                        *)
(***************************************************************************)
EXTENDS Integers, Sequences, FiniteSets, TLC, Json

CONSTANTS Tags, MaxH, MaxBatch, MaxRollback, WithHist,
          NilCheck   \* F6: InsertChain checks that the momentum it wants to link to exists (FALSE: nil dereference = crash)

VARIABLES chain,   \* the node's chain = identifier of its frontier
          res,     \* result of the last delivery: [idx, err]
          alive,   \* the node process survived (ghost)
          hist

vars == <<chain, res, alive, hist>>

Ids == UNION {[1..n -> Tags \ {"="}] : n \in 0..MaxH}
Front(s) == SubSeq(s, 1, Len(s) - 1)
IsPrefix(p, s) == Len(p) <= Len(s) /\ SubSeq(s, 1, Len(p)) = p
Valid(id) == \A i \in 1..Len(id) : id[i] # "x"
OnChain(id) == IsPrefix(id, chain)          \* "our momentum at that height has the same hash"

\* the i-th element of the batch; the tag "=" repeats the previous element (duplicates inside a batch)
RECURSIVE Elem(_, _, _)
Elem(s, ts, i) == IF i = 0 THEN s
                  ELSE IF ts[i] = "=" THEN Elem(s, ts, i - 1)
                  ELSE Elem(s, ts, i - 1) \o <<ts[i]>>

Init == chain = <<>> /\ res = [idx |-> 0, err |-> "init"] /\ alive = TRUE /\ hist = <<>>

\* first index of the batch that is not already on the node's chain (k+1 if all are)
RECURSIVE FirstUnknown(_, _, _)
FirstUnknown(s, ts, i) == IF i > Len(ts) THEN i
                          ELSE IF OnChain(Elem(s, ts, i)) THEN FirstUnknown(s, ts, i + 1) ELSE i

\* apply elements i..k in order on top of `base`; stops at the first element that fails verification
RECURSIVE ApplyFrom(_, _, _, _)
ApplyFrom(base, s, ts, i) ==
  IF i > Len(ts) THEN [chain |-> base, idx |-> 0, err |-> "ok"]
  ELSE LET e == Elem(s, ts, i) IN
       IF e[Len(e)] = "x" \/ Front(e) # base      \* fails verification (an element must extend the frontier)
       THEN [chain |-> base, idx |-> i - 1, err |-> "invalid"]
       ELSE ApplyFrom(e, s, ts, i + 1)

Decide(s, ts) ==
  LET k     == Len(ts)
      start == FirstUnknown(s, ts, 1)
  IN IF start > k THEN [chain |-> chain, idx |-> 0, err |-> "ok", crash |-> FALSE]       \* nothing new: unchanged
     ELSE LET head == Elem(s, ts, start)
              tail == Elem(s, ts, k)
          IN IF Front(head) = chain
             THEN ApplyFrom(chain, s, ts, start) @@ [crash |-> FALSE]
             ELSE IF Len(head) - 1 > Len(chain)                                          \* no momentum at that height
                  THEN [chain |-> chain, idx |-> 0, err |-> "nolink", crash |-> ~NilCheck]
             ELSE LET target == SubSeq(chain, 1, Len(head) - 1) IN
                  IF target # Front(head) THEN [chain |-> chain, idx |-> 0, err |-> "nolink", crash |-> FALSE]
                  ELSE IF Len(chain) - Len(target) > MaxRollback THEN [chain |-> chain, idx |-> 0, err |-> "toofar", crash |-> FALSE]
                  ELSE IF Len(tail) <= Len(chain) THEN [chain |-> chain, idx |-> 0, err |-> "notlonger", crash |-> FALSE]
                  ELSE ApplyFrom(target, s, ts, start) @@ [crash |-> FALSE]          \* rolled back, then applied in order

Deliver(s, ts) ==
  /\ alive
  /\ Len(Elem(s, ts, Len(ts))) <= MaxH /\ \A i \in 1..Len(ts) : Len(Elem(s, ts, i)) >= 1
  /\ LET d == Decide(s, ts) IN
       /\ chain' = d.chain
       /\ res' = [idx |-> d.idx, err |-> d.err]
       /\ alive' = ~d.crash
  /\ hist' = IF WithHist THEN Append(hist, [s |-> s, ts |-> ts, idx |-> res'.idx, err |-> res'.err, chain |-> chain']) ELSE hist

Batches == UNION {[1..n -> Tags] : n \in 1..MaxBatch}

Next == \E s \in Ids, ts \in Batches : Deliver(s, ts)

Common(p, q) == LET n == CHOOSE m \in 0..Len(p) : /\ m <= Len(q) /\ SubSeq(p, 1, m) = SubSeq(q, 1, m)
                                                  /\ (m = Len(p) \/ m = Len(q) \/ p[m + 1] # q[m + 1])
                IN SubSeq(p, 1, n)

\* C16: the node never holds an element that failed verification
OnlyVerified == Valid(chain)
\* C15/C16: no delivery terminates the node
NeverCrashes == alive
\* C16: the chain is left only within the rollback window, and only for a batch that claimed a strictly greater height
AdoptionRule == [][LET c == Common(chain, chain') IN
                     /\ Len(chain) - Len(c) <= MaxRollback
                     /\ (c # chain => \E s \in Ids, ts \in Batches : Len(Elem(s, ts, Len(ts))) > Len(chain) /\ IsPrefix(chain', Elem(s, ts, Len(ts))))]_chain
\* deliberately NOT a property: a node that rolled back for a longer batch whose k-th element then fails ends on a shorter chain
NeverShorter == [][Len(chain') >= Len(chain)]_chain

GenView == <<chain, alive>>
EmitEdge == IF WithHist THEN PrintT(<<"B", ToJson([steps |-> hist'])>>) ELSE TRUE
=============================================================================
