------------------------------ MODULE LedgerMC ------------------------------
(* Exhaustive small-constant model of Ledger.tla: two users, a token contract and a
   stake-like contract, one token, amounts 0..MaxAmt, at most MaxSends send blocks.
   Contract receives are nondeterministic within the only two shapes the VM has
   (apply: keep / pay out / mint / burn;  fail: refund). *)
EXTENDS Ledger, TLC

CONSTANTS MaxAmt, MaxSends, Legacy
VARIABLES nextId
vars == <<lvars, nextId>>

IntAdd(a, b) == a + b
IntSub(a, b) == a - b
IntLeq(a, b) == a <= b

Users == {"u1", "u2"}
T == "t1"
MaxSup == 6

Init == /\ bal = (<<"u1", T>> :> 2) @@ (<<"u2", T>> :> 1) @@ (<<"stk", T>> :> 1)
        /\ supply = (T :> [total |-> 4, max |-> MaxSup])
        /\ sends = <<>> /\ inbox = <<>> /\ cursor = <<>> /\ nrecv = <<>>
        /\ nextId = 1

Fresh == nextId <= MaxSends

USend == \E a \in Users, to \in Users \cup Contracts, x \in 0..MaxAmt :
           /\ Fresh /\ a # to /\ Send(nextId, a, to, T, x) /\ nextId' = nextId + 1
URecv == \E a \in Users, sid \in DOMAIN sends : Recv(a, sid) /\ UNCHANGED nextId
ULegacy == Legacy /\ \E a \in Users, sid \in DOMAIN sends : LegacyMismatchRecv(a, sid) /\ UNCHANGED nextId

\* without the FIFO guard (negative control) a contract may take any confirmed send addressed to it
HeadOf(c) == IF StrictFifo THEN {Inbox(c)[Cursor(c) + 1]} ELSE {i \in DOMAIN sends : sends[i].to = c /\ sends[i].st = "confirmed"}

CRefund == \E c \in Contracts : Cursor(c) < Len(Inbox(c)) /\ \E sid \in HeadOf(c) :
             LET rf == RefundOf(sid, nextId) IN
             /\ (rf # <<>> => Fresh)
             /\ CRecv(c, sid, "fail", rf, <<>>)
             /\ nextId' = nextId + Len(rf)
CKeep   == \E c \in Contracts : Cursor(c) < Len(Inbox(c)) /\ \E sid \in HeadOf(c) :
             CRecv(c, sid, "ok", <<>>, <<>>) /\ UNCHANGED nextId
CPay    == \E c \in Contracts, u \in Users, x \in 1..MaxAmt : Cursor(c) < Len(Inbox(c)) /\ Fresh /\ \E sid \in HeadOf(c) :
             CRecv(c, sid, "ok", <<[id |-> nextId, to |-> u, tok |-> T, amt |-> x]>>, <<>>) /\ nextId' = nextId + 1
CMint   == \E u \in Users, x \in 1..MaxAmt : Cursor(TokenContract) < Len(Inbox(TokenContract)) /\ Fresh /\ \E sid \in HeadOf(TokenContract) :
             /\ supply[T].total + x <= MaxSup
             /\ CRecv(TokenContract, sid, "ok", <<[id |-> nextId, to |-> u, tok |-> T, amt |-> x]>>,
                      <<[tok |-> T, total |-> supply[T].total + x, max |-> MaxSup]>>)
             /\ nextId' = nextId + 1
CBurn   == Cursor(TokenContract) < Len(Inbox(TokenContract)) /\ \E sid \in HeadOf(TokenContract) :
             /\ sends[sid].amt > 0
             /\ CRecv(TokenContract, sid, "ok", <<>>, <<[tok |-> T, total |-> supply[T].total - sends[sid].amt, max |-> MaxSup]>>)
             /\ UNCHANGED nextId
\* a momentum confirms one pooled send (any order: all confirmation orders are explored)
MConfirm == \E id \in DOMAIN sends : sends[id].st = "pooled" /\ Confirm(<<id>>) /\ UNCHANGED nextId

Next == USend \/ URecv \/ ULegacy \/ CRefund \/ CKeep \/ CPay \/ CMint \/ CBurn \/ MConfirm

NonNegative == \A k \in DOMAIN bal : bal[k] >= 0
OnlyAddressee == \A i \in DOMAIN nrecv : i \notin DOMAIN sends   \* nobody but the addressee's own receive (which retires the send) was accepted
\* strict FIFO as an observable: the sends a contract received are exactly the first `cursor` entries of its inbox
FifoObserved == \A c \in Contracts : \A j \in 1..Len(Inbox(c)) : (Inbox(c)[j] \notin DOMAIN sends) <=> (j <= Cursor(c))
\* C09 liveness as a state predicate: the head of a non-empty inbox can always be processed (refund is always possible)
InboxLive == \A c \in Contracts : Cursor(c) < Len(Inbox(c)) =>
               LET sid == Inbox(c)[Cursor(c) + 1] IN sends[sid].st = "confirmed" /\ sends[sid].to = c
\* supply changes only in steps of the token contract
SupplyOnlyByTokenContract == [][supply' # supply => Cursor(TokenContract)' = Cursor(TokenContract) + 1]_vars
=============================================================================
