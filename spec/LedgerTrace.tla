---------------------------- MODULE LedgerTrace ----------------------------
(***************************************************************************)
(* Trace validation: an execution of the real ledger, recorded at the      *)
(* verif hooks (one event per accepted account block / committed momentum) *)
(* and projected to abstract events, must be a behaviour of Ledger.tla.    *)
(* Every event is  IsEvent(name) /\ Ledger action with the logged          *)
(* arguments /\ logged post-state = the state the specification computes.  *)
(* Amounts are BigNat digit sequences.  Many runs are concatenated, each   *)
(* starting with a Reset event.                                            *)
(***************************************************************************)
EXTENDS Ledger, BigNat, TLC, Json

CONSTANTS TraceFile
VARIABLES l,        \* next line of the trace
          postOf,   \* block id -> logged balances of its account after it (until confirmed)
          cbal,     \* confirmed balances: <<account, token>> -> amount
          obs       \* last momentum observation (liabilities, rewards)

tvars == <<lvars, l, postOf, cbal, obs>>

Trace == ndJsonDeserialize(TraceFile)

NoObs == [h |-> 0, liab |-> <<>>, rew |-> <<>>, time |-> 0, rel |-> <<>>, app |-> <<>>, pays |-> <<>>, unpaid |-> 0, sur |-> <<>>, surdrop |-> FALSE, collok |-> TRUE, fusebad |-> <<>>]

TInit == LInit /\ l = 1 /\ postOf = <<>> /\ cbal = <<>> /\ obs = NoObs /\ TLCSet(1, 1)

E == Trace[l]
IsEvent(name) == l <= Len(Trace) /\ Trace[l].ev = name /\ l' = l + 1

\* the logged balances of account a after the block equal what the specification computed
PostMatches(a, post) == \A i \in 1..Len(post) : Get(bal', <<a, post[i].t>>, BZero) = post[i].v
\* ... and every balance of the account which the specification's action changes is among the logged ones: the code wrote it
\* (a credit the code forgets leaves no entry in the block's state changes - without this it would go unnoticed until the
\* balance is written again)
ChangedLogged(a, post) ==
  \A k \in DOMAIN bal' :
    (k[1] = a /\ Get(bal', k, BZero) # Get(bal, k, BZero)) => \E i \in 1..Len(post) : post[i].t = k[2]
Remember(bid, a, post) == postOf' = Put(postOf, bid, [a |-> a, post |-> post])

TReset == /\ IsEvent("Reset")
          /\ bal' = <<>> /\ supply' = <<>> /\ sends' = <<>> /\ inbox' = <<>> /\ cursor' = <<>> /\ nrecv' = <<>>
          /\ postOf' = <<>> /\ cbal' = <<>> /\ obs' = NoObs

SeqToMapBal(q) == [k \in {<<q[i].a, q[i].t>> : i \in 1..Len(q)} |->
                     (CHOOSE i \in 1..Len(q) : <<q[i].a, q[i].t>> = k) ]
GenBal(q) == LET m == SeqToMapBal(q) IN [k \in DOMAIN m |-> q[m[k]].v]
GenSup(q) == [t \in {q[i].t : i \in 1..Len(q)} |->
                LET i == CHOOSE j \in 1..Len(q) : q[j].t = t IN [total |-> q[i].total, max |-> q[i].max]]

TGenesis == /\ IsEvent("Genesis")
            /\ Genesis(GenBal(E.bal), GenSup(E.supply))
            /\ cbal' = GenBal(E.bal) /\ postOf' = <<>> /\ obs' = NoObs

TSend == /\ IsEvent("Send")
         /\ Send(E.id, E.a, E.to, E.t, E.v)
         /\ PostMatches(E.a, E.post) /\ ChangedLogged(E.a, E.post) /\ Remember(E.id, E.a, E.post)
         /\ UNCHANGED <<cbal, obs>>

TRecv == /\ IsEvent("Recv")
         /\ Recv(E.a, E.sid)
         /\ PostMatches(E.a, E.post) /\ ChangedLogged(E.a, E.post) /\ Remember(E.id, E.a, E.post)
         /\ UNCHANGED <<cbal, obs>>

\* receive by an account the send was not addressed to (only possible below the enforcement height)
TMisRecv == /\ IsEvent("MisRecv")
            /\ LegacyMismatchRecv(E.a, E.sid)
            /\ PostMatches(E.a, E.post) /\ ChangedLogged(E.a, E.post) /\ Remember(E.id, E.a, E.post)
            /\ UNCHANGED <<cbal, obs>>

TCRecv == /\ IsEvent("CRecv")
          /\ CRecv(E.c, E.sid, E.status, E.desc, E.sup)
          /\ (E.status = "fail" => E.storage = 0)          \* a refunded call leaves the contract's storage untouched
          /\ PostMatches(E.c, E.post) /\ ChangedLogged(E.c, E.post) /\ Remember(E.id, E.c, E.post)
          /\ UNCHANGED <<cbal, obs>>

\* a momentum: confirms the blocks E.bids (content order); E.sids are the send blocks among them
RECURSIVE FoldPost(_, _, _)
FoldPost(cb, po, bids) ==
  IF bids = <<>> THEN cb
  ELSE LET b == Head(bids) IN
       IF b \notin DOMAIN po THEN FoldPost(cb, po, Tail(bids))     \* descendant send: no own state change
       ELSE LET p == po[b] IN
            FoldPost([k \in DOMAIN cb \cup {<<p.a, p.post[i].t>> : i \in 1..Len(p.post)} |->
                        IF \E i \in 1..Len(p.post) : k = <<p.a, p.post[i].t>>
                        THEN p.post[CHOOSE i \in 1..Len(p.post) : k = <<p.a, p.post[i].t>>].v
                        ELSE cb[k]], po, Tail(bids))

\* C11, between two observations of a reward contract's storage (old, new):
\*   the epoch cursor only moves forward; no epoch beyond the cursor is credited; what an epoch was
\*   credited never exceeds its emission; an epoch at or below the OLD cursor keeps exactly the credit
\*   it had (each epoch is rewarded once), and no recorded credit disappears.
OldRew(old, c) == IF \E k \in 1..Len(old) : old[k].c = c
                  THEN old[CHOOSE k \in 1..Len(old) : old[k].c = c]
                  ELSE [c |-> c, last |-> 0 - 1, hist |-> <<>>]
RewardStep(old, new) ==
  \A i \in 1..Len(new) :
    LET n == new[i]  o == OldRew(old, n.c) IN
    /\ n.last >= o.last
    /\ \A j \in 1..Len(n.hist) :
         /\ n.hist[j].e <= n.last
         /\ BLeq(n.hist[j].znn, n.hist[j].capZnn) /\ BLeq(n.hist[j].qsr, n.hist[j].capQsr)
         /\ (n.hist[j].e <= o.last =>
               \E k \in 1..Len(o.hist) : /\ o.hist[k].e = n.hist[j].e
                                         /\ o.hist[k].znn = n.hist[j].znn /\ o.hist[k].qsr = n.hist[j].qsr)
    /\ \A k \in 1..Len(o.hist) : \E j \in 1..Len(n.hist) : n.hist[j].e = o.hist[k].e

\* C11 "each contract rewards each epoch exactly once": a contract that pays every epoch unconditionally (the liquidity contract
\* before its spork) pays, in the momentum in which its cursor advances by d epochs, exactly d epochs
UnpaidEpochs(old, new) ==
  LET S == {i \in 1..Len(new) : new[i].unconditional}
  IN IF S = {} THEN 0
     ELSE LET i == CHOOSE k \in S : TRUE  n == new[i]  o == OldRew(old, n.c)
          IN (n.last - o.last) - n.paid

\* C11 "a credited reward can be collected exactly once, minting exactly the credited amount": per reward contract and token,
\* what is still to be collected plus what the contract asked the token contract to mint in this momentum equals what was to be
\* collected before plus what was credited since - a collection takes the whole deposit out, once, and asks for exactly that
CollectionsBalance(old, new) ==
  \A i \in 1..Len(new) :
    LET n == new[i] IN
    (n.known /\ \E k \in 1..Len(old) : old[k].c = n.c) =>
      LET o == old[CHOOSE k \in 1..Len(old) : old[k].c = n.c] IN
      /\ BAdd(n.depZnn, n.mintZnn) = BAdd(o.depZnn, BSub(n.sumZnn, o.sumZnn))
      /\ BAdd(n.depQsr, n.mintQsr) = BAdd(o.depQsr, BSub(n.sumQsr, o.sumQsr))

\* C10, sharper than Backed: what a lock-keeping contract holds beyond what it owes never shrinks. A genesis surplus would
\* otherwise hide an entry that was created without the funds behind it (a fusion recorded in QSR for a deposit in another
\* token). Only for the contracts whose balance moves with their entries alone (E.strict lists them: plasma, stake, HTLC).
SurplusOf(liab, cb) ==
  LET S == {i \in 1..Len(liab) : liab[i].strict /\ BLeq(liab[i].owed, Get(cb, <<liab[i].c, liab[i].t>>, BZero))}
  IN [k \in {<<liab[i].c, liab[i].t>> : i \in S} |->
        LET i == CHOOSE j \in S : <<liab[j].c, liab[j].t>> = k IN BSub(Get(cb, k, BZero), liab[i].owed)]
SurplusDrops(old, new) == \E k \in DOMAIN old \cap DOMAIN new : ~BLeq(old[k], new[k])

TMom == /\ IsEvent("Mom")
        /\ Confirm(E.sids)
        /\ cbal' = FoldPost(cbal, postOf, E.bids)
        \* the balances the momentum's own state-change patch records = balances after the last confirmed block
        /\ \A i \in 1..Len(E.cpost) : Get(cbal', <<E.cpost[i].a, E.cpost[i].t>>, BZero) = E.cpost[i].v
        /\ postOf' = [b \in DOMAIN postOf \ {E.bids[i] : i \in 1..Len(E.bids)} |-> postOf[b]]
        /\ RewardStep(obs.rew, E.rew)
        /\ obs' = [h |-> E.h, liab |-> E.liab, rew |-> E.rew, time |-> E.time, rel |-> E.rel, app |-> E.app, pays |-> E.pays,
                   unpaid |-> UnpaidEpochs(obs.rew, E.rew),
                   sur |-> SurplusOf(E.liab, cbal'), surdrop |-> SurplusDrops(obs.sur, SurplusOf(E.liab, cbal')),
                   collok |-> CollectionsBalance(obs.rew, E.rew),
                   fusebad |-> IF "fusebad" \in DOMAIN E THEN E.fusebad ELSE <<>>]

TNext == TReset \/ TGenesis \/ TSend \/ TRecv \/ TMisRecv \/ TCRecv \/ TMom

\* C10 Backed: at every momentum each contract holds at least what it owes (confirmed state)
Backed == \A i \in 1..Len(obs.liab) : BLeq(obs.liab[i].owed, Get(cbal, <<obs.liab[i].c, obs.liab[i].t>>, BZero))

\* C10 ReleasedRight: every locked entry that is gone (or smaller) after a momentum was released by the rule of its kind -
\* paid by its contract, in its token, at least its amount, to the entitled party, not before its lock allows; a QSR deposit
\* may instead have been consumed by a registration of the same owner. (The time compared is the confirming momentum's,
\* which is not earlier than the one the contract executed against: the rule is sound, at most one momentum lenient.)
PaidTo(r, a) == \E i \in 1..Len(obs.pays) : LET p == obs.pays[i] IN p.c = r.c /\ p.to = a /\ p.t = r.t /\ BLeq(r.amt, p.amt)
\* pillar and sentinel collateral: locked for r.lock seconds, revocable for r.win seconds, periodically from the registration on;
\* the time that counts is the one the paying receive executed against (p.ctx)
PaidInWindow(r, a) == \E i \in 1..Len(obs.pays) : LET p == obs.pays[i] IN
                         /\ p.c = r.c /\ p.to = a /\ p.t = r.t /\ BLeq(r.amt, p.amt)
                         /\ (r.win = 0 \/ p.ctx = 0 \/ ((p.ctx - r.reg) % (r.lock + r.win)) >= r.lock)
ReleaseOK(r) ==
  CASE r.kind = "fusion" -> PaidTo(r, r.owner) /\ obs.h >= r.unlock
    [] r.kind \in {"stake", "liquidity-stake"} -> PaidTo(r, r.owner) /\ obs.time >= r.unlock
    [] r.kind = "htlc" -> PaidTo(r, r.alt) \/ (PaidTo(r, r.owner) /\ obs.time >= r.unlock)
    [] r.kind = "qsr-deposit" -> PaidTo(r, r.owner)
                                  \/ \E i \in 1..Len(obs.app) : obs.app[i].owner = r.owner /\ obs.app[i].kind \in {"pillar", "sentinel-qsr"}
    [] OTHER -> PaidInWindow(r, r.owner)                \* pillar and sentinel collateral
ReleasedRight == \A i \in 1..Len(obs.rel) : ReleaseOK(obs.rel[i])

EveryConsumedEpochPaid == obs.unpaid = 0
CollectedRight == obs.collok
\* C12 / C10: the fused amount an account's plasma is computed from (a counter per beneficiary) is the sum of the fusion entries
\* made for it, at every momentum
FusedAmountsAddUp == obs.fusebad = <<>>
SurplusKept == ~obs.surdrop

HighWater == TLCSet(1, IF TLCGet(1) > l THEN TLCGet(1) ELSE l)
Accepted == IF TLCGet(1) = Len(Trace) + 1 THEN TRUE ELSE PrintT(<<"REJECTED_AT", TLCGet(1)>>) /\ FALSE
TraceView == <<l>>
=============================================================================
