------------------------------ MODULE Variants ------------------------------
(***************************************************************************)
(* A block's hash covers only part of its fields.  A VARIANT of a block is *)
(* the block with one uncovered (or re-derivable) field altered, possibly  *)
(* re-signed.  What a node does with the altered field decides whether two *)
(* nodes can store different bytes under one hash (C13):                   *)
(*   "verified"    the node checks the field: the variant is rejected      *)
(*   "normalised"  the node recomputes the field: accepted, stored         *)
(*                 canonically                                             *)
(*   "free"        stored as delivered - the hash does not pin the bytes   *)
(* Policy is the treatment each (block type, field) pair is GIVEN by the   *)
(* protocol as implemented after the repairs; the replay observes the real *)
(* treatment of every cell and compares.                                   *)
(*                                                                         *)
(* Two nodes: A (producer) holds the original, B hears a variant by gossip *)
(* before the momentum that confirms the original arrives.                 *)
(***************************************************************************)
EXTENDS Integers, Sequences, FiniteSets, TLC, Json

CONSTANTS Policy,     \* [type -> [field -> "verified" | "normalised" | "free"]]
          Types, Fields, WithHist

VARIABLES storedB,    \* what B stores for the block: "none" | "canonical" | "variant"
          confirmed,  \* A's momentum confirming the original exists
          bAccepted,  \* B accepted A's momentum: "n/a" | "yes" | "no"
          cell,       \* the (type, field) under test
          hist

vars == <<storedB, confirmed, bAccepted, cell, hist>>

Applicable(t, f) == f \in DOMAIN Policy[t]

Init == /\ storedB = "none" /\ confirmed = FALSE /\ bAccepted = "n/a"
        /\ cell \in {c \in [t : Types, f : Fields] : Applicable(c.t, c.f)}
        /\ hist = <<>>

Rec(s) == hist' = IF WithHist THEN Append(hist, s) ELSE hist

\* B hears the variant first
GossipVariant ==
  /\ storedB = "none" /\ ~confirmed
  /\ storedB' = CASE Policy[cell.t][cell.f] = "verified"   -> "none"
                  [] Policy[cell.t][cell.f] = "normalised" -> "canonical"
                  [] Policy[cell.t][cell.f] = "free"       -> "variant"
  /\ UNCHANGED <<confirmed, bAccepted, cell>>
  /\ Rec([a |-> "GossipVariant", t |-> cell.t, f |-> cell.f, stored |-> storedB'])

\* B hears the original (after, before or instead of the variant)
GossipOriginal ==
  /\ ~confirmed
  /\ storedB' = IF storedB = "none" THEN "canonical" ELSE storedB    \* an already pooled block with this hash is kept
  /\ UNCHANGED <<confirmed, bAccepted, cell>>
  /\ Rec([a |-> "GossipOriginal", t |-> cell.t, f |-> cell.f, stored |-> storedB'])

Confirm == /\ ~confirmed /\ confirmed' = TRUE /\ UNCHANGED <<storedB, bAccepted, cell>>
           /\ Rec([a |-> "Confirm", t |-> cell.t, f |-> cell.f, stored |-> storedB])

\* A's momentum (carrying the original) reaches B: B keeps a pooled block with the same hash;
\* the momentum commits to the state-change patch, which contains the stored bytes.
DeliverMomentum ==
  /\ confirmed /\ bAccepted = "n/a"
  /\ bAccepted' = IF storedB = "variant" THEN "no" ELSE "yes"
  /\ storedB' = IF storedB = "none" THEN "canonical" ELSE storedB
  /\ UNCHANGED <<confirmed, cell>>
  /\ Rec([a |-> "DeliverMomentum", t |-> cell.t, f |-> cell.f, stored |-> storedB', accepted |-> bAccepted'])

Next == GossipVariant \/ GossipOriginal \/ Confirm \/ DeliverMomentum

\* C13: same hash => same stored bytes on every node
HashPinsBytes == storedB # "variant"
\* C13 / C02: the producer's momentum is accepted by a node that heard a variant
NoSplit == bAccepted # "no"

GenView == <<storedB, confirmed, bAccepted, cell>>
EmitEdge == IF WithHist THEN PrintT(<<"B", ToJson([steps |-> hist'])>>) ELSE TRUE
=============================================================================
