-------------------------------- MODULE Locks --------------------------------
(***************************************************************************)
(* Release rules of the embedded contracts that lock funds (C10): plasma   *)
(* fusions, stakes, hash-time-locked deposits, deposited QSR.              *)
(*                                                                         *)
(* An entry is created with the received amount, carries its depositor,    *)
(* (for a hash-time-lock) the hash-lock beneficiary, and the time from     *)
(* which the depositor may take it back.  A withdrawal attempt has the     *)
(* caller, the time and (HTLC) the preimage as parameters; its guard is    *)
(* the release rule, the negated guard leads to a refusal that pays        *)
(* nothing.  Time is abstract: one unit = a fixed number of momentums in   *)
(* the replay; an entry matures two units after it was created.            *)
(*                                                                         *)
(* The specification predicts, for every attempt, whether the real         *)
(* contract must pay (and whom) or refuse; the behaviours TLC generates    *)
(* are replayed on a real producing node for every kind of lock.           *)
(***************************************************************************)
EXTENDS Integers, Sequences, FiniteSets, TLC, Json

CONSTANTS Users, MaxEntries, MaxTime, WithHist

VARIABLES entries,   \* sequence of [owner, ben, mature, st]   st \in {"active", "released"}
          now,
          deny,      \* users who denied proxy unlock of hash-time-locks addressed to them
          paid,      \* ghost: entry index -> number of payouts
          last,      \* result of the last attempt: [r \in {"paid","refused","created","tick","cfg"}, to]
          hist

vars == <<entries, now, deny, paid, last, hist>>

Init == /\ entries = <<>> /\ now = 0 /\ deny = {} /\ paid = <<>>
        /\ last = [r |-> "init", to |-> "-"] /\ hist = <<>>

Rec(step) == hist' = IF WithHist THEN Append(hist, step @@ [r |-> last'.r, to |-> last'.to, now |-> now]) ELSE hist

Deposit(u, b) ==
  /\ Len(entries) < MaxEntries
  /\ entries' = Append(entries, [owner |-> u, ben |-> b, mature |-> now + 2, st |-> "active"])
  /\ paid' = Append(paid, 0)
  /\ last' = [r |-> "created", to |-> "-"]
  /\ UNCHANGED <<now, deny>>
  /\ Rec([a |-> "Deposit", u |-> u, b |-> b])

Tick == /\ now < MaxTime /\ now' = now + 1
        /\ last' = [r |-> "tick", to |-> "-"]
        /\ UNCHANGED <<entries, deny, paid>>
        /\ Rec([a |-> "Tick"])

Pay(i, to) == /\ entries' = [entries EXCEPT ![i].st = "released"]
              /\ paid' = [paid EXCEPT ![i] = @ + 1]
              /\ last' = [r |-> "paid", to |-> to]
Refuse == /\ UNCHANGED <<entries, paid>> /\ last' = [r |-> "refused", to |-> "-"]

\* the depositor takes the entry back (CancelFuse, CancelStake, WithdrawQsr, ReclaimHtlc)
Withdraw(c, i) ==
  /\ i \in 1..Len(entries)
  /\ IF c = entries[i].owner /\ now >= entries[i].mature /\ entries[i].st = "active"
     THEN Pay(i, entries[i].owner) ELSE Refuse
  /\ UNCHANGED <<now, deny>>
  /\ Rec([a |-> "Withdraw", c |-> c, i |-> i])

\* hash-time-lock only: unlock with a preimage, before expiry; pays the hash-lock beneficiary
Unlock(c, i, pre) ==
  /\ i \in 1..Len(entries)
  /\ IF /\ pre = "right" /\ now < entries[i].mature /\ entries[i].st = "active"
        /\ (c = entries[i].ben \/ entries[i].ben \notin deny)
     THEN Pay(i, entries[i].ben) ELSE Refuse
  /\ UNCHANGED <<now, deny>>
  /\ Rec([a |-> "Unlock", c |-> c, i |-> i, pre |-> pre])

SetProxy(u, allow) ==
  /\ deny' = IF allow THEN deny \ {u} ELSE deny \cup {u}
  /\ deny' # deny
  /\ last' = [r |-> "cfg", to |-> "-"]
  /\ UNCHANGED <<entries, now, paid>>
  /\ Rec([a |-> "SetProxy", u |-> u, allow |-> allow])

Next == \/ \E u \in Users, b \in Users : Deposit(u, b)
        \/ Tick
        \/ \E c \in Users, i \in 1..MaxEntries : Withdraw(c, i)
        \/ \E c \in Users, i \in 1..MaxEntries, pre \in {"right", "wrong"} : Unlock(c, i, pre)
        \/ \E u \in Users, allow \in BOOLEAN : SetProxy(u, allow)

\* C10: never twice; only to the entitled party; not early
NotTwice == \A i \in 1..Len(paid) : paid[i] <= 1
ReleasedOnlyTo == last.r = "paid" => \E i \in 1..Len(entries) : entries[i].st = "released" /\ last.to \in {entries[i].owner, entries[i].ben}
PaidImpliesReleased == \A i \in 1..Len(entries) : (paid[i] = 1) <=> (entries[i].st = "released")

GenView == <<entries, now, deny>>
EmitEdge == IF WithHist THEN PrintT(<<"B", ToJson([steps |-> hist'])>>) ELSE TRUE
=============================================================================
