---------------------------- MODULE WireSession ----------------------------
(***************************************************************************)
(* One TCP connection of an untrusted remote to the node's p2p server      *)
(* (p2p/server.go setupConn, p2p/rlpx.go, p2p/peer.go), below the protocol *)
(* handler of PeerSession.tla.                                             *)
(*                                                                         *)
(*   tcp     connected, nothing sent                                       *)
(*   enc     encryption handshake done (frames are now MAC'ed/encrypted)   *)
(*   ready   protocol handshake done and the sub-protocol's Status         *)
(*           exchanged: the session the message loop serves                *)
(*   closed  the node has closed the connection                            *)
(*                                                                         *)
(* Every input has a REQUIRED reaction: the stage afterwards and the reply *)
(* the remote sees.  The node process stays alive whatever arrives, and a  *)
(* well-behaved second remote is still served afterwards (the replay       *)
(* checks both after every behaviour).                                     *)
(***************************************************************************)
EXTENDS Integers, Sequences, FiniteSets, TLC, Json

CONSTANTS MaxMsgs, WithHist

DiscKinds == {"disc-reason", "disc-empty-list", "disc-empty-payload", "disc-garbage", "disc-big-reason", "disc-long-list"}
\* corruptions of the frame layer: what a relay or a broken peer does to the encrypted stream
FrameKinds == {"frame-bad-header-mac", "frame-bad-frame-mac", "frame-truncated-close", "frame-oversize-announced",
               "frames-swapped", "frame-replayed"}

TcpIn   == {"auth-valid", "auth-garbage", "auth-bitflip", "auth-short-close", "close"}
EncIn   == {"hs-valid", "hs-extra-fields", "hs-garbage", "hs-empty-list", "hs-wrong-version", "hs-zero-id", "hs-no-caps",
            "hs-too-big", "ping", "base-unknown", "sub-code"} \cup DiscKinds \cup FrameKinds
\* "deaf-requests": the remote asks for more than the connection's buffers hold, stops reading and keeps sending keep-alives;
\* the node's reply cannot be written, so the write time-out must end the session (its message loop must not wait for ever)
ReadyIn == {"ping", "pong", "get-peers", "peers-garbage", "hs-again", "base-unknown", "sub-out-of-range",
            "sub-garbage", "sub-request", "deaf-requests"} \cup DiscKinds \cup FrameKinds

\* discovery datagrams (p2p/discover/udp.go): a stage of its own, every datagram is independent
UdpIn   == {"ping-valid", "ping-expired", "ping-wrong-version", "ping-bad-hash", "ping-bad-signature", "ping-truncated-rlp",
            "ping-extra-fields", "ping-huge-fields", "pong-unsolicited", "findnode-unbonded", "findnode-bonded", "findnode-expired",
            "neighbors-unsolicited", "unknown-type", "too-small", "empty", "garbage-1280", "oversize-2000"}

Inputs(stage) == CASE stage = "tcp" -> TcpIn [] stage = "enc" -> EncIn [] stage = "ready" -> ReadyIn [] stage = "udp" -> UdpIn [] OTHER -> {}

\* [next stage, reply]
Reaction(stage, in) ==
  CASE stage = "udp" /\ in \in {"ping-valid", "ping-huge-fields"} -> [to |-> "udp", reply |-> "pong"]   \* the sender's own endpoint fields are not interpreted
    [] stage = "udp" /\ in = "findnode-bonded" -> [to |-> "udp", reply |-> "neighbors"]
    [] stage = "udp" -> [to |-> "udp", reply |-> "none"]              \* everything else is dropped without an answer
    [] stage = "tcp" /\ in = "auth-valid" -> [to |-> "enc", reply |-> "auth-ack"]
    [] stage = "tcp" -> [to |-> "closed", reply |-> "none"]
    [] stage = "enc" /\ in = "hs-valid" -> [to |-> "ready", reply |-> "status"]
    [] stage = "enc" -> [to |-> "closed", reply |-> "none"]          \* anything but a valid handshake ends the connection
    [] stage = "ready" /\ in = "ping" -> [to |-> "ready", reply |-> "pong"]
    [] stage = "ready" /\ in \in {"pong", "get-peers", "peers-garbage", "hs-again", "base-unknown"} -> [to |-> "ready", reply |-> "none"]   \* other base messages are ignored
    [] stage = "ready" /\ in = "sub-request" -> [to |-> "ready", reply |-> "hashes"]
    [] stage = "ready" -> [to |-> "closed", reply |-> "none"]         \* disconnects, out-of-range codes, undecodable sub-protocol messages, any frame corruption, a remote that does not read

VARIABLES stage, alive, nmsg, hist
vars == <<stage, alive, nmsg, hist>>

Init == stage \in {"tcp", "udp"} /\ alive = TRUE /\ nmsg = 0 /\ hist = <<>>

Send(in) ==
  /\ alive /\ nmsg < MaxMsgs /\ in \in Inputs(stage)
  /\ nmsg' = nmsg + 1
  /\ alive' = TRUE                                   \* the requirement
  /\ LET r == Reaction(stage, in) IN
       /\ stage' = r.to
       /\ hist' = IF WithHist THEN Append(hist, [in |-> in, at |-> stage, to |-> r.to, reply |-> r.reply]) ELSE hist

Next == \E in \in TcpIn \cup EncIn \cup ReadyIn \cup UdpIn : Send(in)

NodeAlive == alive
\* a closed connection stays closed; stages only advance
Monotone == [][stage = "closed" => stage' = "closed"]_vars

GenView == <<stage, nmsg>>
EmitEdge == IF WithHist THEN PrintT(<<"B", ToJson([steps |-> hist'])>>) ELSE TRUE
=============================================================================
