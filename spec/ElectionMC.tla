----------------------------- MODULE ElectionMC -----------------------------
(* Exhaustive check of Schedule over every configuration of up to MaxP pillars with weights
   in Weights (equal weights, fewer pillars than slots included) and EVERY permutation math/rand could yield. *)
EXTENDS Election

CONSTANTS MaxP, NodeCount, RandCount, Weights
VARIABLES D, pa, pn, pb
vars == <<D, pa, pn, pb>>

Perms(n) == {p \in [1..n -> 1..n] : \A i, j \in 1..n : i # j => p[i] # p[j]}
Id(n) == [i \in 1..n |-> i]

NA(k) == IF k <= NodeCount THEN k ELSE NodeCount
NB(k) == IF k <= NodeCount THEN 0 ELSE k - NodeCount + RandCount

Init == \E k \in 1..MaxP :
          /\ D \in {[i \in 1..k |-> [name |-> i, nr |-> i, w |-> ws[i]]] : ws \in [1..k -> Weights]}
          /\ pa \in Perms(NA(k))
          /\ pn \in (IF NA(k) = NodeCount THEN {pa} ELSE Perms(NodeCount))   \* same seed, same length: same permutation
          /\ pb \in (IF NB(k) = 0 THEN {<<>>} ELSE IF NB(k) = NodeCount THEN {<<>>} ELSE Perms(NB(k)))

Next == UNCHANGED vars

PermOf(s, n) == IF s = 0 THEN (IF n = Len(pa) THEN pa ELSE IF n = NodeCount THEN pn ELSE Id(n))
                ELSE (IF n = Len(pb) THEN pb ELSE Id(n))

S == Schedule(D, NodeCount, RandCount, PermOf)

ExactlyNodeCountSlots == Len(S) = NodeCount
EverySlotARegisteredPillar == \A i \in 1..Len(S) : \E j \in 1..Len(D) : S[i] = D[j]
\* enough pillars: nobody gets two slots
NoDuplicateWhenEnough == Len(D) >= NodeCount => \A i, j \in 1..Len(S) : i # j => S[i].name # S[j].name
\* the schedule does not depend on the order in which the delegations are listed
Reversed(s) == [i \in 1..Len(s) |-> s[Len(s) + 1 - i]]
OrderIndependent == Schedule(Reversed(D), NodeCount, RandCount, PermOf) = S
\* the heaviest NodeCount - RandCount ... : a pillar outside the top group can only enter through the RandCount random slots
AtMostRandCountOutsiders ==
  Len(D) > NodeCount =>
    LET top == {SortSeq(D, ByWeight)[i].name : i \in 1..NodeCount}
    IN Cardinality({i \in 1..Len(S) : S[i].name \notin top}) <= RandCount
=============================================================================
