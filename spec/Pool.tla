-------------------------------- MODULE Pool --------------------------------
(***************************************************************************)
(* The unconfirmed pool of one account (chain/account_pool.go).            *)
(*                                                                         *)
(* A block is identified by the PATH of tags from the account's first      *)
(* block (a real identifier is a hash over the chain).  Tags are ordered   *)
(* by priority: "a" beats "b" beats "c" (higher plasma ratio, then smaller *)
(* hash - the replay instantiates both ways of winning).                   *)
(*                                                                         *)
(*   conf     the confirmed chain of the account (a path)                  *)
(*   pooled   the unconfirmed blocks on top of it (a sequence of tags)     *)
(*                                                                         *)
(* Add / ForceAdd are the decision list of addAccountBlockTransaction:     *)
(* fast-forward, already inserted, too old, previous mismatch, priority,   *)
(* rollback-and-replace.  InsertMomentum confirms a prefix of the pool     *)
(* (rebuild), DeleteMomentum un-confirms and drops the pool.               *)
(***************************************************************************)
EXTENDS Integers, Sequences, FiniteSets, TLC, Json

CONSTANTS Tags, MaxH, WithHist,
          FixH1     \* F15: a height-1 block's predecessor is the zero identifier (FALSE: code as found - "missing previous")

VARIABLES conf, pooled, res, hist
vars == <<conf, pooled, res, hist>>

Rank(t) == CASE t = "a" -> 1 [] t = "b" -> 2 [] t = "c" -> 3
Better(t, u) == Rank(t) < Rank(u)          \* strict: antisymmetric, total on distinct tags

Paths == UNION {[1..n -> Tags] : n \in 0..MaxH}
Sub(s, m, n) == LET e == IF n > Len(s) THEN Len(s) ELSE n IN IF m > e THEN <<>> ELSE SubSeq(s, m, e)   \* total
Front(s) == Sub(s, 1, Len(s) - 1)

\* the pure decision: what the pool holds after block parent\o<<t>> is offered
AddOp(cf, pl, parent, t, force) ==
  LET fr == cf \o pl
      h  == Len(parent) + 1
  IN IF parent = fr THEN [pooled |-> Append(pl, t), r |-> "fastforward"]
     ELSE IF h <= Len(fr) /\ Sub(fr, 1, h) = Append(parent, t) THEN [pooled |-> pl, r |-> "already"]
     ELSE IF h <= Len(cf) THEN [pooled |-> pl, r |-> "tooOld"]
     ELSE IF h > Len(fr) THEN [pooled |-> pl, r |-> "missingPrevious"]           \* gap: no block at h-1 ... h
     ELSE IF h = 1 /\ ~FixH1 THEN [pooled |-> pl, r |-> "missingPrevious"]         \* F15
     ELSE IF Sub(fr, 1, h - 1) # parent THEN [pooled |-> pl, r |-> "missingPrevious"]
     ELSE IF ~force /\ ~Better(t, fr[h]) THEN [pooled |-> pl, r |-> "worse"]
     ELSE [pooled |-> Append(Sub(fr, Len(cf) + 1, h - 1), t), r |-> "replaced"]

Init == conf = <<>> /\ pooled = <<>> /\ res = "init" /\ hist = <<>>

Rec(s) == hist' = IF WithHist THEN Append(hist, s @@ [r |-> res', conf |-> conf', pooled |-> pooled']) ELSE hist

Add(parent, t, force) ==
  /\ Len(parent) < MaxH
  /\ LET d == AddOp(conf, pooled, parent, t, force) IN pooled' = d.pooled /\ res' = d.r
  /\ UNCHANGED conf
  /\ Rec([a |-> "Add", parent |-> parent, t |-> t, force |-> force])

\* a momentum confirms the first k pooled blocks; the pool keeps the rest (they still link)
InsertMomentum(k) ==
  /\ k \in 1..Len(pooled)
  /\ conf' = conf \o Sub(pooled, 1, k)
  /\ pooled' = Sub(pooled, k + 1, Len(pooled))
  /\ res' = "confirmed"
  /\ Rec([a |-> "InsertMomentum", k |-> k])

\* the last momentum is rolled back: its k blocks are unconfirmed again, the whole pool is dropped
DeleteMomentum(k) ==
  /\ k \in 1..Len(conf)
  /\ conf' = Sub(conf, 1, Len(conf) - k)
  /\ pooled' = <<>>
  /\ res' = "deleted"
  /\ Rec([a |-> "DeleteMomentum", k |-> k])

\* candidates: blocks on any prefix of the frontier, plus one gap representative
Cand == {p \in Paths : \/ \E n \in 0..Len(conf \o pooled) : p = Sub(conf \o pooled, 1, n)
                       \/ (Len(p) = Len(conf \o pooled) + 1 /\ Front(p) = conf \o pooled /\ p[Len(p)] = "c")
                       \/ (Len(p) >= 1 /\ Len(p) <= Len(conf \o pooled) /\ Front(p) = Sub(conf \o pooled, 1, Len(p) - 1))}

Next == \/ \E p \in Cand, t \in Tags, f \in BOOLEAN : Add(p, t, f)
        \/ \E k \in 1..MaxH : InsertMomentum(k)
        \/ \E k \in 1..MaxH : DeleteMomentum(k)

\* C14: a confirmed block is never displaced by a pool operation
ConfirmedNeverDisplaced == [][(\E k \in 1..MaxH : conf' = Sub(conf, 1, Len(conf) - k) /\ pooled' = <<>>)
                              \/ (\E k \in 1..Len(pooled) : conf' = conf \o Sub(pooled, 1, k))
                              \/ conf' = conf]_vars
\* C14: two candidates competing for a height: the same winner whatever the order of arrival
WinnerRule == \A p \in Cand, t \in Tags, u \in Tags :
   (t # u /\ Len(p) < MaxH /\ Len(p) >= Len(conf)) =>
     LET x == AddOp(conf, AddOp(conf, pooled, p, t, FALSE).pooled, p, u, FALSE).pooled
         y == AddOp(conf, AddOp(conf, pooled, p, u, FALSE).pooled, p, t, FALSE).pooled
     IN (p = Sub(conf \o pooled, 1, Len(p))) => x = y

GenView == <<conf, pooled>>
EmitEdge == IF WithHist THEN PrintT(<<"B", ToJson([steps |-> hist'])>>) ELSE TRUE
=============================================================================
