------------------------------ MODULE BridgeInd ------------------------------
(***************************************************************************)
(* Bridge.tla without its history variable, with amounts, time and the     *)
(* nonce in Nat, typed for Apalache: IndInv is inductive, so NotTwice,     *)
(* PaidImpliesRedeemed and Backed hold for all amounts and all times, not  *)
(* only inside the bounds TLC enumerates.                                  *)
(*   apalache-mc check --cinit=CInitOK --init=IndInit --inv=IndInv --length=1 BridgeInd.tla *)
(*   apalache-mc check --cinit=CInitOK --init=Init    --inv=IndInv --length=0 BridgeInd.tla *)
(*   --cinit=CInitBroken (Redeem does not look at the request's state): refuted             *)
(***************************************************************************)
EXTENDS Integers

CONSTANT
  \* @type: Bool;
  CheckState
CInitOK == CheckState = TRUE
CInitBroken == CheckState = FALSE

Users == {"u1", "u2"}
Admin == "adm"
Ids == {1, 2}
Cfgs == {"plain", "proper", "burnable", "stubborn"}
Delay == 2

VARIABLES
  \* @type: Str;
  cfg,
  \* @type: Str;
  halt,
  \* @type: Int;
  coolUntil,
  \* @type: Bool;
  emergency,
  \* @type: Int;
  nonce,
  \* the request records of Bridge.tla, one function per field (Apalache does not build sets of functions into records with
  \* fields over Nat)
  \* @type: Int -> Str;
  reqSt,
  \* @type: Int -> Str;
  reqTo,
  \* @type: Int -> Int;
  reqAmt,
  \* @type: Int -> Int;
  reqAt,
  \* @type: Int;
  bal,
  \* @type: Int;
  now,
  \* @type: Int -> Int;
  paid

req == <<reqSt, reqTo, reqAmt, reqAt>>
BurnOK == cfg \in {"proper", "burnable"}
MintOK == cfg = "proper"
Owned  == cfg /= "plain"
CanAct == ~emergency /\ halt = "no"

Init == /\ cfg \in Cfgs /\ halt = "no" /\ coolUntil = 0 /\ emergency = FALSE /\ nonce = 0
        /\ reqSt = [i \in Ids |-> "none"] /\ reqTo = [i \in Ids |-> "-"] /\ reqAmt = [i \in Ids |-> 0] /\ reqAt = [i \in Ids |-> 0]
        /\ bal = 0 /\ now = 0
        /\ paid = [i \in Ids |-> 0]

Wrap(n) ==
  /\ n >= 1
  /\ bal' = IF CanAct /\ ~(Owned /\ BurnOK) THEN bal + n ELSE bal
  /\ UNCHANGED <<cfg, halt, coolUntil, emergency, nonce, req, now, paid>>

Unwrap(i, to, n, good) ==
  /\ n >= 1
  /\ IF CanAct /\ reqSt[i] = "none" /\ good
     THEN /\ reqSt' = [reqSt EXCEPT ![i] = "registered"] /\ reqTo' = [reqTo EXCEPT ![i] = to]
          /\ reqAmt' = [reqAmt EXCEPT ![i] = n] /\ reqAt' = [reqAt EXCEPT ![i] = now]
     ELSE UNCHANGED req
  /\ UNCHANGED <<cfg, halt, coolUntil, emergency, nonce, bal, now, paid>>

Redeem(i) ==
  /\ IF /\ CanAct /\ (CheckState => reqSt[i] = "registered") /\ reqSt[i] /= "none" /\ now >= reqAt[i] + Delay
        /\ (Owned \/ bal >= reqAmt[i])
     THEN /\ reqSt' = [reqSt EXCEPT ![i] = "redeemed"] /\ UNCHANGED <<reqTo, reqAmt, reqAt>>
          /\ IF Owned /\ ~MintOK
             THEN UNCHANGED <<bal, paid>>
             ELSE /\ paid' = [paid EXCEPT ![i] = @ + 1]
                  /\ bal' = IF Owned THEN bal ELSE bal - reqAmt[i]
     ELSE UNCHANGED <<req, bal, paid>>
  /\ UNCHANGED <<cfg, halt, coolUntil, emergency, nonce, now>>

Revoke(c, i) ==
  /\ IF c = Admin /\ ~emergency /\ reqSt[i] /= "none"
     THEN reqSt' = [reqSt EXCEPT ![i] = IF @ = "registered" THEN "revoked" ELSE @] /\ UNCHANGED <<reqTo, reqAmt, reqAt>>
     ELSE UNCHANGED req
  /\ UNCHANGED <<cfg, halt, coolUntil, emergency, nonce, bal, now, paid>>

Halt(c, good) ==
  /\ IF halt /= "yes" /\ ~emergency /\ (c = Admin \/ good)
     THEN halt' = "yes" /\ nonce' = (IF c = Admin THEN nonce ELSE nonce + 1)
     ELSE UNCHANGED <<halt, nonce>>
  /\ UNCHANGED <<cfg, coolUntil, emergency, req, bal, now, paid>>

Unhalt(c) ==
  /\ IF halt = "yes" /\ c = Admin /\ ~emergency
     THEN halt' = "cooling" /\ coolUntil' = now + 1
     ELSE UNCHANGED <<halt, coolUntil>>
  /\ UNCHANGED <<cfg, emergency, nonce, req, bal, now, paid>>

Emergency(c) ==
  /\ IF c = Admin /\ ~emergency
     THEN emergency' = TRUE /\ halt' = "yes"
     ELSE UNCHANGED <<emergency, halt>>
  /\ UNCHANGED <<cfg, coolUntil, nonce, req, bal, now, paid>>

Tick == /\ now' = now + 1
        /\ halt' = IF halt = "cooling" /\ now' >= coolUntil THEN "no" ELSE halt
        /\ UNCHANGED <<cfg, coolUntil, emergency, nonce, req, bal, paid>>

Callers == Users \union {Admin}
Next == \/ \E n \in Nat : Wrap(n)
        \/ \E i \in Ids, to \in Users, n \in Nat, good \in BOOLEAN : Unwrap(i, to, n, good)
        \/ \E i \in Ids : Redeem(i)
        \/ \E c \in Callers, i \in Ids : Revoke(c, i)
        \/ \E c \in Callers, good \in BOOLEAN : Halt(c, good)
        \/ \E c \in Callers : Unhalt(c)
        \/ \E c \in Callers : Emergency(c)
        \/ Tick

TypeOK == /\ cfg \in Cfgs /\ halt \in {"no", "yes", "cooling"}
          /\ coolUntil \in Nat /\ nonce \in Nat /\ bal \in Int /\ now \in Nat
          /\ DOMAIN reqSt = Ids /\ DOMAIN reqAmt = Ids /\ DOMAIN reqAt = Ids /\ DOMAIN reqTo = Ids /\ DOMAIN paid = Ids
          /\ \A i \in Ids : /\ reqSt[i] \in {"none", "registered", "redeemed", "revoked"}
                            /\ reqAmt[i] \in Nat /\ reqAt[i] \in Nat /\ paid[i] \in Nat
NotTwice == \A i \in Ids : paid[i] <= 1
PaidImpliesRedeemed == \A i \in Ids : (paid[i] = 1) => reqSt[i] = "redeemed"
UnpaidUnlessRedeemed == \A i \in Ids : reqSt[i] /= "redeemed" => paid[i] = 0
Backed == bal >= 0
RegisteredInThePast == \A i \in Ids : reqSt[i] /= "none" => reqAt[i] <= now

IndInv == TypeOK /\ NotTwice /\ PaidImpliesRedeemed /\ UnpaidUnlessRedeemed /\ Backed /\ RegisteredInThePast

IndInit ==
  /\ cfg \in Cfgs /\ halt \in {"no", "yes", "cooling"}
  /\ coolUntil \in Nat /\ emergency \in BOOLEAN /\ nonce \in Nat /\ bal \in Int /\ now \in Nat
  /\ reqSt \in [Ids -> {"none", "registered", "redeemed", "revoked"}] /\ reqTo \in [Ids -> Users \union {"-"}]
  /\ reqAmt \in [Ids -> Nat] /\ reqAt \in [Ids -> Nat]
  /\ paid \in [Ids -> Nat]
  /\ IndInv
=============================================================================
