------------------------------- MODULE Ledger -------------------------------
(***************************************************************************)
(* The dual ledger of go-zenon at the level the value-moving properties    *)
(* talk about (C01, C04, C09): balances, token supplies, send blocks in    *)
(* flight, contract inboxes.                                               *)
(*                                                                         *)
(* One action per kind of account block the node accepts (vm/vm.go):       *)
(*   Send       applySend: debit the sender, the send is in flight         *)
(*   Recv       applyReceive: a user account credits a confirmed send      *)
(*   CRecv      generateEmbeddedReceive: a contract takes the HEAD of its  *)
(*              inbox, credits the amount and either applies the call      *)
(*              (descendant sends, token-contract supply change) or, on    *)
(*              failure, refunds exactly the amount - nothing else exists  *)
(*   Confirm    a momentum confirms pooled blocks in content order; sends  *)
(*              to contracts are pushed to the contract's inbox            *)
(* The state is "pool inclusive": an accepted block takes effect when it   *)
(* enters the unconfirmed pool, as in the implementation.                  *)
(*                                                                         *)
(* Numbers are abstract (NAdd, NSub, NLeq, NZero): the exhaustive model    *)
(* instantiates them with Integers, the trace specification with BigNat.   *)
(***************************************************************************)
EXTENDS Integers, Sequences, FiniteSets

CONSTANTS NAdd(_, _), NSub(_, _), NLeq(_, _), NZero,
          Contracts,        \* addresses of the embedded contracts
          TokenContract,    \* the only account allowed to change a supply
          StrictFifo        \* TRUE: contracts take the head of their inbox (FALSE only in a negative control)

VARIABLES bal,      \* <<account, token>> -> amount (absent = zero)
          supply,   \* token -> [total, max]
          sends,    \* unreceived sends: id -> [from, to, tok, amt, st]   st \in {"pooled","confirmed"}
          inbox,    \* contract -> sequence of send ids in confirmation order
          cursor,   \* contract -> number of inbox entries already received
          nrecv     \* send id -> number of receive blocks accepted for it (ghost, AtMostOnce)

lvars == <<bal, supply, sends, inbox, cursor, nrecv>>

Get(f, k, d) == IF k \in DOMAIN f THEN f[k] ELSE d
Put(f, k, v) == [x \in (DOMAIN f) \cup {k} |-> IF x = k THEN v ELSE f[x]]

\* A received send leaves `sends` (retired objects are dropped from the state); the ghost counter of a
\* send is kept only while it says something: more than one receive, or a receive that left the send in place.
Drop(f, k) == [x \in (DOMAIN f) \ {k} |-> f[x]]
Count(n, sid) == IF Get(n, sid, 0) = 0 THEN n ELSE Put(n, sid, n[sid] + 1)

Bal(a, t)  == Get(bal, <<a, t>>, NZero)
Credit(b, a, t, x) == Put(b, <<a, t>>, NAdd(Get(b, <<a, t>>, NZero), x))
Debit(b, a, t, x)  == Put(b, <<a, t>>, NSub(Get(b, <<a, t>>, NZero), x))
CanDebit(b, a, t, x) == NLeq(x, Get(b, <<a, t>>, NZero))

Inbox(c)  == Get(inbox, c, <<>>)
Cursor(c) == Get(cursor, c, 0)

LInit == /\ bal = <<>> /\ supply = <<>> /\ sends = <<>>
         /\ inbox = <<>> /\ cursor = <<>> /\ nrecv = <<>>

\* The genesis state: balances and token table as configured.
Genesis(gbal, gsupply) ==
  /\ bal' = gbal /\ supply' = gsupply
  /\ sends' = <<>> /\ inbox' = <<>> /\ cursor' = <<>> /\ nrecv' = <<>>

\* A user (or, as a descendant, a contract) send block.
SendInto(b, s, id, a, to, tok, amt) ==
  [ok |-> id \notin DOMAIN s /\ CanDebit(b, a, tok, amt),
   b  |-> Debit(b, a, tok, amt),
   s  |-> Put(s, id, [from |-> a, to |-> to, tok |-> tok, amt |-> amt, st |-> "pooled"])]

Send(id, a, to, tok, amt) ==
  LET r == SendInto(bal, sends, id, a, to, tok, amt) IN
  /\ r.ok /\ bal' = r.b /\ sends' = r.s
  /\ UNCHANGED <<supply, inbox, cursor, nrecv>>

\* A user receive: the send is confirmed, not yet received, and addressed to the receiver.
Recv(a, sid) ==
  /\ a \notin Contracts
  /\ sid \in DOMAIN sends /\ sends[sid].st = "confirmed" /\ sends[sid].to = a
  /\ bal' = Credit(bal, a, sends[sid].tok, sends[sid].amt)
  /\ sends' = Drop(sends, sid)
  /\ nrecv' = Count(nrecv, sid)
  /\ UNCHANGED <<supply, inbox, cursor>>

\* What the code does below verifier.ReceiverMismatchEnforcementHeight (DESIGN F12): the addressee
\* check is skipped and the received-marker is per account, so any account may receive a confirmed
\* send once - and the addressee may still receive it as well.  Kept as a separate, named action:
\* it breaks Conservation, AtMostOnce and OnlyAddressee, which is the recorded finding.
LegacyMismatchRecv(a, sid) ==
  /\ a \notin Contracts
  /\ sid \in DOMAIN sends /\ sends[sid].st # "pooled" /\ sends[sid].to # a
  /\ bal' = Credit(bal, a, sends[sid].tok, sends[sid].amt)
  /\ nrecv' = Put(nrecv, sid, Get(nrecv, sid, 0) + 1)     \* the send stays receivable: counted
  /\ UNCHANGED <<supply, sends, inbox, cursor>>

RefundOf(sid, rid) ==
  IF sends[sid].amt = NZero THEN <<>>
  ELSE << [id |-> rid, to |-> sends[sid].from, tok |-> sends[sid].tok, amt |-> sends[sid].amt] >>

RECURSIVE ApplyDesc(_, _, _, _)
ApplyDesc(b, s, c, desc) ==     \* descendant sends in order; ok only if every one is covered
  IF desc = <<>> THEN [ok |-> TRUE, b |-> b, s |-> s]
  ELSE LET d == Head(desc)
           r == SendInto(b, s, d.id, c, d.to, d.tok, d.amt)
       IN IF ~r.ok THEN [ok |-> FALSE, b |-> b, s |-> s]
          ELSE ApplyDesc(r.b, r.s, c, Tail(desc))

\* Supply change by the token contract: nsup is a function token -> [total, max] for the tokens
\* whose record changes in this receive.  The contract's own balance moves by the same amount
\* (mint / issue: up, burn: down) - that is the only way the sum of balances changes.
RECURSIVE ApplySupply(_, _, _, _)
ApplySupply(b, sup, c, todo) ==
  IF todo = <<>> THEN [ok |-> TRUE, b |-> b, sup |-> sup]
  ELSE LET e   == Head(todo)          \* [tok, total, max]
           old == Get(sup, e.tok, [total |-> NZero, max |-> e.max]).total
           up  == NLeq(old, e.total)
           b2  == IF up THEN Credit(b, c, e.tok, NSub(e.total, old))
                  ELSE Debit(b, c, e.tok, NSub(old, e.total))
           ok  == /\ NLeq(e.total, e.max)
                  /\ (up \/ CanDebit(b, c, e.tok, NSub(old, e.total)))
       IN IF ~ok THEN [ok |-> FALSE, b |-> b, sup |-> sup]
          ELSE ApplySupply(b2, Put(sup, e.tok, [total |-> e.total, max |-> e.max]), c, Tail(todo))

\* A contract receive.  status = "ok": the call was applied; "fail": refunded.
CRecv(c, sid, status, desc, supplyChanges) ==
  /\ c \in Contracts
  /\ sid \in DOMAIN sends /\ sends[sid].st = "confirmed" /\ sends[sid].to = c
  /\ Cursor(c) < Len(Inbox(c)) /\ (StrictFifo => Inbox(c)[Cursor(c) + 1] = sid)   \* strict FIFO
  /\ (supplyChanges # <<>> => c = TokenContract /\ status = "ok")         \* SupplyChangesOnlyBy
  /\ LET b1 == Credit(bal, c, sends[sid].tok, sends[sid].amt)
         r1 == ApplySupply(b1, supply, c, supplyChanges)
         s1 == Drop(sends, sid)
         r2 == ApplyDesc(r1.b, s1, c, desc)
     IN /\ r1.ok /\ r2.ok
        /\ (status = "fail" =>
              /\ Len(desc) = Len(RefundOf(sid, 0))
              /\ \A i \in 1..Len(desc) : /\ desc[i].to = sends[sid].from
                                         /\ desc[i].tok = sends[sid].tok
                                         /\ desc[i].amt = sends[sid].amt)
        /\ bal' = r2.b /\ sends' = r2.s /\ supply' = r1.sup
  /\ cursor' = Put(cursor, c, Cursor(c) + 1)
  /\ nrecv' = Count(nrecv, sid)
  /\ UNCHANGED inbox

\* A momentum confirms the listed send blocks (content order); receive blocks need no bookkeeping here.
RECURSIVE ConfirmAll(_, _, _)
ConfirmAll(s, ib, ids) ==
  IF ids = <<>> THEN [ok |-> TRUE, s |-> s, ib |-> ib]
  ELSE LET id == Head(ids) IN
       IF id \notin DOMAIN s \/ s[id].st # "pooled" THEN [ok |-> FALSE, s |-> s, ib |-> ib]
       ELSE ConfirmAll([s EXCEPT ![id].st = "confirmed"],
                       IF s[id].to \in Contracts THEN Put(ib, s[id].to, Append(Get(ib, s[id].to, <<>>), id)) ELSE ib,
                       Tail(ids))

Confirm(ids) ==
  LET r == ConfirmAll(sends, inbox, ids) IN
  /\ r.ok /\ sends' = r.s /\ inbox' = r.ib
  /\ UNCHANGED <<bal, supply, cursor, nrecv>>

---------------------------------------------------------------------------
(* Properties *)

RECURSIVE SumSeq(_)
SumSeq(q) == IF q = <<>> THEN NZero ELSE NAdd(Head(q), SumSeq(Tail(q)))

RECURSIVE SetToSeq(_)
SetToSeq(S) == IF S = {} THEN <<>> ELSE LET x == CHOOSE y \in S : TRUE IN <<x>> \o SetToSeq(S \ {x})

SumBal(t) == LET ks == SetToSeq({k \in DOMAIN bal : k[2] = t})
             IN SumSeq([i \in 1..Len(ks) |-> bal[ks[i]]])
SumInflight(t) == LET ks == SetToSeq({i \in DOMAIN sends : sends[i].tok = t})
                  IN SumSeq([i \in 1..Len(ks) |-> sends[ks[i]].amt])

TokensSeen == DOMAIN supply \cup {k[2] : k \in DOMAIN bal} \cup {sends[i].tok : i \in DOMAIN sends}

\* C01: for every token, recorded supply = balances + in-flight sends, and supply <= max supply
Conservation == \A t \in TokensSeen :
                  /\ Get(supply, t, [total |-> NZero, max |-> NZero]).total = NAdd(SumBal(t), SumInflight(t))
                  /\ NLeq(Get(supply, t, [total |-> NZero, max |-> NZero]).total, Get(supply, t, [total |-> NZero, max |-> NZero]).max)

\* C04: each send is received at most once ...
AtMostOnce == \A i \in DOMAIN nrecv : nrecv[i] <= 1
\* ... and contracts consume their inbox strictly in order (cursor never runs ahead)
FIFO == \A c \in DOMAIN cursor : /\ cursor[c] <= Len(Inbox(c))
                                 /\ \A i \in 1..cursor[c] : Inbox(c)[i] \notin DOMAIN sends
=============================================================================
