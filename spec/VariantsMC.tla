----------------------------- MODULE VariantsMC -----------------------------
EXTENDS Variants

\* the treatment the protocol gives each uncovered field (after the repairs of DESIGN section 5)
PolicyRepaired ==
  [ userSend        |-> [changesHash |-> "verified", basePlasma |-> "normalised", totalPlasma |-> "normalised", publicKey |-> "verified", signature |-> "verified", signatureTrailing |-> "verified"],
    userReceive     |-> [changesHash |-> "verified", basePlasma |-> "normalised", totalPlasma |-> "normalised", publicKey |-> "verified", signature |-> "verified", signatureTrailing |-> "verified"],
    contractCall    |-> [dirtyPadding |-> "verified", trailingBytes |-> "verified", signatureTrailing |-> "verified"],
    contractReceive |-> [changesHash |-> "verified", basePlasma |-> "verified", totalPlasma |-> "verified", descendantBody |-> "verified", descendantPlasma |-> "verified"],
    momentum        |-> [publicKey |-> "verified", signature |-> "verified", signatureTrailing |-> "verified"] ]

\* the code as found: a user block's changes hash is stored as delivered (F7), a contract receive's
\* descendant bodies and plasma fields are stored as delivered (F8)
PolicyAsFound ==
  [ PolicyRepaired EXCEPT !.userSend.changesHash = "free", !.userReceive.changesHash = "free",
                          !.contractReceive.descendantBody = "free", !.contractReceive.descendantPlasma = "free",
                          !.contractReceive.basePlasma = "free", !.contractReceive.totalPlasma = "free" ]
=============================================================================
