--------------------------------- MODULE Rpc ---------------------------------
(***************************************************************************)
(* Paging of the JSON-RPC list queries (rpc/api/utils.go, ledger.go) over  *)
(* a ground-truth list L of length n (positions 1..n):                     *)
(*   Asc(idx, size)     GetRange: positions idx*size+1 .. idx*size+size    *)
(*                      (unconfirmed / unreceived blocks, embedded lists)  *)
(*   Desc(idx, size)    Get*ByPage on a chain: newest first                *)
(*   ByHeight(h, count) Get*ByHeight: positions h .. h+count-1, h >= 1     *)
(* Arithmetic is modelled in words of W values (the code computes          *)
(* idx*size in 32 bits): Wrap = TRUE reproduces the code as found, where   *)
(* the product wraps around; the repaired code computes in a wider type.   *)
(***************************************************************************)
EXTENDS Integers, Sequences, FiniteSets, TLC, Json

CONSTANTS MaxLen, W, Wrap, WithHist,
          OffsetIntoStored   \* TRUE: the negative control for lists with holes (see FPage)

VARIABLES n, idx, size
vars == <<n, idx, size>>

Mul(a, b) == IF Wrap THEN (a * b) % W ELSE a * b
Min(a, b) == IF a < b THEN a ELSE b

Asc(len, i, s) == LET start == Mul(i, s) IN
                  IF start >= len THEN <<>> ELSE [k \in 1..(Min(start + s, len) - start) |-> start + k]
Desc(len, i, s) == LET first == len - (i + 1) * s + 1          \* lowest position of the page
                       lo == IF first < 1 THEN 1 ELSE first
                       hi == len - i * s
                   IN IF hi < lo THEN <<>> ELSE [k \in 1..(hi - lo + 1) |-> hi - k + 1]
ByHeight(len, h, c) == IF h < 1 \/ h > len THEN <<>> ELSE [k \in 1..(Min(h + c - 1, len) - h + 1) |-> h + k - 1]

Init == n \in 0..MaxLen /\ idx \in 0..(W - 1) /\ size \in 0..(W - 1)
Next == UNCHANGED vars

RECURSIVE Concat(_, _, _, _)
Concat(Op(_, _, _), len, s, i) == IF i * s >= len + s THEN <<>> ELSE Op(len, i, s) \o Concat(Op, len, s, i + 1)

\* C18: paging through a list with any page size yields each element once, in order; a page never exceeds its size;
\*      a page index beyond the end yields nothing
AscPagesPartition  == size > 0 => Concat(Asc, n, size, 0) = [k \in 1..n |-> k]
DescPagesPartition == size > 0 => Concat(Desc, n, size, 0) = [k \in 1..n |-> n - k + 1]
PageBounded == Len(Asc(n, idx, size)) <= size /\ Len(Desc(n, idx, size)) <= size /\ Len(ByHeight(n, idx, size)) <= size
BeyondEndEmpty == (idx * size >= n) => Asc(n, idx, size) = <<>>

\* Lists with holes: the contract stores entries it does not list any more (a revoked sentinel or pillar, a cancelled entry).
\* H is the set of stored positions that are not listed; the page is a page of the LISTED sequence.  The negative control
\* computes the page range on the listed length but cuts it out of the stored list (one element comes twice, one never).
Listed(len, H) == SelectSeq([k \in 1..len |-> k], LAMBDA x : x \notin H)
FPage(len, H, i, s) ==
  LET L == Listed(len, H)
      P == Asc(Len(L), i, s)
  IN IF OffsetIntoStored
     THEN LET start == Mul(i, s)
              rest  == SelectSeq([k \in 1..len |-> k], LAMBDA x : x > start /\ x \notin H)
          IN SubSeq(rest, 1, Min(Len(P), Len(rest)))
     ELSE [k \in 1..Len(P) |-> L[P[k]]]
RECURSIVE FConcat(_, _, _, _)
FConcat(len, H, s, i) == IF i * s >= len + s THEN <<>> ELSE FPage(len, H, i, s) \o FConcat(len, H, s, i + 1)
FilteredPagesPartition == (size > 0 /\ idx = 0) => \A H \in SUBSET (1..n) : FConcat(n, H, size, 0) = Listed(n, H)

Emit == IF WithHist THEN PrintT(<<"B", ToJson([n |-> n, idx |-> idx, size |-> size, asc |-> Asc(n, idx, size), desc |-> Desc(n, idx, size), byh |-> ByHeight(n, idx, size)])>>) ELSE TRUE
=============================================================================
