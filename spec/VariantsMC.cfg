CONSTANTS
  Types = {"userSend", "userReceive", "contractReceive", "momentum"}
  Fields = {"changesHash", "basePlasma", "totalPlasma", "publicKey", "signature", "descendantBody", "descendantPlasma"}
  Policy <- PolicyRepaired
  WithHist = FALSE
INIT Init
NEXT Next
INVARIANTS HashPinsBytes NoSplit
CHECK_DEADLOCK FALSE
