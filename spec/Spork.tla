-------------------------------- MODULE Spork --------------------------------
(***************************************************************************)
(* Spork-gated features (vm/embedded/embedded.go, chain/momentum/          *)
(* embedded.go, vm/embedded/implementation/spork.go).                      *)
(*                                                                         *)
(* h is the chain height.  Every action states how many momentums it takes *)
(* on a real node, so that heights in the specification ARE real heights:  *)
(*   Create / Activate  the send is confirmed by momentum h+1, the spork   *)
(*                      contract receives it acknowledging h+1, momentum   *)
(*                      h+2 confirms the receive                           *)
(*   Tick               one momentum                                       *)
(*   Call(f)            a block calling feature f is offered at height h   *)
(*                      (it acknowledges momentum h); no momentum          *)
(* A spork is active for a block iff it is activated and its enforcement   *)
(* height <= the height of the momentum the block is evaluated against.    *)
(*                                                                         *)
(* CodeAvail is the availability as the method tables implement it         *)
(* (tables are cumulative and chosen by the highest-priority active        *)
(* spork: htlc > bridge > accelerator); PropAvail is the property:         *)
(* feature f is available iff ITS spork is active.  Where they differ the  *)
(* code makes a feature available that its own spork has not switched on   *)
(* (recorded finding F13).                                                 *)
(***************************************************************************)
EXTENDS Integers, Sequences, FiniteSets, TLC, Json

CONSTANTS MinDelay, MaxH, WithHist
Ids == {"acc", "bridge", "htlc"}

VARIABLES h, sp, last, hist
vars == <<h, sp, last, hist>>

Init == /\ h = 2
        /\ sp = [i \in Ids |-> [c |-> FALSE, e |-> 0]]     \* e = 0: not activated; else the enforcement height
        /\ last = "init" /\ hist = <<>>

Active(i, at) == sp[i].e # 0 /\ sp[i].e <= at
Prio(f) == CASE f = "acc" -> 1 [] f = "bridge" -> 2 [] f = "htlc" -> 3
\* cumulative tables: feature f is in the table of every spork of priority >= its own
CodeAvail(f, at) == \E i \in Ids : Active(i, at) /\ Prio(i) >= Prio(f)
PropAvail(f, at) == Active(f, at)

Rec(s) == hist' = IF WithHist THEN Append(hist, s @@ [r |-> last', h |-> h']) ELSE hist

Create(i, designated) ==
  /\ h + 2 <= MaxH
  /\ IF designated /\ ~sp[i].c
     THEN sp' = [sp EXCEPT ![i].c = TRUE] /\ last' = "created"
     ELSE UNCHANGED sp /\ last' = IF designated THEN "exists" ELSE "denied"
  /\ h' = IF designated THEN h + 2 ELSE h              \* a stranger's block is refused at send time: no momentum
  /\ Rec([a |-> "Create", i |-> i, designated |-> designated])

Activate(i, designated) ==
  /\ h + 2 <= MaxH /\ sp[i].c
  /\ IF designated /\ sp[i].e = 0
     THEN sp' = [sp EXCEPT ![i].e = h + 1 + MinDelay] /\ last' = "activated"
     ELSE UNCHANGED sp /\ last' = IF designated THEN "already" ELSE "denied"
  /\ h' = IF designated THEN h + 2 ELSE h
  /\ Rec([a |-> "Activate", i |-> i, designated |-> designated])

Tick == /\ h + 1 <= MaxH /\ h' = h + 1 /\ UNCHANGED sp /\ last' = "tick" /\ Rec([a |-> "Tick"])

Call(f) ==
  /\ UNCHANGED <<h, sp>>
  /\ last' = IF CodeAvail(f, h) THEN "available" ELSE "unavailable"
  /\ Rec([a |-> "Call", f |-> f, prop |-> PropAvail(f, h)])

Next == \/ \E i \in Ids, d \in BOOLEAN : Create(i, d) \/ Activate(i, d)
        \/ Tick
        \/ \E f \in Ids : Call(f)

\* C17: no gated feature is available while no spork at all is active; a feature whose own spork is active is available
GateByHeight == \A f \in Ids : (CodeAvail(f, h) => \E i \in Ids : Active(i, h)) /\ (PropAvail(f, h) => CodeAvail(f, h))
\* C17: activation needs creation, takes effect only after the minimum delay, and is never changed afterwards
ActivationRules == [][\A i \in Ids : /\ (sp[i].e # 0 => sp'[i].e = sp[i].e)
                                      /\ (sp'[i].e # 0 => (sp[i].e = sp'[i].e \/ (sp'[i].c /\ sp'[i].e >= h + 1 + MinDelay)))]_vars
\* where the code differs from the property (recorded finding)
CodeEqualsProperty == \A f \in Ids : CodeAvail(f, h) = PropAvail(f, h)

GenView == <<h, sp>>
EmitEdge == IF WithHist THEN PrintT(<<"B", ToJson([steps |-> hist'])>>) ELSE TRUE
=============================================================================
