------------------------------- MODULE BigNat -------------------------------
(* Natural numbers beyond TLC's 32-bit integers: little-endian sequences of base-10^4 digits,
   normalised (no most-significant zero digit; zero is the empty sequence).
   Used by the trace specifications, where ledger amounts reach 2^255. *)
EXTENDS Integers, Sequences

BBase == 10000
BZero == <<>>

RECURSIVE BNorm(_)
BNorm(a) == IF a = <<>> THEN <<>>
            ELSE IF a[Len(a)] = 0 THEN BNorm(SubSeq(a, 1, Len(a) - 1)) ELSE a

BDigit(a, i) == IF i <= Len(a) THEN a[i] ELSE 0
BMax(x, y) == IF x > y THEN x ELSE y

RECURSIVE BAddC(_, _, _, _)
BAddC(a, b, i, carry) ==
  IF i > BMax(Len(a), Len(b)) THEN (IF carry = 0 THEN <<>> ELSE <<carry>>)
  ELSE LET s == BDigit(a, i) + BDigit(b, i) + carry
       IN <<s % BBase>> \o BAddC(a, b, i + 1, s \div BBase)
BAdd(a, b) == BAddC(a, b, 1, 0)

\* compare: -1, 0, 1
RECURSIVE BCmpFrom(_, _, _)
BCmpFrom(a, b, i) ==
  IF i = 0 THEN 0
  ELSE IF a[i] < b[i] THEN 0 - 1
  ELSE IF a[i] > b[i] THEN 1
  ELSE BCmpFrom(a, b, i - 1)
BCmp(a, b) == IF Len(a) < Len(b) THEN 0 - 1
              ELSE IF Len(a) > Len(b) THEN 1
              ELSE BCmpFrom(a, b, Len(a))
BLeq(a, b) == BCmp(a, b) <= 0
BLt(a, b)  == BCmp(a, b) < 0

\* a - b for a >= b
RECURSIVE BSubC(_, _, _, _)
BSubC(a, b, i, borrow) ==
  IF i > Len(a) THEN <<>>
  ELSE LET d == a[i] - BDigit(b, i) - borrow
       IN IF d < 0 THEN <<d + BBase>> \o BSubC(a, b, i + 1, 1)
          ELSE <<d>> \o BSubC(a, b, i + 1, 0)
BSub(a, b) == BNorm(BSubC(a, b, 1, 0))

\* multiplication by a small integer (0 <= m < 10^4) and general multiplication
RECURSIVE BMulSmallC(_, _, _, _)
BMulSmallC(a, m, i, carry) ==
  IF i > Len(a) THEN (IF carry = 0 THEN <<>> ELSE <<carry>>)
  ELSE LET p == a[i] * m + carry IN <<p % BBase>> \o BMulSmallC(a, m, i + 1, p \div BBase)
BMulSmall(a, m) == BNorm(BMulSmallC(a, m, 1, 0))

RECURSIVE BMulR(_, _)
BMulR(a, b) == IF b = <<>> THEN <<>>
               ELSE BAdd(BMulSmall(a, b[1]), <<0>> \o BMulR(a, Tail(b)) )
BMul(a, b) == BNorm(BMulR(a, b))

BFromInt(n) == IF n = 0 THEN <<>> ELSE IF n < BBase THEN <<n>> ELSE <<n % BBase, n \div BBase>>  \* n < 10^8
BIsNat(a) == \A i \in 1..Len(a) : a[i] \in 0..(BBase - 1)
=============================================================================
