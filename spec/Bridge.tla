------------------------------- MODULE Bridge -------------------------------
(***************************************************************************)
(* The bridge contract as far as funds move through it (C10, last clause;  *)
(* C09 for the calls the bridge itself makes to the token contract).       *)
(*                                                                         *)
(* One network, one token pair.  Four kinds of pair (cfg):                 *)
(*   "plain"     not owned: wrapped amounts stay with the bridge, redeems  *)
(*               are paid out of its balance;                              *)
(*   "proper"    owned, the token belongs to the bridge: wraps are burned, *)
(*               redeems are minted;                                       *)
(*   "burnable"  owned by configuration, but the token belongs to a user   *)
(*               and is burnable: wraps are burned, the mint of a redeem   *)
(*               is refused by the token contract;                         *)
(*   "stubborn"  owned by configuration, the token belongs to a user and   *)
(*               is not burnable: the token contract refuses the burn, so  *)
(*               the amount has to come back to the bridge.                *)
(*                                                                         *)
(* Unwrap requests are registered with a signature of the threshold key    *)
(* over (id, recipient, amount); a registered request can be redeemed by   *)
(* anyone after the pair's delay, is paid to the recipient named in it,    *)
(* once, and not while the bridge is halted, cooling down after an unhalt, *)
(* or in emergency; the administrator can revoke it before that.           *)
(* A halt is ordered by the administrator or by anyone who presents a      *)
(* signature of the threshold key over the current nonce (used once).      *)
(*                                                                         *)
(* Two outcomes are the code's as found and not demanded by the property:   *)
(* "kept-unburned" (a wrap on a stubborn pair) and "consumed-unpaid" (a     *)
(* redeem whose mint is refused).  The replay ends a behaviour at the first *)
(* of them and accepts a refusal that leaves everything unchanged as well.  *)
(*                                                                         *)
(* Time is abstract: one unit = a fixed number of momentums in the replay; *)
(* the redeem delay is two units, the cool-down after an unhalt one.       *)
(***************************************************************************)
EXTENDS Integers, Sequences, FiniteSets, TLC, Json

CONSTANTS Users, Admin, Ids, MaxTime, MaxBal, MaxNonce, Cfgs, WithHist

VARIABLES cfg, halt, coolUntil, emergency, nonce, req, bal, now,
          paid,     \* ghost: id -> number of payouts
          last,     \* outcome of the last step
          hist

vars == <<cfg, halt, coolUntil, emergency, nonce, req, bal, now, paid, last, hist>>

NoReq == [st |-> "none", to |-> "-", amt |-> 0, at |-> 0]
Delay == 2

BurnOK == cfg \in {"proper", "burnable"}
MintOK == cfg = "proper"
Owned  == cfg # "plain"
CanAct == ~emergency /\ halt = "no"

Init == /\ cfg \in Cfgs /\ halt = "no" /\ coolUntil = 0 /\ emergency = FALSE /\ nonce = 0
        /\ req = [i \in Ids |-> NoReq] /\ bal = 0 /\ now = 0
        /\ paid = [i \in Ids |-> 0]
        /\ last = [r |-> "init", to |-> "-", amt |-> 0] /\ hist = <<>>

\* a step of the generated behaviour: the action, its predicted outcome and the state the contract must be in afterwards
Rec(step) == hist' = IF WithHist
                     THEN Append(hist, step @@ [r |-> last'.r, to |-> last'.to, amt |-> last'.amt, now |-> now, cfg |-> cfg,
                                                st |-> [bal |-> bal', halted |-> (halt' = "yes"), nonce |-> nonce', em |-> emergency', req |-> req']])
                     ELSE hist
Out(r) == last' = [r |-> r, to |-> "-", amt |-> 0]

\* a user sends n of the token to be wrapped
Wrap(u, n) ==
  /\ bal + n <= MaxBal
  /\ IF CanAct
     THEN /\ bal' = IF Owned /\ BurnOK THEN bal ELSE bal + n   \* kept (plain), burned, or burn refused and returned
          /\ Out(IF Owned /\ ~BurnOK THEN "kept-unburned" ELSE "ok")
     ELSE /\ bal' = bal /\ Out("refused")
  /\ UNCHANGED <<cfg, halt, coolUntil, emergency, nonce, req, now, paid>>
  /\ Rec([a |-> "Wrap", u |-> u, n |-> n])

\* anyone registers an unwrap request; sig: what the presented signature was made over
Unwrap(c, i, to, n, sig) ==
  /\ IF CanAct /\ req[i].st = "none" /\ sig = "good"
     THEN req' = [req EXCEPT ![i] = [st |-> "registered", to |-> to, amt |-> n, at |-> now]] /\ Out("ok")
     ELSE UNCHANGED req /\ Out("refused")
  /\ UNCHANGED <<cfg, halt, coolUntil, emergency, nonce, bal, now, paid>>
  /\ Rec([a |-> "Unwrap", c |-> c, i |-> i, dst |-> to, n |-> n, sig |-> sig])

Redeem(c, i) ==
  /\ IF /\ CanAct /\ req[i].st = "registered" /\ now >= req[i].at + Delay
        /\ (Owned \/ bal >= req[i].amt)
     THEN /\ req' = [req EXCEPT ![i].st = "redeemed"]
          /\ IF Owned /\ ~MintOK
             THEN /\ Out("consumed-unpaid") /\ UNCHANGED <<bal, paid>>   \* what the code does: see DESIGN
             ELSE /\ last' = [r |-> "paid", to |-> req[i].to, amt |-> req[i].amt]
                  /\ paid' = [paid EXCEPT ![i] = @ + 1]
                  /\ bal' = IF Owned THEN bal ELSE bal - req[i].amt
     ELSE UNCHANGED <<req, bal, paid>> /\ Out("refused")
  /\ UNCHANGED <<cfg, halt, coolUntil, emergency, nonce, now>>
  /\ Rec([a |-> "Redeem", c |-> c, i |-> i])

Revoke(c, i) ==
  /\ IF c = Admin /\ ~emergency /\ req[i].st # "none"
     THEN req' = [req EXCEPT ![i].st = IF @ = "registered" THEN "revoked" ELSE @] /\ Out("ok")
     ELSE UNCHANGED req /\ Out("refused")
  /\ UNCHANGED <<cfg, halt, coolUntil, emergency, nonce, bal, now, paid>>
  /\ Rec([a |-> "Revoke", c |-> c, i |-> i])

\* sig: "none" (administrator), "good" (over the current nonce), "stale" (over the previous nonce), "garbage"
Halt(c, sig) ==
  /\ (c = Admin) = (sig = "none")
  /\ sig = "stale" => nonce > 0
  /\ sig = "good" => nonce < MaxNonce
  /\ IF halt # "yes" /\ ~emergency /\ (c = Admin \/ sig = "good")
     THEN halt' = "yes" /\ nonce' = (IF c = Admin THEN nonce ELSE nonce + 1) /\ Out("ok")
     ELSE UNCHANGED <<halt, nonce>> /\ Out("refused")
  /\ UNCHANGED <<cfg, coolUntil, emergency, req, bal, now, paid>>
  /\ Rec([a |-> "Halt", c |-> c, sig |-> sig])

Unhalt(c) ==
  /\ IF halt = "yes" /\ c = Admin /\ ~emergency
     THEN halt' = "cooling" /\ coolUntil' = now + 1 /\ Out("ok")
     ELSE UNCHANGED <<halt, coolUntil>> /\ Out("refused")
  /\ UNCHANGED <<cfg, emergency, nonce, req, bal, now, paid>>
  /\ Rec([a |-> "Unhalt", c |-> c])

Emergency(c) ==
  /\ IF c = Admin /\ ~emergency
     THEN emergency' = TRUE /\ halt' = "yes" /\ Out("ok")
     ELSE UNCHANGED <<emergency, halt>> /\ Out("refused")
  /\ UNCHANGED <<cfg, coolUntil, nonce, req, bal, now, paid>>
  /\ Rec([a |-> "Emergency", c |-> c])

Tick == /\ now < MaxTime /\ now' = now + 1
        /\ halt' = IF halt = "cooling" /\ now' >= coolUntil THEN "no" ELSE halt
        /\ coolUntil' = IF halt' = "cooling" THEN coolUntil ELSE 0
        /\ Out("tick")
        /\ UNCHANGED <<cfg, emergency, nonce, req, bal, paid>>
        /\ Rec([a |-> "Tick"])

Callers == Users \cup {Admin}
AnyUser == CHOOSE u \in Users : TRUE
\* callers and arguments that cannot matter (who registers a request, what a bad signature was made over for which recipient)
\* are fixed: the code does not read them before it refuses
Next == \/ \E u \in Users, n \in 1..2 : Wrap(u, n)
        \/ \E i \in Ids, to \in Users, n \in 1..2 : Unwrap(AnyUser, i, to, n, "good")
        \/ \E i \in Ids, sig \in {"other-amount", "other-to", "garbage"} : Unwrap(AnyUser, i, AnyUser, 1, sig)
        \/ \E c \in Users, i \in Ids : Redeem(c, i)
        \/ \E c \in Callers, i \in Ids : Revoke(c, i)
        \/ Halt(Admin, "none")
        \/ \E sig \in {"good", "stale", "garbage"} : Halt(AnyUser, sig)
        \/ \E c \in Callers : Unhalt(c)
        \/ \E c \in Callers : Emergency(c)
        \/ Tick

\* C10: a redeem is paid once, to the recipient named in the request, its amount, not before the delay, not while stopped
NotTwice == \A i \in Ids : paid[i] <= 1
PaidImpliesRedeemed == \A i \in Ids : (paid[i] = 1) => req[i].st = "redeemed"
PaidRight == last.r = "paid" =>
               /\ CanAct
               /\ \E i \in Ids : /\ req[i].st = "redeemed" /\ last.to = req[i].to /\ last.amt = req[i].amt
                                 /\ now >= req[i].at + Delay
\* what the bridge holds never goes negative: a plain pair pays redeems out of what was wrapped
Backed == bal >= 0
\* nothing moves while the bridge is stopped
StoppedMeansStill == [][~CanAct => (bal' = bal /\ paid' = paid /\ \A i \in Ids : req'[i].st \in {req[i].st, "revoked"})]_vars
\* a halt signature is good for one halt
NonceOnlyGrows == [][nonce' >= nonce]_vars

GenView == <<cfg, halt, coolUntil, emergency, nonce, req, bal, now>>
EmitEdge == IF WithHist THEN PrintT(<<"B", ToJson([steps |-> hist'])>>) ELSE TRUE
=============================================================================
