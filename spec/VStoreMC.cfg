\* exhaustive, quick tier: heights <= 3, one reader view, five patches
CONSTANTS
  MaxH = 3
  MaxViews = 1
  Tags = {"a","b","c","d","e"}
  FixParent = TRUE
  FixTomb = TRUE
  FixCache = TRUE
  FixEmptyScan = TRUE
  GhostCache = FALSE
  WithHist = FALSE
INIT Init
NEXT Next
INVARIANTS ViewAsOf FreshViewRight DiskIsFrontier PatchesMatch NoStaleAccept
PROPERTIES ParentRule
CHECK_DEADLOCK FALSE
