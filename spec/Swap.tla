-------------------------------- MODULE Swap --------------------------------
(***************************************************************************)
(* The swap contract (vm/embedded/implementation/swap.go): assets of the   *)
(* legacy network, recorded at genesis under the hash of a secp256k1 key,  *)
(* are retrieved once by whoever presents a signature of that key over his *)
(* own address; what is paid decays with time (100 % until the offset,     *)
(* then 10 % less every decay period, never below nothing).                *)
(*                                                                         *)
(*   Retrieve(c, k, sig)  sig: what the presented signature was made over  *)
(*        "for-caller"    the caller's address: pays the caller, once      *)
(*        "for-other"     another address: rejected when the call is sent  *)
(*        "garbage"       rejected when the call is sent                   *)
(*   Decay                one more decay period has passed                 *)
(*                                                                         *)
(* The minted amounts (C01: the supply grows by exactly what is paid) are  *)
(* computed in the replay from the percentage the specification predicts.  *)
(***************************************************************************)
EXTENDS Integers, Sequences, FiniteSets, TLC, Json

CONSTANTS Keys, Users, MaxDecay, WithHist

VARIABLES left,   \* key -> the entry has not been retrieved yet
          d,      \* decay periods passed
          got,    \* ghost: key -> number of retrievals that paid or consumed the entry
          last, hist
vars == <<left, d, got, last, hist>>

Pct == IF 10 * d > 100 THEN 0 ELSE 100 - 10 * d

Init == left = [k \in Keys |-> TRUE] /\ d = 0 /\ got = [k \in Keys |-> 0] /\ last = [r |-> "init", pct |-> 0, to |-> "-"] /\ hist = <<>>

Rec(step) == hist' = IF WithHist THEN Append(hist, step @@ [r |-> last'.r, pct |-> last'.pct, left |-> left', d |-> d']) ELSE hist

Retrieve(c, k, sig) ==
  /\ IF sig # "for-caller"
     THEN UNCHANGED <<left, got>> /\ last' = [r |-> "rejected", pct |-> 0, to |-> "-"]
     ELSE IF left[k]
     THEN /\ left' = [left EXCEPT ![k] = FALSE]
          /\ got' = [got EXCEPT ![k] = @ + 1]
          /\ last' = [r |-> "ok", pct |-> Pct, to |-> c]
     ELSE UNCHANGED <<left, got>> /\ last' = [r |-> "refund", pct |-> 0, to |-> "-"]
  /\ UNCHANGED d
  /\ Rec([a |-> "Retrieve", c |-> c, k |-> k, sig |-> sig])

Decay == /\ d < MaxDecay /\ d' = d + 1
         /\ UNCHANGED <<left, got>> /\ last' = [r |-> "tick", pct |-> 0, to |-> "-"]
         /\ Rec([a |-> "Decay"])

Next == (\E c \in Users, k \in Keys, sig \in {"for-caller", "for-other", "garbage"} : Retrieve(c, k, sig)) \/ Decay

NotTwice == \A k \in Keys : got[k] <= 1
ConsumedOnce == \A k \in Keys : left[k] <=> got[k] = 0
NeverMoreThanRecorded == last.pct \in 0..100
PctOnlyFalls == [][Pct' <= Pct]_vars

GenView == <<left, d>>
EmitEdge == IF WithHist THEN PrintT(<<"B", ToJson([steps |-> hist'])>>) ELSE TRUE
=============================================================================
