------------------------------- MODULE VStore -------------------------------
(***************************************************************************)
(* The versioned key-value store of go-zenon (common/db/versioned_db.go),  *)
(* shaped like the implementation:                                         *)
(*                                                                         *)
(*   disk      frontier contents of the 0x55 key space (user keys)         *)
(*   chain     identifier of the frontier.  An identifier is the PATH of   *)
(*             patch tags from the empty store - identifiers in go-zenon   *)
(*             are hashes over the content chain, so "same path" is "same  *)
(*             identifier" and a different branch has different ids.       *)
(*   redo,undo patches stored by height (0x66 / 0x77 key spaces)           *)
(*   cache     the l1/l2 cache of ldbManager.Get: id -> [to, raw]          *)
(*   views     open reader views: [id, snap, raw]                          *)
(*                                                                         *)
(* Actions are the linearization points of the Go code: OpenView is the    *)
(* decision list of ldbManager.Get, Commit is ldbManager.Add, Pop is       *)
(* ldbManager.Pop.  The reference contents AsOf(id) are an OPERATOR (fold  *)
(* of the patches along the path), not a variable.                         *)
(*                                                                         *)
(* The Fix* constants select between the behaviour of the repaired code    *)
(* (TRUE) and of the code as it was found (FALSE); the FALSE settings are  *)
(* the negative-control configurations (TLC must refute the invariant).    *)
(***************************************************************************)
EXTENDS VStoreBase, TLC, Json

CONSTANTS MaxH,          \* maximal height explored
          MaxViews,      \* number of view slots
          Tags,          \* patch alphabet actually used (subset of AllTags)
          FixParent,     \* F1: Add compares the parent with the REAL frontier
          FixTomb,       \* F2: ApplyWithoutOverride stores a tombstone for Delete
          FixCache,      \* F3: Pop purges the view cache
          FixEmptyScan,  \* F16: historical scans show keys holding the empty value
          GhostCache,    \* behaviour generation: Pop leaves a dead marker for every purged cache entry, so that the
                         \* state graph tells "a view of id was cached before the rollback" from "never requested"
                         \* (same observable behaviour; histories on which a store that forgets to purge would differ)
          WithHist       \* carry the history variable (behaviour generation)

VARIABLES disk, chain, redo, undo, cache, views, res, hist

vars == <<disk, chain, redo, undo, cache, views, res, hist>>

Ids == UNION {[1..n -> Tags] : n \in 0..MaxH}

NoView     == [id |-> <<>>, snap |-> EmptyDisk, raw |-> EmptyLayer, open |-> FALSE]

\* heightByHash lookup against the frontier: the ids findable are the prefixes
\* of the frontier's path (the bookkeeping keys are part of every patch).
Known(id) == IsPrefix(id, chain)

\* ApplyWithoutOverride over undo[from..to]: the first writer wins.
RECURSIVE Fold(_, _, _)
Fold(raw, from, to) ==
  IF from > to THEN raw
  ELSE Fold([k \in Keys |->
               IF raw[k] # UNSET THEN raw[k]
               ELSE IF undo[from][k] = UNSET THEN UNSET
               ELSE IF undo[from][k] = NONE
                    THEN (IF FixTomb THEN NONE ELSE EPS)   \* F2: {0} = present-empty
               ELSE undo[from][k]], from + 1, to)

CacheFor(id) == {c \in cache : c.id = id}

\* ldbManager.Get(id): returns [ok, v, c] (c = cache afterwards).
GetView(id) ==
  IF id = <<>> THEN [ok |-> TRUE, v |-> [id |-> <<>>, snap |-> EmptyDisk, raw |-> EmptyLayer, open |-> TRUE], c |-> cache]
  ELSE IF id = chain THEN [ok |-> TRUE, v |-> [id |-> id, snap |-> disk, raw |-> EmptyLayer, open |-> TRUE], c |-> cache]
  ELSE IF ~Known(id) THEN [ok |-> FALSE, v |-> NoView, c |-> cache]
  ELSE LET hit  == CacheFor(id)
           live == {c \in hit : c.to >= 0}
           ce   == IF live = {} THEN [id |-> id, to |-> Len(id), raw |-> EmptyLayer]
                   ELSE CHOOSE c \in live : TRUE
           raw  == Fold(ce.raw, ce.to + 1, Len(chain))
       IN [ok |-> TRUE,
           v  |-> [id |-> id, snap |-> disk, raw |-> raw, open |-> TRUE],
           c  |-> (cache \ hit) \cup {[id |-> id, to |-> Len(chain), raw |-> raw]}]

Lookup(v, k) == IF v.raw[k] # UNSET THEN v.raw[k] ELSE v.snap[k]
Content(v)   == [k \in Keys |-> Lookup(v, k)]

\* What an ordered scan of a view returns (the set of keys with a non-nil value).
\* Historical views (raw overlay in use) hide values of length <= 1, i.e. the
\* tombstone AND the empty value (F16).
ScanOf(v) == {k \in Keys : /\ Lookup(v, k) # NONE
                           /\ (FixEmptyScan \/ v.id = <<>> \/ v.raw = EmptyLayer \/ Lookup(v, k) # EPS)}
\* NB: a frontier view (raw = EmptyLayer, merged [memdb, snapshot]) has no skip-deleted layer.

Obs == [chain |-> chain', disk |-> disk', redo |-> redo', undo |-> undo',
        views |-> [i \in 1..MaxViews |->
                     IF views'[i].open
                     THEN [open |-> TRUE, id |-> views'[i].id, content |-> Content(views'[i]),
                           scan |-> ScanOf(views'[i])]
                     ELSE [open |-> FALSE]]]

Record(step) == hist' = IF WithHist THEN Append(hist, step) ELSE hist

---------------------------------------------------------------------------
Init == /\ disk = EmptyDisk /\ chain = <<>>
        /\ redo = [h \in 1..MaxH |-> EmptyLayer]
        /\ undo = [h \in 1..MaxH |-> EmptyLayer]
        /\ cache = {} /\ views = [i \in 1..MaxViews |-> NoView]
        /\ res = "init" /\ hist = <<>>

FreeSlot == IF \E i \in 1..MaxViews : ~views[i].open
            THEN CHOOSE i \in 1..MaxViews : ~views[i].open /\ \A j \in 1..(i-1) : views[j].open
            ELSE 0

OpenView(id) ==
  LET g == GetView(id) s == FreeSlot IN
  /\ s # 0
  /\ cache' = g.c
  /\ IF g.ok THEN views' = [views EXCEPT ![s] = g.v] /\ res' = "ok"
             ELSE UNCHANGED views /\ res' = "nil"
  /\ UNCHANGED <<disk, chain, redo, undo>>
  /\ Record([a |-> "OpenView", id |-> id, slot |-> s, r |-> res'])

CloseView(i) ==
  /\ views[i].open
  /\ views' = [views EXCEPT ![i] = NoView]
  /\ res' = "ok"
  /\ UNCHANGED <<disk, chain, redo, undo, cache>>
  /\ Record([a |-> "CloseView", slot |-> i, r |-> "ok"])

\* ldbManager.Add for a transaction whose parent is `parent` and whose patch is PatchOf(tag).
Commit(parent, tag) ==
  LET g     == GetView(parent)
      patch == PatchOf(tag)
      nid   == Append(parent, tag)
      h     == Len(nid)
  IN /\ Len(parent) < MaxH
     /\ cache' = g.c
     /\ IF ~g.ok
        THEN /\ UNCHANGED <<disk, chain, redo, undo>> /\ res' = "noprev"
        ELSE IF parent = chain \/ ~FixParent
        THEN /\ undo'  = [undo EXCEPT ![h] = [k \in Keys |-> IF patch[k] = UNSET THEN UNSET ELSE Lookup(g.v, k)]]
             /\ redo'  = [redo EXCEPT ![h] = patch]
             /\ disk'  = [k \in Keys |-> IF patch[k] = UNSET THEN disk[k] ELSE patch[k]]
             /\ chain' = nid     \* as found (F1): the pointer moves although the store is a mixture
             /\ res'   = IF parent = chain THEN "ok" ELSE "staleAccepted"
        ELSE /\ UNCHANGED <<disk, chain, redo, undo>> /\ res' = "refused"
     /\ UNCHANGED views
     /\ Record([a |-> "Commit", parent |-> parent, tag |-> tag, r |-> res'])

Pop ==
  /\ Len(chain) >= 1
  /\ LET h == Len(chain) IN
       /\ disk'  = [k \in Keys |-> IF undo[h][k] = UNSET THEN disk[k] ELSE undo[h][k]]
       /\ undo'  = [undo EXCEPT ![h] = EmptyLayer]
       /\ redo'  = [redo EXCEPT ![h] = EmptyLayer]
  /\ chain' = Front(chain)
  /\ cache' = IF ~FixCache THEN cache                      \* F3
              ELSE IF GhostCache THEN {[id |-> c.id, to |-> IF c.to >= 0 THEN 0 - 1 - c.to ELSE c.to, raw |-> c.raw] : c \in cache}
              ELSE {}
  /\ res' = "ok"
  /\ UNCHANGED views
  /\ Record([a |-> "Pop", r |-> "ok"])

\* The process stops (cleanly or not) and the directory is reopened: caches and views are gone,
\* the leveldb content stays.
Restart ==
  /\ cache' = {} /\ views' = [i \in 1..MaxViews |-> NoView]
  /\ res' = "ok"
  /\ UNCHANGED <<disk, chain, redo, undo>>
  /\ Record([a |-> "Restart", r |-> "ok"])

\* Candidate identifiers offered to the store: every findable id and, as representatives of
\* the unknown ones (stale branch, never existed), every one-step sibling/child of a findable id.
Cand == {id \in Ids : id = <<>> \/ Known(Front(id))}

Next == \/ \E id \in Cand : OpenView(id)
        \/ \E i \in 1..MaxViews : CloseView(i)
        \/ \E p \in Cand, t \in Tags :
              \* an unknown parent is refused whatever the patch: one representative tag
              /\ (Known(p) \/ t = CHOOSE x \in Tags : TRUE)
              /\ Commit(p, t)
        \/ Pop
        \/ Restart

Spec == Init /\ [][Next]_vars

---------------------------------------------------------------------------
(* Properties *)

\* C07: a view shows exactly the contents as of its commit (lookups, existence, scans).
ViewAsOf == \A i \in 1..MaxViews : views[i].open =>
               /\ Content(views[i]) = AsOf(views[i].id)
               /\ ScanOf(views[i]) = {k \in Keys : AsOf(views[i].id)[k] # NONE}

\* C07: a view opened NOW at any findable commit is right (exercises the cache).
FreshViewRight == \A id \in Ids : Known(id) =>
                     LET v == GetView(id).v IN
                       /\ Content(v) = AsOf(id)
                       /\ ScanOf(v) = {k \in Keys : AsOf(id)[k] # NONE}

\* C06 / C07: the frontier store equals the fold of the patches on the frontier's path,
\* in particular after Pop (PopExact) and after a refused commit (ParentRule).
DiskIsFrontier == disk = AsOf(chain)

\* the redo/undo patches stored are those of the frontier's path, nothing else (no trace
\* of an abandoned branch, C06; needed by every later historical view).
PatchesMatch == \A h \in 1..MaxH :
                  IF h <= Len(chain)
                  THEN /\ redo[h] = PatchOf(chain[h])
                       /\ undo[h] = [k \in Keys |-> IF PatchOf(chain[h])[k] = UNSET THEN UNSET
                                                    ELSE AsOf(SubSeq(chain, 1, h - 1))[k]]
                  ELSE redo[h] = EmptyLayer /\ undo[h] = EmptyLayer

\* C07 ParentRule as an action property: a commit on anything but the frontier leaves the store unchanged.
ParentRule == [][(res' \in {"refused", "noprev"}) => UNCHANGED <<disk, chain, redo, undo>>]_vars
NoStaleAccept == res # "staleAccepted"

\* Behaviour generation: with VIEW GenView (state without the output-only variables) and
\* ACTION_CONSTRAINT EmitEdge TLC prints one behaviour per generated transition: the BFS-shortest
\* path to the source state, the transition, and the state the specification predicts after it.
GenView == <<disk, chain, redo, undo, cache, views>>
EmitEdge == IF WithHist THEN PrintT(<<"B", ToJson([steps |-> hist', obs |-> Obs])>>) ELSE TRUE
\* with GhostCache: only the transitions that request a view whose cache entry was purged by an earlier rollback
EmitGhostEdge ==
  IF ~WithHist THEN TRUE
  ELSE LET s   == hist'[Len(hist')]
           rid == IF s.a = "OpenView" THEN s.id ELSE <<"?">>
       IN IF \E c \in cache : c.to < 0 /\ c.id = rid
          THEN PrintT(<<"B", ToJson([steps |-> hist', obs |-> Obs])>>) ELSE TRUE
\* the same, on the part of the graph where only views fill the cache (no refused commits)
EmitGhostEdgeViewsOnly == res' \notin {"refused", "noprev"} /\ EmitGhostEdge
\* height-3 pass: transitions other than refused commits (those are covered at height 2)
EmitDeepEdge == res' \notin {"refused", "noprev"} /\ EmitEdge
HBound == Len(hist) <= 40
=============================================================================
