---------------------------- MODULE ElectionTrace ----------------------------
(* Trace validation: every schedule a real node reports (computed live, from its cache, after a restart,
   after a reorganisation, on a follower) must be Schedule(delegations as of the proof momentum, Go's permutations). *)
EXTENDS Election, TLC, Json

CONSTANTS TraceFile
VARIABLES l
Trace == ndJsonDeserialize(TraceFile)
E == Trace[l]

PermFrom(ps, s, n) == IF n = 0 THEN <<>>
                      ELSE (CHOOSE e \in {ps[i] : i \in 1..Len(ps)} : e.s = s /\ e.n = n).p

TInit == l = 1 /\ TLCSet(1, 1)
TElection ==
  /\ l <= Len(Trace) /\ E.ev = "Election" /\ l' = l + 1
  /\ LET P(s, n) == PermFrom(E.perms, s, n)
         S == Schedule(E.D, E.nodeCount, E.randCount, P)
     IN [i \in 1..Len(S) |-> S[i].name] = E.out
TNext == TElection
HighWater == TLCSet(1, IF TLCGet(1) > l THEN TLCGet(1) ELSE l)
Accepted == IF TLCGet(1) = Len(Trace) + 1 THEN TRUE ELSE PrintT(<<"REJECTED_AT", TLCGet(1)>>) /\ FALSE
=============================================================================
