----------------------------- MODULE VStoreCrash -----------------------------
(***************************************************************************)
(* Write granularity of ldbManager.Add / ldbManager.Pop and process death. *)
(*                                                                         *)
(* A commit or rollback is Begin (compute the list `pending` of raw writes *)
(* to the underlying database), RawWrite* (apply the head of the list),    *)
(* End.  Crash is enabled in EVERY state; it loses the volatile state      *)
(* (`pending`, `phase`) and keeps what reached the database.               *)
(*                                                                         *)
(* Granularity = "perKey": what the code did when it was found - the redo  *)
(*   patch, the undo patch, then one Put per key of the patch with the     *)
(*   frontier pointer among the last (rollback: one Put per key, then the  *)
(*   two deletes).  TLC refutes CrashAtomic (negative control).            *)
(* Granularity = "batch": the whole operation is one atomic database write *)
(*   (the repaired code).  CrashAtomic holds.                              *)
(*                                                                         *)
(* Which granularity the CODE has is observed, not assumed: the replay     *)
(* counts the journal records every operation appends and stops the real   *)
(* store at every record boundary.                                         *)
(***************************************************************************)
EXTENDS VStoreBase, TLC, Json

CONSTANTS MaxH, Tags, Granularity

VARIABLES disk,      \* user keys of the frontier key space
          ptr,       \* the frontier pointer key (an identifier = path)
          redo, undo,
          pending,   \* raw writes still to do
          phase,     \* "idle" | "commit" | "pop"
          crashed    \* a crash happened since the last completed operation (ghost)

vars == <<disk, ptr, redo, undo, pending, phase, crashed>>

Heights == 1..MaxH

Init == /\ disk = EmptyDisk /\ ptr = <<>>
        /\ redo = [h \in Heights |-> EmptyLayer] /\ undo = [h \in Heights |-> EmptyLayer]
        /\ pending = <<>> /\ phase = "idle" /\ crashed = FALSE

\* the raw writes of a commit of PatchOf(tag) on the frontier, in the order the code issues them
CommitWrites(tag) ==
  LET h == Len(ptr) + 1
      pa == PatchOf(tag)
      un == [k \in Keys |-> IF pa[k] = UNSET THEN UNSET ELSE disk[k]]
      keys == {k \in Keys : pa[k] # UNSET}
      kw(k) == [w |-> "key", k |-> k, v |-> pa[k]]
      keyWrites == IF "k1" \in keys /\ "k2" \in keys THEN <<kw("k1"), kw("k2")>>
                   ELSE IF "k1" \in keys THEN <<kw("k1")>> ELSE <<kw("k2")>>
  IN <<[w |-> "redo", h |-> h, v |-> pa], [w |-> "undo", h |-> h, v |-> un]>>
       \o keyWrites \o <<[w |-> "ptr", v |-> Append(ptr, tag)]>>

PopWrites ==
  LET h == Len(ptr)
      un == undo[h]
      keys == {k \in Keys : un[k] # UNSET}
      kw(k) == [w |-> "key", k |-> k, v |-> un[k]]
      keyWrites == IF "k1" \in keys /\ "k2" \in keys THEN <<kw("k1"), kw("k2")>>
                   ELSE IF "k1" \in keys THEN <<kw("k1")>>
                   ELSE IF "k2" \in keys THEN <<kw("k2")>> ELSE <<>>
  IN keyWrites \o <<[w |-> "ptr", v |-> Front(ptr)]>>
       \o <<[w |-> "delredo", h |-> h], [w |-> "delundo", h |-> h]>>

Group(ws) == IF Granularity = "batch" THEN << ws >> ELSE [i \in 1..Len(ws) |-> << ws[i] >>]

BeginCommit(tag) ==
  /\ phase = "idle" /\ Len(ptr) < MaxH
  /\ pending' = Group(CommitWrites(tag)) /\ phase' = "commit" /\ crashed' = FALSE
  /\ UNCHANGED <<disk, ptr, redo, undo>>

BeginPop ==
  /\ phase = "idle" /\ Len(ptr) >= 1
  /\ pending' = Group(PopWrites) /\ phase' = "pop" /\ crashed' = FALSE
  /\ UNCHANGED <<disk, ptr, redo, undo>>

RECURSIVE ApplyAll(_, _)
ApplyAll(st, ws) ==
  IF ws = <<>> THEN st
  ELSE LET w == Head(ws)
           st2 == CASE w.w = "redo"    -> [st EXCEPT !.redo[w.h] = w.v]
                    [] w.w = "undo"    -> [st EXCEPT !.undo[w.h] = w.v]
                    [] w.w = "key"     -> [st EXCEPT !.disk[w.k] = w.v]
                    [] w.w = "ptr"     -> [st EXCEPT !.ptr = w.v]
                    [] w.w = "delredo" -> [st EXCEPT !.redo[w.h] = EmptyLayer]
                    [] w.w = "delundo" -> [st EXCEPT !.undo[w.h] = EmptyLayer]
       IN ApplyAll(st2, Tail(ws))

RawWrite ==
  /\ phase # "idle" /\ pending # <<>>
  /\ LET st == ApplyAll([disk |-> disk, ptr |-> ptr, redo |-> redo, undo |-> undo], Head(pending))
     IN disk' = st.disk /\ ptr' = st.ptr /\ redo' = st.redo /\ undo' = st.undo
  /\ pending' = Tail(pending)
  /\ UNCHANGED <<phase, crashed>>

End == /\ phase # "idle" /\ pending = <<>> /\ phase' = "idle" /\ UNCHANGED <<disk, ptr, redo, undo, pending, crashed>>

Crash == /\ phase # "idle"
         /\ pending' = <<>> /\ phase' = "idle" /\ crashed' = TRUE
         /\ UNCHANGED <<disk, ptr, redo, undo>>

Next == (\E t \in Tags : BeginCommit(t)) \/ BeginPop \/ RawWrite \/ End \/ Crash

\* what a restarted node finds must be a state some crash-free history produces
Consistent ==
  /\ disk = AsOf(ptr)
  /\ \A h \in Heights :
       IF h <= Len(ptr)
       THEN /\ redo[h] = PatchOf(ptr[h])
            /\ undo[h] = [k \in Keys |-> IF PatchOf(ptr[h])[k] = UNSET THEN UNSET ELSE AsOf(SubSeq(ptr, 1, h - 1))[k]]
       ELSE redo[h] = EmptyLayer /\ undo[h] = EmptyLayer

CrashAtomic == phase = "idle" => Consistent
\* the number of raw writes of one operation (compared with the journal records observed on the real store)
WritesPerOp == phase # "idle" => Len(pending) <= 1
=============================================================================
