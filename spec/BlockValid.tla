------------------------------ MODULE BlockValid ------------------------------
(***************************************************************************)
(* Validity of an account block (C03) as a conjunction of named            *)
(* predicates over the facts the node looks at (verifier/account_block.go, *)
(* vm/vm.go), and the mutations of a valid block.                          *)
(*                                                                         *)
(* A candidate is a record: every field holds an ABSTRACT value that says  *)
(* how the concrete value relates to the ledger state the candidate is     *)
(* offered in (e.g. prev = "frontier" | "other", amount = "zero" | "one" | *)
(* "balance" | "balance+1" | "2^255", ack = "frontier" | "predecessor's" | *)
(* "older" | "unknown").  Valid is the property's rule; a mutation sets    *)
(* one or two fields to other values and then re-hashes / re-signs to a    *)
(* chosen level.  TLC enumerates all single and double mutations with      *)
(* their predicted verdict (a mutation may well yield another valid        *)
(* block); the replay builds each one on a real node.                      *)
(***************************************************************************)
EXTENDS Integers, Sequences, FiniteSets, TLC, Json

CONSTANTS Kinds, Double, WithHist

Domain(kind) ==
  IF kind = "contractReceive"
  THEN [ack  |-> {"confirming", "later", "earlier"},
        from |-> {"inboxHead", "inboxSecond", "unknown"},
        status |-> {"asGenerated", "flipped"},
        height |-> {"next", "next+1"},
        prev |-> {"frontier", "other"}]
  ELSE [prev   |-> {"frontier", "other", "zero"},
        height |-> {"next", "next+1", "same"},
        ack    |-> {"frontier", "predecessor's", "older", "unknown"},
        btype  |-> {"own", "contractKind"},
        version |-> {"1", "0", "2"},
        chainId |-> {"right", "other"},
        fused  |-> {"available", "tooMuch"},
        descendants |-> {"none", "contractSendLike", "userSendLike"}]
       @@ (IF kind = "userSend"
           THEN [amount |-> {"zero", "one", "balance", "balance+1", "2^255"},
                 token  |-> {"znn", "qsr", "unknown"},
                 to     |-> {"user2", "user3"}]
           ELSE [from |-> {"pendingToMe", "pendingToMeZeroAmount", "alreadyReceived", "alreadyReceivedZeroAmount", "alreadyReceivedDataOnly", "unconfirmed", "addressedToOther", "unknown"},
                 dataOnReceive |-> {"none", "some"}])

Original(kind) ==
  IF kind = "contractReceive"
  THEN [ack |-> "confirming", from |-> "inboxHead", status |-> "asGenerated", height |-> "next", prev |-> "frontier"]
  ELSE [prev |-> "frontier", height |-> "next", ack |-> "frontier", btype |-> "own", version |-> "1", chainId |-> "right", fused |-> "available", descendants |-> "none"]
       @@ (IF kind = "userSend" THEN [amount |-> "one", token |-> "znn", to |-> "user2"]
           ELSE [from |-> "pendingToMe", dataOnReceive |-> "none"])

Levels(kind) == IF kind = "contractReceive" THEN {"raw", "rehash"} ELSE {"raw", "rehash", "resignOwner", "resignOther"}

\* the rule of C03
FieldsValid(kind, b) ==
  IF kind = "contractReceive"
  THEN b.ack = "confirming" /\ b.from = "inboxHead" /\ b.status = "asGenerated" /\ b.height = "next" /\ b.prev = "frontier"
  ELSE /\ b.prev = "frontier" /\ b.height = "next"                              \* HeightLink
       /\ b.ack \in {"frontier", "predecessor's"}                              \* AckOnChain, AckMonotone
       /\ b.btype = "own" /\ b.version = "1" /\ b.chainId = "right"
       /\ b.fused = "available"                                                \* PlasmaOK
       /\ b.descendants = "none"                                               \* user blocks carry no descendants
       /\ (kind = "userSend" => b.amount \in {"zero", "one", "balance"}                      \* AmountRange, Funds ("balance" = what the account holds of the block's token)
                               /\ (b.token = "unknown" => b.amount \in {"zero", "balance"}))   \* nothing is held of an unknown token
       /\ (kind = "userReceive" => b.from \in {"pendingToMe", "pendingToMeZeroAmount"})   \* confirmed, unreceived, addressed to the receiver - whatever it carries

\* which fields the hash covers (all of them here: the uncovered ones are C13's subject)
HashOK(level, changed) == changed = {} \/ level # "raw"
SigOK(kind, level, changed) ==
  IF kind = "contractReceive" THEN TRUE                       \* contract blocks carry no key; they are reproduced
  ELSE (changed = {} /\ level \in {"raw", "rehash"}) \/ level = "resignOwner"     \* re-hashing an unaltered block changes nothing

Valid(kind, b, level, changed) == FieldsValid(kind, b) /\ HashOK(level, changed) /\ SigOK(kind, level, changed)

VARIABLES kind, mut, level
vars == <<kind, mut, level>>

Singles(k) == {<<[f |-> f, v |-> v]>> : f \in DOMAIN Domain(k), v \in UNION {Domain(k)[g] : g \in DOMAIN Domain(k)}}
OK1(k, m) == m[1].v \in Domain(k)[m[1].f] /\ m[1].v # Original(k)[m[1].f]
Muts(k) == {m \in Singles(k) : OK1(k, m)}
           \cup (IF Double THEN {m1 \o m2 : m1 \in {m \in Singles(k) : OK1(k, m)}, m2 \in {m \in Singles(k) : OK1(k, m)}} ELSE {})
WellFormed(k, m) == Len(m) = 1 \/ (m[1].f # m[2].f)

Apply(k, m) == LET b0 == Original(k)
                   b1 == [b0 EXCEPT ![m[1].f] = m[1].v]
               IN IF Len(m) = 1 THEN b1 ELSE [b1 EXCEPT ![m[2].f] = m[2].v]

Init == /\ kind \in Kinds
        /\ mut \in {m \in Muts(kind) : WellFormed(kind, m)} \cup {<<>>}
        /\ level \in Levels(kind)
Next == UNCHANGED vars

Changed == {mut[i].f : i \in 1..Len(mut)}
Cand == IF mut = <<>> THEN Original(kind) ELSE Apply(kind, mut)
Predicted == Valid(kind, Cand, level, Changed)

\* the unmodified block is valid; a raw alteration of any covered field is never valid
OriginalValid == (mut = <<>> /\ level = "raw") => Predicted
RawAlterationInvalid == (mut # <<>> /\ level = "raw") => ~Predicted
Emit == IF WithHist THEN PrintT(<<"B", ToJson([kind |-> kind, mut |-> mut, level |-> level, valid |-> Predicted])>>) ELSE TRUE
=============================================================================
