\* behaviour generation (edge cover): heights <= 2, two reader views
CONSTANTS
  MaxH = 2
  MaxViews = 2
  Tags = {"a","b","c","d","e"}
  FixParent = TRUE
  FixTomb = TRUE
  FixCache = TRUE
  FixEmptyScan = TRUE
  GhostCache = FALSE
  WithHist = TRUE
INIT Init
NEXT Next
VIEW GenView
ACTION_CONSTRAINT EmitEdge
CHECK_DEADLOCK FALSE
