----------------------------- MODULE PeerSession -----------------------------
(***************************************************************************)
(* The protocol handler towards untrusted peers (protocol/handler.go):     *)
(* per peer a session  pre -> active -> dropped; every message is a        *)
(* (code, class) pair and has a REQUIRED reaction:                         *)
(*   reply(n)  an answer with n <= limit items (512 hashes, 128 momentums) *)
(*   silent    consumed, the session goes on                               *)
(*   drop      only the offending session ends                             *)
(* The node process stays alive whatever arrives (`alive` is the           *)
(* requirement; the replay observes the real process) and keeps serving    *)
(* the other peers.                                                        *)
(***************************************************************************)
EXTENDS Integers, Sequences, FiniteSets, TLC, Json

CONSTANTS Peers, MaxMsgs, WithHist

Requests == {
  [code |-> "Status", class |-> "valid"], [code |-> "Status", class |-> "wrongGenesis"], [code |-> "Status", class |-> "garbage"],
  [code |-> "GetBlockHashes", class |-> "known-small"], [code |-> "GetBlockHashes", class |-> "known-0"], [code |-> "GetBlockHashes", class |-> "known-513"],
  [code |-> "GetBlockHashes", class |-> "known-2^63"], [code |-> "GetBlockHashes", class |-> "known-max"], [code |-> "GetBlockHashes", class |-> "unknown"],
  [code |-> "GetBlockHashes", class |-> "garbage"],
  [code |-> "GetBlockHashesFromNumber", class |-> "1-small"], [code |-> "GetBlockHashesFromNumber", class |-> "0-0"], [code |-> "GetBlockHashesFromNumber", class |-> "1-max"],
  [code |-> "GetBlockHashesFromNumber", class |-> "beyond"], [code |-> "GetBlockHashesFromNumber", class |-> "max-max"], [code |-> "GetBlockHashesFromNumber", class |-> "garbage"],
  [code |-> "GetBlocks", class |-> "known-1"], [code |-> "GetBlocks", class |-> "known-200"], [code |-> "GetBlocks", class |-> "unknown"], [code |-> "GetBlocks", class |-> "empty"],
  [code |-> "GetBlocks", class |-> "garbage"],
  [code |-> "BlockHashes", class |-> "wellformed"], [code |-> "BlockHashes", class |-> "garbage"],
  [code |-> "Blocks", class |-> "empty"], [code |-> "Blocks", class |-> "garbage"], [code |-> "Blocks", class |-> "nil-momentum"],
  [code |-> "NewBlockHashes", class |-> "unknown"], [code |-> "NewBlockHashes", class |-> "garbage"],
  [code |-> "NewBlock", class |-> "garbage"], [code |-> "NewBlock", class |-> "nil"], [code |-> "NewBlock", class |-> "nil-momentum"], [code |-> "NewBlock", class |-> "height-inconsistent"],
  [code |-> "Tx", class |-> "empty"], [code |-> "Tx", class |-> "nil-entry"], [code |-> "Tx", class |-> "garbage"], [code |-> "Tx", class |-> "invalid-block"],
  [code |-> "Unknown", class |-> "any"], [code |-> "Any", class |-> "oversized"] }

\* the required reaction of an ACTIVE session
Reaction(m) ==
  CASE m.code = "Status" -> [k |-> "drop", max |-> 0]
    [] m.code = "GetBlockHashes" /\ m.class = "garbage" -> [k |-> "drop", max |-> 0]
    [] m.code = "GetBlockHashes" -> [k |-> "reply", max |-> 512]
    [] m.code = "GetBlockHashesFromNumber" /\ m.class = "garbage" -> [k |-> "drop", max |-> 0]
    [] m.code = "GetBlockHashesFromNumber" -> [k |-> "reply", max |-> 512]
    [] m.code = "GetBlocks" /\ m.class = "garbage" -> [k |-> "drop", max |-> 0]
    [] m.code = "GetBlocks" -> [k |-> "reply", max |-> 128]
    [] m.code \in {"BlockHashes", "NewBlockHashes"} -> [k |-> "silent", max |-> 0]          \* undecodable hashes are ignored
    [] m.code = "Blocks" /\ m.class = "empty" -> [k |-> "silent", max |-> 0]
    [] m.code = "Blocks" -> [k |-> "drop", max |-> 0]
    [] m.code = "NewBlock" /\ m.class = "height-inconsistent" -> [k |-> "silent", max |-> 0]
    [] m.code = "NewBlock" -> [k |-> "drop", max |-> 0]
    [] m.code = "Tx" /\ m.class \in {"empty", "invalid-block"} -> [k |-> "silent", max |-> 0]
    [] m.code = "Tx" -> [k |-> "drop", max |-> 0]
    [] m.code = "Unknown" -> [k |-> "drop", max |-> 0]
    [] m.code = "Any" -> [k |-> "drop", max |-> 0]

VARIABLES st, alive, nmsg, hist
vars == <<st, alive, nmsg, hist>>

Init == st = [p \in Peers |-> "pre"] /\ alive = TRUE /\ nmsg = 0 /\ hist = <<>>

Send(p, m) ==
  /\ alive /\ st[p] # "dropped" /\ nmsg < MaxMsgs
  /\ nmsg' = nmsg + 1
  /\ alive' = TRUE                               \* the requirement
  /\ LET r == IF st[p] = "pre"
              THEN (IF m.code = "Status" /\ m.class = "valid" THEN [k |-> "handshake", max |-> 0] ELSE [k |-> "drop", max |-> 0])
              ELSE Reaction(m)
     IN /\ st' = [st EXCEPT ![p] = IF r.k = "drop" THEN "dropped" ELSE IF r.k = "handshake" THEN "active" ELSE @]
        /\ hist' = IF WithHist THEN Append(hist, [p |-> p, code |-> m.code, class |-> m.class, k |-> r.k, max |-> r.max]) ELSE hist

Next == \E p \in Peers, m \in Requests : Send(p, m)

NodeAlive == alive
\* only the offender is dropped: a step changes the state of one peer at most (by construction) and never of a peer that did not send
OnlyOffenderDropped == [][\A q \in Peers : st'[q] # st[q] => \E m \in Requests : Send(q, m)]_vars

GenView == <<st, nmsg>>
EmitEdge == IF WithHist THEN PrintT(<<"B", ToJson([steps |-> hist'])>>) ELSE TRUE
=============================================================================
