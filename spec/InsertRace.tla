------------------------------ MODULE InsertRace ------------------------------
(***************************************************************************)
(* The producing pillar against sync (C14, C07): the pillar generates its  *)
(* momentum on the frontier it sees (under the insert lock), releases the  *)
(* lock, and later re-acquires it to insert the momentum; in between sync  *)
(* may adopt a competing momentum of the same height.  Every step is one   *)
(* critical section of chain.insert.                                       *)
(***************************************************************************)
EXTENDS Integers, Sequences, FiniteSets, TLC, Json

CONSTANTS FixParent, WithHist

VARIABLES frontier,   \* "base" | "own" | "competitor"
          applied,    \* momentums whose changes are in the store
          ppc, spc,   \* program counters
          last, hist
vars == <<frontier, applied, ppc, spc, last, hist>>

Init == frontier = "base" /\ applied = {} /\ ppc = "idle" /\ spc = "idle" /\ last = "init" /\ hist = <<>>
Rec(a) == hist' = IF WithHist THEN Append(hist, [a |-> a, r |-> last', frontier |-> frontier']) ELSE hist

PGenerate == /\ ppc = "idle" /\ frontier = "base" /\ ppc' = "generated" /\ last' = "generated"
             /\ UNCHANGED <<frontier, applied, spc>> /\ Rec("PGenerate")
\* the pillar inserts what it generated on "base"
PInsert == /\ ppc = "generated" /\ ppc' = "done"
           /\ IF frontier = "base" \/ ~FixParent
              THEN frontier' = "own" /\ applied' = applied \cup {"own"} /\ last' = "inserted"
              ELSE UNCHANGED <<frontier, applied>> /\ last' = "refused"
           /\ UNCHANGED spc /\ Rec("PInsert")
\* sync is handed the competitor (same height as the pillar's momentum, built on "base")
SInsert == /\ spc = "idle" /\ spc' = "done"
           /\ IF frontier = "base" THEN frontier' = "competitor" /\ applied' = applied \cup {"competitor"} /\ last' = "adopted"
              ELSE UNCHANGED <<frontier, applied>> /\ last' = "notlonger"
           /\ UNCHANGED ppc /\ Rec("SInsert")
Next == PGenerate \/ PInsert \/ SInsert

\* the store holds the changes of the frontier's momentum and of nothing else
StoreNotCorrupted == applied = IF frontier = "base" THEN {} ELSE {frontier}
GenView == <<frontier, applied, ppc, spc>>
EmitEdge == IF WithHist THEN PrintT(<<"B", ToJson([steps |-> hist'])>>) ELSE TRUE
=============================================================================
