----------------------------- MODULE VStoreBase -----------------------------
(* Definitions shared by the VStore specifications: keys, the patch alphabet, and the reference
   contents AsOf(id) of the store as of an identifier (= path of patch tags from the empty store). *)
EXTENDS Integers, Sequences, FiniteSets

Keys  == {"k1", "k2"}
UNSET == "UNSET"      \* a patch / overlay does not mention the key
NONE  == "NONE"       \* absent (in a patch: delete; in an overlay: tombstone)
EPS   == "eps"        \* the empty value, present

\* The fixed patch alphabet.  A patch maps each key to UNSET, NONE or a value.
PatchOf(t) ==
  CASE t = "a" -> [k1 |-> "a",   k2 |-> UNSET]     \* create k1
    [] t = "b" -> [k1 |-> UNSET, k2 |-> "b"]       \* create k2
    [] t = "c" -> [k1 |-> NONE,  k2 |-> "c"]       \* delete k1, (re)write k2
    [] t = "d" -> [k1 |-> "d",   k2 |-> UNSET]     \* overwrite / re-create k1
    [] t = "e" -> [k1 |-> EPS,   k2 |-> UNSET]     \* k1 := empty value

EmptyLayer == [k \in Keys |-> UNSET]
EmptyDisk  == [k \in Keys |-> NONE]

Front(s) == SubSeq(s, 1, Len(s) - 1)
IsPrefix(p, s) == Len(p) <= Len(s) /\ SubSeq(s, 1, Len(p)) = p

RECURSIVE AsOf(_)
AsOf(id) == IF id = <<>> THEN EmptyDisk
            ELSE LET prev == AsOf(Front(id))
                     pa   == PatchOf(id[Len(id)])
                 IN [k \in Keys |-> IF pa[k] = UNSET THEN prev[k] ELSE pa[k]]

=============================================================================
