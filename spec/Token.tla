-------------------------------- MODULE Token --------------------------------
(***************************************************************************)
(* The token contract (vm/embedded/implementation/token.go): the record of *)
(* one user-issued token and who holds it (C01: supply changes only        *)
(* through issue, mint and burn; never above the maximum).                 *)
(*                                                                         *)
(*   Issue    creates the record and gives the total supply to the issuer; *)
(*            refused at send time unless 0 < max, total <= max, and       *)
(*            max = total for a token that is not mintable                 *)
(*   Mint     by the owner of a mintable token, at most max - total         *)
(*   Burn     by any holder of a burnable token, by the owner in any case; *)
(*            a token that is not mintable loses the amount from its       *)
(*            maximum, too                                                 *)
(*   Update   by the owner: new owner, burnable on/off, mintable off (not  *)
(*            on again); switching mintable off freezes max at total       *)
(*   Transfer between holders (no contract involved)                       *)
(*                                                                         *)
(* Outcomes: "ok", "refund" (the contract's receive fails, the amount of   *)
(* the call comes back), "rejected" (refused when the call is sent).       *)
(* Amounts are abstract units; the replay concretises them (1, 10^18, a    *)
(* third of the largest maximum the contract admits).                      *)
(***************************************************************************)
EXTENDS Integers, Sequences, FiniteSets, TLC, Json

CONSTANTS Users, MaxUnits, WithHist

VARIABLES tok,     \* the record: [ex, owner, total, max, mint, burn]
          hold,    \* holder -> units ("sink": an embedded contract that takes donations)
          last, hist

vars == <<tok, hold, last, hist>>
Holders == Users \cup {"sink"}
NoTok == [ex |-> FALSE, owner |-> "-", total |-> 0, max |-> 0, mint |-> FALSE, burn |-> FALSE]

Init == tok = NoTok /\ hold = [h \in Holders |-> 0] /\ last = "init" /\ hist = <<>>

Rec(step) == hist' = IF WithHist THEN Append(hist, step @@ [r |-> last', st |-> [tok |-> tok', hold |-> hold']]) ELSE hist

IssueValid(t, m, mi) == m >= 1 /\ t <= m /\ (mi \/ m = t)

Issue(u, t, m, mi, bu) ==
  /\ ~tok.ex
  /\ IF IssueValid(t, m, mi)
     THEN /\ tok' = [ex |-> TRUE, owner |-> u, total |-> t, max |-> m, mint |-> mi, burn |-> bu]
          /\ hold' = [hold EXCEPT ![u] = @ + t]
          /\ last' = "ok"
     ELSE UNCHANGED <<tok, hold>> /\ last' = "rejected"
  /\ Rec([a |-> "Issue", c |-> u, t |-> t, m |-> m, mi |-> mi, bu |-> bu])

Mint(c, n, to) ==
  /\ IF n = 0 THEN UNCHANGED <<tok, hold>> /\ last' = "rejected"
     ELSE IF tok.ex /\ tok.mint /\ tok.max - tok.total >= n /\ c = tok.owner
     THEN /\ tok' = [tok EXCEPT !.total = @ + n]
          /\ hold' = [hold EXCEPT ![to] = @ + n]
          /\ last' = "ok"
     ELSE UNCHANGED <<tok, hold>> /\ last' = "refund"
  /\ Rec([a |-> "Mint", c |-> c, n |-> n, to |-> to])

Burn(c, n) ==
  /\ tok.ex /\ hold[c] >= n
  /\ IF n = 0 THEN UNCHANGED <<tok, hold>> /\ last' = "rejected"
     ELSE IF tok.burn \/ c = tok.owner
     THEN /\ tok' = [tok EXCEPT !.total = @ - n, !.max = IF tok.mint THEN @ ELSE @ - n]
          /\ hold' = [hold EXCEPT ![c] = @ - n]
          /\ last' = "ok"
     ELSE UNCHANGED <<tok, hold>> /\ last' = "refund"
  /\ Rec([a |-> "Burn", c |-> c, n |-> n])

Update(c, o, mi, bu) ==
  /\ IF tok.ex /\ c = tok.owner /\ (mi => tok.mint)
     THEN /\ tok' = [tok EXCEPT !.owner = o, !.mint = mi, !.burn = bu, !.max = IF tok.mint /\ ~mi THEN tok.total ELSE @]
          /\ UNCHANGED hold /\ last' = "ok"
     ELSE UNCHANGED <<tok, hold>> /\ last' = "refund"
  /\ Rec([a |-> "Update", c |-> c, o |-> o, mi |-> mi, bu |-> bu])

Transfer(c, to, n) ==
  /\ tok.ex /\ n >= 1 /\ hold[c] >= n /\ c # to
  /\ hold' = [hold EXCEPT ![c] = @ - n, ![to] = @ + n]
  /\ UNCHANGED tok /\ last' = "ok"
  /\ Rec([a |-> "Transfer", c |-> c, to |-> to, n |-> n])

Next == \/ \E u \in Users, t \in 0..MaxUnits, m \in 0..MaxUnits, mi \in BOOLEAN, bu \in BOOLEAN : Issue(u, t, m, mi, bu)
        \/ \E c \in Users, n \in 0..MaxUnits, to \in Holders : Mint(c, n, to)
        \/ \E c \in Users, n \in 0..MaxUnits : Burn(c, n)
        \/ \E c \in Users, o \in Users, mi \in BOOLEAN, bu \in BOOLEAN : Update(c, o, mi, bu)
        \/ \E c \in Users, to \in Users, n \in 1..MaxUnits : Transfer(c, to, n)

RECURSIVE Sum(_, _)
Sum(f, S) == IF S = {} THEN 0 ELSE LET x == CHOOSE y \in S : TRUE IN f[x] + Sum(f, S \ {x})

\* C01 for one token: what is held adds up to the recorded supply, which never exceeds the maximum
SupplyIsHeld == tok.total = Sum(hold, Holders)
WithinMax == tok.total <= tok.max \/ ~tok.ex
FrozenWhenNotMintable == (tok.ex /\ ~tok.mint) => tok.max = tok.total
\* the maximum never grows; a token that is not mintable stays so and its supply only shrinks
MaxNeverGrows == [][tok.ex => tok'.max <= tok.max]_vars
MintableOffForGood == [][(tok.ex /\ ~tok.mint) => (~tok'.mint /\ tok'.total <= tok.total)]_vars
\* the supply moves only by Mint and Burn (the action that changes it says "ok" and is one of the two): here as a state property
\* of the step - total changes only together with exactly one holder's balance, by the same amount
SupplyMovesWithOneHolder ==
  [][tok.ex /\ tok'.total # tok.total =>
       \E h \in Holders : /\ hold'[h] - hold[h] = tok'.total - tok.total
                          /\ \A g \in Holders \ {h} : hold'[g] = hold[g]]_vars

GenView == <<tok, hold>>
EmitEdge == IF WithHist THEN PrintT(<<"B", ToJson([steps |-> hist'])>>) ELSE TRUE
=============================================================================
