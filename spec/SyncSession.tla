----------------------------- MODULE SyncSession -----------------------------
(***************************************************************************)
(* A synchronisation the node starts itself (protocol/sync.go,             *)
(* protocol/downloader): a remote announces a longer chain in its Status,  *)
(* the node asks it for hashes by number (ancestor lookup), for hashes     *)
(* again (the chain to fetch) and for the momentums; the remote answers    *)
(* each request with an answer of some class.                              *)
(*                                                                         *)
(*   stage   which request of the node the remote answers next             *)
(*   out     how the synchronisation ended: "synced" (the node holds the   *)
(*           announced chain) or "dropped" (the remote was dropped, the    *)
(*           synchronisation given up); "none" while it is going on        *)
(*                                                                         *)
(* Whatever the remote answers - and whatever a second remote throws in -  *)
(* the node process stays alive and the synchronisation ENDS; afterwards a *)
(* well-behaved remote can be synchronised with (the downloader is not     *)
(* left busy).  The replay observes the three facts on the real            *)
(* ProtocolManager, fetcher and downloader.                                *)
(***************************************************************************)
EXTENDS Integers, Sequences, FiniteSets, TLC, Json

CONSTANTS WithHist

\* hashes-1: the head fetch of the ancestor lookup; search-1: the first single-hash request of its binary search;
\* hashes-2: the first request of the hash download proper; blocks-1: the first momentum request
Stages == <<"hashes-1", "search-1", "hashes-2", "blocks-1">>
HashAnswers  == {"correct", "empty", "garbage", "unknown-hashes", "too-many", "reversed", "silent", "silent-while-another-remote-sends-hashes"}
BlockAnswers == {"correct", "empty", "garbage", "nil-momentum", "unrequested", "height-below-window", "height-above-window",
                 "duplicated", "too-many", "silent", "tampered-signature"}
SearchAnswers == {"correct", "empty", "garbage", "unknown-hashes", "too-many", "silent"}
Answers(st) == IF st = "blocks-1" THEN BlockAnswers ELSE IF st = "search-1" THEN SearchAnswers ELSE HashAnswers

VARIABLES stage, alive, out, hist
vars == <<stage, alive, out, hist>>

Init == stage = 1 /\ alive = TRUE /\ out = "none" /\ hist = <<>>

\* an answer other than the correct one ends the synchronisation one way or the other; which way is the node's choice
\* (a tolerated oddity may still lead to "synced"), so the specification allows both and requires only that it ends
Answer(a) ==
  /\ out = "none" /\ stage <= Len(Stages) /\ a \in Answers(Stages[stage])
  /\ alive' = TRUE
  /\ IF a = "correct"
     THEN /\ stage' = stage + 1
          /\ out' = IF stage = Len(Stages) THEN "synced" ELSE "none"
     ELSE /\ stage' = stage
          /\ out' \in {"synced", "dropped"}
  /\ hist' = IF WithHist THEN Append(hist, [stage |-> Stages[stage], answer |-> a]) ELSE hist

Next == \E a \in HashAnswers \cup BlockAnswers : Answer(a)

NodeAlive == alive
Ends == <>(out # "none")           \* under fairness of Answer; checked in the replay as a deadline
Spec == Init /\ [][Next]_vars /\ WF_vars(Next)

GenView == <<stage, out # "none">>
\* one behaviour per (stage, answer): printed when the synchronisation has ended
EmitEdge == IF WithHist /\ out' # "none" /\ (out' = "dropped" \/ hist'[Len(hist')].answer = "correct" \/ stage' <= Len(Stages))
            THEN PrintT(<<"B", ToJson([steps |-> hist'])>>) ELSE TRUE
=============================================================================
