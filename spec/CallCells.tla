------------------------------ MODULE CallCells ------------------------------
(***************************************************************************)
(* The input space of a call to an embedded contract (C09), as cells.      *)
(*                                                                         *)
(* A call is (method, arguments, amount, token, caller).  Every parameter  *)
(* has a DEFAULT class - the value that makes the call meaningful in the   *)
(* prepared state (an existing entry of the caller, a token the caller     *)
(* owns, the amount the method asks for, ...) - and a set of deviating     *)
(* classes given by its ABI type.  A cell fixes at most MaxDev deviations  *)
(* (MaxDevDeep for the contracts in Deep); `tie` applies an integer        *)
(* deviation to every parameter of the same type at once (total = max).    *)
(*                                                                         *)
(* Methods is data: the harness writes CallCellsData.tla from the ABI      *)
(* definitions of the code under test (vm/embedded/definition), so a       *)
(* method added to the code is a method of this space.                     *)
(*                                                                         *)
(* What C09 says about every cell is Ledger.tla's: the send is refused at  *)
(* send time, or it is confirmed and then CRecv'd exactly once (applied or *)
(* refunded) in inbox order, and the next entry can follow.  The harness   *)
(* concretises each cell, sends it to a producing node, and validates the  *)
(* node's trace against LedgerTrace.tla.                                   *)
(***************************************************************************)
EXTENDS Integers, Sequences, FiniteSets, TLC, Json, CallCellsData

CONSTANTS MaxDev, MaxDevDeep, Deep

IntClasses256 == {"zero", "one", "p63", "p64", "p255m1", "p255", "p256m1"}
ClassesOf(type) ==
  CASE type = "uint256"       -> IntClasses256
    [] type = "uint8"         -> {"zero", "mid", "max"}
    [] type \in {"uint16", "uint32", "uint64"} -> {"zero", "max"}
    [] type = "int64"         -> {"zero", "one", "minusOne", "min", "max"}
    [] type = "bool"          -> {"flip"}
    [] type = "string"        -> {"empty", "long", "nonascii", "foreign", "b64of33", "b64of65"}   \* base64 of 33 / 65 arbitrary bytes: the shape of a key / a signature
    [] type = "address"       -> {"zero", "self", "contract", "stranger"}
    [] type = "tokenStandard" -> {"zero", "znn", "qsr", "unknown", "foreign"}
    [] type = "hash"          -> {"zero", "unknown", "foreign"}
    [] type = "bytes"         -> {"empty", "short", "long"}
    [] OTHER                  -> {"empty", "single", "dup"}     \* arrays

\* call-level dimensions are parameters 0 (amount), -1 (token), -2 (caller)
CallDims == {0, 0 - 1, 0 - 2}
CallClasses(d) == CASE d = 0 -> {"zero", "one", "more", "huge"}
                    [] d = 0 - 1 -> {"znn", "qsr", "own"}
                    [] d = 0 - 2 -> {"other"}

Dims(m) == (1..Len(m.params)) \cup CallDims
DimClasses(m, d) == IF d \in CallDims THEN CallClasses(d) ELSE ClassesOf(m.params[d])

IsIntType(t) == t \in {"uint256", "uint8", "uint16", "uint32", "uint64", "int64"}
Tieable(m, d) == d \in 1..Len(m.params) /\ IsIntType(m.params[d])
                   /\ \E e \in 1..Len(m.params) : e # d /\ m.params[e] = m.params[d]

Bound(m) == IF m.c \in Deep THEN MaxDevDeep ELSE MaxDev

\* all assignments of classes to at most k dimensions
Devs(m, k) == UNION {[D -> UNION {DimClasses(m, d) : d \in D}] : D \in {S \in SUBSET Dims(m) : Cardinality(S) <= k /\ Cardinality(S) >= 1}}
WellTyped(m, f) == \A d \in DOMAIN f : f[d] \in DimClasses(m, d)

Cells(i) == LET m == Methods[i] IN
  {[m |-> i, dev |-> f, tie |-> t] :
     f \in {g \in Devs(m, Bound(m)) : WellTyped(m, g)},
     t \in BOOLEAN}

\* tie only where it means something: exactly one tieable integer deviation
TieOK(i, c) == c.tie => Cardinality({d \in DOMAIN c.dev : Tieable(Methods[i], d)}) = 1

Render(i, c) ==
  [c |-> Methods[i].c, m |-> Methods[i].m, tie |-> c.tie,
   dev |-> [d \in DOMAIN c.dev |-> c.dev[d]]]

SetToSeq(S) == CHOOSE s \in [1..Cardinality(S) -> S] : \A a, b \in 1..Cardinality(S) : a < b => s[a] < s[b]

\* TLC prints one line per cell (ToJson renders the function dev as an object keyed by dimension)
Emit == \A i \in 1..Len(Methods) : \A c \in Cells(i) :
          IF TieOK(i, c) THEN PrintT(<<"B", ToJson([c |-> Methods[i].c, m |-> Methods[i].m, tie |-> c.tie,
                                                     dims |-> SetToSeq(DOMAIN c.dev),
                                                     classes |-> [k \in 1..Cardinality(DOMAIN c.dev) |-> c.dev[SetToSeq(DOMAIN c.dev)[k]]]])>>)
          ELSE TRUE

VARIABLE done
Init == done = FALSE
Next == ~done /\ Emit /\ done' = TRUE
=============================================================================
